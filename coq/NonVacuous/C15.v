(* NonVacuous/C15.v — every C15 theorem with a hypothesis, on concrete register histories.
   Each example: hypotheses /\ instantiated conclusion (by applying the theorem).
   The equivalence C15_full_stack_refines_iff is exemplified in both directions.
   C15_full_stack_all_messages / _exact are instantiated on the message ASTs of CommonDev.v (end of the file);
   the equivalence of _exact is exemplified for both values of stray_separator.
   Skipped (no implication premise): C15_event_read_clears, C15_readback, C15_preset_values. *)
From VF Require Import Base Gen_Errors Status StatusSpec Status_proofs Contrib ContribSpec Contrib_proofs Grammar MessageSpec ContribMeaning.
From VF.NonVacuous Require Import Common CommonDev.
From VF.Properties Require C15.
Import C15.
Open Scope N_scope.

(* negative filter on bit 0, positive filter on bits 1 and 2; the condition goes 0 -> 9 -> 2:
   bit 0 falls (latched by the negative filter), bit 1 rises (latched by the positive filter),
   bit 3 rises and falls unfiltered (not latched) *)
Definition h_ex : list rop := [RWrNtr 1; RWrPtr 6; RSet 9; RWrEnable 3; RSet 2; RRdCondition].

Example C15_event_latched_nonvacuous :
  0 < 16 /\ (N.testbit (event (reg_run h_ex)) 0 = true <-> latched 0 h_ex) /\
  3 < 16 /\ (N.testbit (event (reg_run h_ex)) 3 = true <-> latched 3 h_ex) /\
  event (reg_run h_ex) = 3 /\ latched 0 h_ex /\ ~ latched 3 h_ex.
Proof.
  pose proof (C15_event_latched h_ex 0 eq_refl) as L0.
  pose proof (C15_event_latched h_ex 3 eq_refl) as L3.
  split; [reflexivity|]. split; [exact L0|]. split; [reflexivity|]. split; [exact L3|].
  split; [reflexivity|]. split.
  - apply (proj1 L0). reflexivity.
  - intro H. apply (proj2 L3) in H. discriminate H.
Qed.

Example C15_other_reads_pure_nonvacuous :
  let r := reg_run h_ex in
  In RRdPtr [RRdCondition; RRdEnable; RRdPtr; RRdNtr] /\ fst (reg_step r RRdPtr) = r /\ snd (reg_step r RRdPtr) = Some 6.
Proof.
  intro r.
  assert (h : In RRdPtr [RRdCondition; RRdEnable; RRdPtr; RRdNtr]) by (right; right; left; reflexivity).
  exact (conj h (conj (C15_other_reads_pure r RRdPtr h) eq_refl)).
Qed.

(* a register whose bit 15 is set everywhere: the answer never shows it *)
Example C15_bit15_clear_nonvacuous :
  let r := mkReg 65535 40000 65535 65535 65535 in
  snd (reg_step r RRdEvent) = Some 7232 /\ N.testbit 7232 15 = false.
Proof. intro r. exact (conj eq_refl (C15_bit15_clear r RRdEvent 7232 eq_refl)). Qed.

Example C15_low_bits_faithful_nonvacuous :
  6 < 15 /\ N.testbit (N.land 40000 m15) 6 = N.testbit 40000 6 /\ N.testbit 40000 6 = true.
Proof. exact (conj eq_refl (conj (C15_low_bits_faithful 40000 6 eq_refl) eq_refl)). Qed.

(* the full stack on the session of CommonDev.v (it writes and reads back STATus:OPERation:ENABle) *)
Example C15_full_stack_refines_nonvacuous :
  forallb (fun m => forallb renderable (snd m)) ex_msgs = true /\ forallb renderable ex_us = true /\
  dev_message (session_ops dev_init ex_msgs) true (units_text ex_us)
  = Val (op_message (session_ops dev_init ex_msgs) true ex_us) /\
  op_message (session_ops dev_init ex_msgs) true ex_us = (ex_final, bs "32;5;0;80", Some (std_error DataOutOfRange)).
Proof.
  exact (conj ex_msgs_renderable (conj ex_us_renderable
    (conj (C15_full_stack_refines ex_msgs true ex_us ex_msgs_renderable ex_us_renderable) ex_op_message))).
Qed.
(* ... and a message that drives one register set through its commands *)
Example C15_full_stack_refines_nonvacuous_regs :
  let us := [SReg Ques (RWrPtr 6); SReg Ques (RWrNtr 1); SReg Ques (RWrEnable 3); SReg Ques RRdPtr; SReg Ques RRdNtr;
             SReg Ques RRdEnable; SReg Ques RRdEvent; SReg Ques RRdCondition; SPreset; SReg Ques RRdPtr] in
  forallb (fun m => forallb renderable (snd m)) ex_msgs = true /\ forallb renderable us = true /\
  dev_message (session_ops dev_init ex_msgs) false (units_text us)
  = Val (op_message (session_ops dev_init ex_msgs) false us) /\
  snd (fst (op_message (session_ops dev_init ex_msgs) false us)) = bs "6;1;3;0;0;32767" ++ [10].
Proof.
  intro us.
  assert (h : forallb renderable us = true) by (vm_compute; reflexivity).
  assert (hv : snd (fst (op_message (session_ops dev_init ex_msgs) false us)) = bs "6;1;3;0;0;32767" ++ [10]) by (vm_compute; reflexivity).
  exact (conj ex_msgs_renderable (conj h
    (conj (C15_full_stack_refines ex_msgs false us ex_msgs_renderable h) hv))).
Qed.

(* the equivalence: it holds in the final state of the session (one standard error queued), and fails in a state whose
   queue holds a custom error with a non-ASCII message and no extended text *)
Example C15_full_stack_refines_iff_nonvacuous :
  let d_bad := set_queue dev_init [mkError 101%Z (Some [233]) None] in
  queue_printable ex_final = true /\
  (forall mav us, forallb renderable us = true -> dev_message ex_final mav (units_text us) = Val (op_message ex_final mav us)) /\
  queue_printable d_bad = false /\
  ~ (forall mav us, forallb renderable us = true -> dev_message d_bad mav (units_text us) = Val (op_message d_bad mav us)).
Proof.
  intro d_bad.
  split; [reflexivity|]. split; [exact (proj2 (C15_full_stack_refines_iff ex_final) eq_refl)|].
  split; [reflexivity|]. intro H. apply (proj1 (C15_full_stack_refines_iff d_bad)) in H. discriminate H.
Qed.

Print Assumptions C15_event_latched_nonvacuous.
Print Assumptions C15_bit15_clear_nonvacuous.
Print Assumptions C15_full_stack_refines_nonvacuous.

(* ------------------------------------------------------------------ *)
(* the refinement for ALL well-formed messages, on the session of ASTs of CommonDev.v *)
(* ------------------------------------------------------------------ *)
(* after "*ESE 32;*ERR -113;*ESR?" and ":SYST:ERR:COUN?;*STB?;*SRE 16<NL>" from power-on, the message
   "stat:oper:enab 5;ptr 3;:syst:err?;*ese 300;*ese?" (short forms in lower case, a relative header, a default node
   omitted, an argument out of range): the full stack computes what the operation list says *)
Example C15_full_stack_all_messages_nonvacuous :
  wf_msg dm3 = true /\ message_ops dm3 = Some ex_us3 /\
  render_msg dm3 = bs "stat:oper:enab 5;ptr 3;:syst:err?;*ese 300;*ese?" /\
  ex_us3 = [SReg Oper (RWrEnable 5); SReg Oper (RWrPtr 3); SErrNext; SFail (std_error DataOutOfRange)] /\
  dev_message (session_msgs dev_init ex_session) true (render_msg dm3)
  = Val (with_stray dm3 (op_message (session_msgs dev_init ex_session) true ex_us3)) /\
  session_msgs dev_init ex_session = ex_mid /\
  with_stray dm3 (op_message ex_mid true ex_us3)
  = (ex_final3, bs "-113,""Undefined header""", Some (std_error DataOutOfRange)) /\
  esr ex_final3 = 48 /\ length (queue ex_final3) = 1%nat /\ queue ex_final3 = [std_error DataOutOfRange] /\
  enable (oper ex_final3) = 5 /\ ptr_filter (oper ex_final3) = 3 /\ ese ex_final3 = 32.
Proof.
  assert (h : with_stray dm3 (op_message ex_mid true ex_us3)
              = (ex_final3, bs "-113,""Undefined header""", Some (std_error DataOutOfRange)))
    by (unfold with_stray; rewrite ex_op_message3, dm3_not_stray; vm_compute; reflexivity).
  exact (conj dm3_wf (conj dm3_ops (conj (proj1 (proj2 (proj2 dm_texts))) (conj eq_refl
    (conj (C15_full_stack_all_messages ex_session dm3 true ex_us3 dm3_wf dm3_ops)
    (conj ex_session_mid (conj h (conj eq_refl (conj eq_refl (conj eq_refl (conj eq_refl (conj eq_refl eq_refl)))))))))))).
Qed.

(* in the same state, "*ESE?;*CLS?": the operation-level result, plus exactly the unit separator that the dispatcher
   wrote before it invoked the (non-existent) query form of *CLS *)
Example C15_full_stack_all_messages_nonvacuous_stray :
  wf_msg dm_stray = true /\ message_ops dm_stray = Some ex_us_stray /\
  render_msg dm_stray = bs "*ESE?;*CLS?" /\ ex_us_stray = [SRdEse; SFail (std_error UndefinedHeader)] /\
  dev_message (session_msgs dev_init ex_session) true (render_msg dm_stray)
  = Val (with_stray dm_stray (op_message (session_msgs dev_init ex_session) true ex_us_stray)) /\
  session_msgs dev_init ex_session = ex_mid /\
  op_message ex_mid true ex_us_stray = (ex_final_stray, bs "32", Some (std_error UndefinedHeader)) /\
  with_stray dm_stray (op_message ex_mid true ex_us_stray) = (ex_final_stray, bs "32;", Some (std_error UndefinedHeader)) /\
  esr ex_final_stray = 32 /\ length (queue ex_final_stray) = 2%nat.
Proof.
  assert (h : with_stray dm_stray (op_message ex_mid true ex_us_stray)
              = (ex_final_stray, bs "32;", Some (std_error UndefinedHeader)))
    by (unfold with_stray; rewrite ex_op_message_stray, dm_stray_stray; vm_compute; reflexivity).
  exact (conj dm_stray_wf (conj dm_stray_ops (conj (proj2 (proj2 (proj2 dm_texts))) (conj eq_refl
    (conj (C15_full_stack_all_messages ex_session dm_stray true ex_us_stray dm_stray_wf dm_stray_ops)
    (conj ex_session_mid (conj ex_op_message_stray (conj h (conj eq_refl eq_refl))))))))).
Qed.

(* the exact characterisation, [stray_separator m = true]: the two sides differ, and exactly by the `;` *)
Example C15_full_stack_all_messages_exact_nonvacuous :
  wf_msg dm_stray = true /\ queue_printable ex_mid = true /\ message_ops dm_stray = Some ex_us_stray /\
  (dev_message ex_mid true (render_msg dm_stray) = Val (op_message ex_mid true ex_us_stray) <-> stray_separator dm_stray = false) /\
  stray_separator dm_stray = true /\
  dev_message ex_mid true (render_msg dm_stray) <> Val (op_message ex_mid true ex_us_stray) /\
  dev_message ex_mid true (render_msg dm_stray) = Val (ex_final_stray, bs "32" ++ [59], Some (std_error UndefinedHeader)) /\
  op_message ex_mid true ex_us_stray = (ex_final_stray, bs "32", Some (std_error UndefinedHeader)).
Proof.
  pose proof (C15_full_stack_all_messages_exact dm_stray true ex_mid ex_us_stray dm_stray_wf ex_mid_printable dm_stray_ops) as E.
  assert (hne : dev_message ex_mid true (render_msg dm_stray) <> Val (op_message ex_mid true ex_us_stray)).
  { intro H. apply (proj1 E) in H. rewrite dm_stray_stray in H. discriminate H. }
  exact (conj dm_stray_wf (conj ex_mid_printable (conj dm_stray_ops (conj E (conj dm_stray_stray (conj hne
    (conj ex_dev_message_stray ex_op_message_stray))))))).
Qed.

(* ... and [stray_separator m = false] (the five-unit message above, which also fails, but in a command form): equal *)
Example C15_full_stack_all_messages_exact_nonvacuous_equal :
  wf_msg dm3 = true /\ queue_printable ex_mid = true /\ message_ops dm3 = Some ex_us3 /\
  (dev_message ex_mid true (render_msg dm3) = Val (op_message ex_mid true ex_us3) <-> stray_separator dm3 = false) /\
  stray_separator dm3 = false /\
  dev_message ex_mid true (render_msg dm3) = Val (op_message ex_mid true ex_us3) /\
  op_message ex_mid true ex_us3 = (ex_final3, bs "-113,""Undefined header""", Some (std_error DataOutOfRange)).
Proof.
  pose proof (C15_full_stack_all_messages_exact dm3 true ex_mid ex_us3 dm3_wf ex_mid_printable dm3_ops) as E.
  exact (conj dm3_wf (conj ex_mid_printable (conj dm3_ops (conj E (conj dm3_not_stray (conj (proj2 E dm3_not_stray)
    ex_op_message3)))))).
Qed.

Print Assumptions C15_full_stack_all_messages_nonvacuous.
Print Assumptions C15_full_stack_all_messages_nonvacuous_stray.
Print Assumptions C15_full_stack_all_messages_exact_nonvacuous.
Print Assumptions C15_full_stack_all_messages_exact_nonvacuous_equal.
