(* NonVacuous/Common.v — concrete objects shared by the non-vacuity examples:
   - [bs]: ASCII string -> bytes;
   - a boolean checker for [wf_tree] (proved sound here), a boolean checker for [wb_tree] of scripted trees;
   - an example command tree [ex_tree] over [Scripted.slog] (a branch, a default branch, a default leaf,
     several plain leaves, a common command) with proofs of [wf_tree] and [wb_tree];
   - an example program message [ex_msg] (three units, data of several kinds) with [wf_msg ex_msg = true]. *)
From Coq Require Import Ascii String Lia ZifyBool ZifyN ZifyNat.
From VF Require Import Base Gen_Errors Fmt Lexer Mnemonic MnemonicSpec Mnemonic_proofs Grammar Response Tree
  HeaderSpec Header_proofs Conv Scripted Resp_proofs.
Open Scope N_scope.

Fixpoint bs (s : string) : list byte :=
  match s with
  | EmptyString => []
  | String a s' => N_of_ascii a :: bs s'
  end.

(* ------------------------------------------------------------------ *)
(* a decision procedure for scpi_shape                                 *)
(* ------------------------------------------------------------------ *)
Fixpoint take_while (p : byte -> bool) (l : list byte) : list byte :=
  match l with x :: l' => if p x then x :: take_while p l' else [] | [] => [] end.
Fixpoint drop_while (p : byte -> bool) (l : list byte) : list byte :=
  match l with x :: l' => if p x then drop_while p l' else l | [] => [] end.
Lemma take_drop : forall p l, l = take_while p l ++ drop_while p l.
Proof. induction l as [|x l IH]; cbn; [reflexivity|]. destruct (p x); cbn; [f_equal; exact IH|reflexivity]. Qed.
Lemma take_all : forall p l, forallb p (take_while p l) = true.
Proof. induction l as [|x l IH]; cbn; [reflexivity|]. destruct (p x) eqn:E; cbn; [rewrite E; exact IH|reflexivity]. Qed.

Definition shapeb (def : list byte) : bool :=
  let body := match def with 42 :: r => r | _ => def end in
  let U := take_while is_upper body in
  let r1 := drop_while is_upper body in
  let r2 := drop_while is_lower r1 in
  negb (Nat.eqb (length U) 0) && forallb is_digit r2.

Lemma shapeb_sound : forall def, shapeb def = true -> scpi_shape def.
Proof.
  intros def H. unfold shapeb in H.
  set (body := match def with 42 :: r => r | _ => def end) in *.
  set (P := match def with 42 :: _ => [42] | _ => [] end).
  assert (Hdef : def = P ++ body).
  { subst P body. destruct def as [|x r]; [reflexivity|].
    destruct x as [|p]; [reflexivity|].
    do 6 (destruct p as [p|p|]; try reflexivity). }
  apply andb_prop in H. destruct H as [HU HD].
  exists P, (take_while is_upper body), (take_while is_lower (drop_while is_upper body)),
    (drop_while is_lower (drop_while is_upper body)).
  split; [|split; [|split; [|split; [|split]]]].
  - rewrite <- take_drop, <- take_drop. exact Hdef.
  - subst P. destruct def as [|x r]; [left; reflexivity|].
    destruct x as [|p]; [left; reflexivity|].
    do 6 (destruct p as [p|p|]; try (left; reflexivity)). right; reflexivity.
  - intro E. rewrite E in HU. discriminate HU.
  - apply take_all.
  - apply take_all.
  - exact HD.
Qed.

(* ------------------------------------------------------------------ *)
(* two definitions that no received mnemonic can match at once         *)
(* ------------------------------------------------------------------ *)
Lemma eq_nocase_common : forall x y c, eq_nocase x c = true -> eq_nocase y c = true -> eq_nocase x y = true.
Proof. unfold eq_nocase. intros x y c H1 H2. apply N.eqb_eq in H1, H2. apply N.eqb_eq. congruence. Qed.
Lemma eqnc_common : forall x y c, bytes_eq_nocase x c = true -> bytes_eq_nocase y c = true -> bytes_eq_nocase x y = true.
Proof.
  induction x as [|a x IH]; intros [|b y] [|c cs] H1 H2; cbn in *; try discriminate; try reflexivity.
  apply andb_prop in H1, H2. destruct H1 as [H1 H1'], H2 as [H2 H2'].
  apply andb_true_intro. split; [eapply eq_nocase_common; eassumption|eapply IH; eassumption].
Qed.

Definition disjointb (a b : list byte) : bool :=
  shapeb a && shapeb b &&
  let (ab, ad) := strip_digits a in
  let (bb, bd) := strip_digits b in
  negb (bytes_eqb (norm_suffix ad) (norm_suffix bd))
  || (negb (bytes_eq_nocase (short_of ab) (short_of bb)) && negb (bytes_eq_nocase (short_of ab) bb)
      && negb (bytes_eq_nocase ab (short_of bb)) && negb (bytes_eq_nocase ab bb)).

Lemma disjointb_sound : forall a b m, disjointb a b = true ->
  mnemonic_match a m = true -> mnemonic_match b m = true -> False.
Proof.
  intros a b m H Ha Hb. unfold disjointb in H.
  apply andb_prop in H. destruct H as [H Hd]. apply andb_prop in H. destruct H as [Sa Sb].
  apply shapeb_sound in Sa, Sb.
  rewrite (match_iff_spec a m Sa) in Ha. rewrite (match_iff_spec b m Sb) in Hb.
  unfold match_spec in Ha, Hb.
  destruct (strip_digits a) as [ab ad]. destruct (strip_digits b) as [bb bd]. destruct (strip_digits m) as [cb cs].
  apply andb_prop in Ha, Hb. destruct Ha as [Ha1 Ha2], Hb as [Hb1 Hb2].
  apply bytes_eqb_eq in Ha1, Hb1.
  apply orb_prop in Hd. destruct Hd as [Hd|Hd].
  - rewrite Ha1, Hb1, bytes_eqb_refl in Hd. discriminate Hd.
  - apply andb_prop in Hd. destruct Hd as [Hd H4]. apply andb_prop in Hd. destruct Hd as [Hd H3].
    apply andb_prop in Hd. destruct Hd as [H1 H2].
    apply orb_prop in Ha2, Hb2. destruct Ha2 as [Ha2|Ha2], Hb2 as [Hb2|Hb2];
      pose proof (eqnc_common _ _ _ Ha2 Hb2) as E; rewrite E in *; discriminate.
Qed.

Fixpoint pairwiseb (names : list (list byte)) : bool :=
  match names with
  | [] => true
  | a :: l => forallb (disjointb a) l && forallb (fun b => disjointb b a) l && pairwiseb l
  end.

Lemma pairwiseb_names_sound : forall (l : list (list byte)), pairwiseb l = true ->
  forall i j a b m, nth_error l i = Some a -> nth_error l j = Some b ->
    mnemonic_match a m = true -> mnemonic_match b m = true -> i = j.
Proof.
  induction l as [|x l IH]; intros H i j a b m Hi Hj Ma Mb.
  - destruct i; discriminate Hi.
  - cbn [pairwiseb] in H. apply andb_prop in H. destruct H as [H H3]. apply andb_prop in H. destruct H as [H1 H2].
    rewrite forallb_forall in H1, H2.
    destruct i as [|i], j as [|j]; cbn [nth_error] in Hi, Hj.
    + reflexivity.
    + exfalso. inversion Hi; subst a. apply nth_error_In in Hj.
      eapply (disjointb_sound x b m); [apply H1; exact Hj|exact Ma|exact Mb].
    + exfalso. inversion Hj; subst b. apply nth_error_In in Hi.
      eapply (disjointb_sound a x m); [apply H2; exact Hi|exact Ma|exact Mb].
    + f_equal. eapply IH; eassumption.
Qed.

Section Checkers.
Context {D : Type}.

Lemma pairwiseb_sound : forall l : list (tree D), pairwiseb (map node_name l) = true -> unambiguous_lookup l.
Proof.
  intros l H i j m a b Hi Hj Ma Mb.
  eapply (pairwiseb_names_sound _ H i j (node_name a) (node_name b) m); try eassumption;
    apply map_nth_error; assumption.
Qed.

Definition wf_nodeb (b : tree D) : bool :=
  pairwiseb (map node_name (lookup_nodes b))
  && Nat.leb (length (end_leaves b)) 1
  && Nat.leb (length (filter (fun ch => is_default ch && is_branch ch) (children b))) 1.
Definition wf_treeb (root : tree D) : bool := forallb wf_nodeb (all_subtrees root).

Lemma wf_treeb_sound : forall root, wf_treeb root = true -> wf_tree root.
Proof.
  intros root H b Hb. unfold wf_treeb in H. rewrite forallb_forall in H. specialize (H b Hb).
  unfold wf_nodeb in H. apply andb_prop in H. destruct H as [H H3]. apply andb_prop in H. destruct H as [H1 H2].
  split; [apply pairwiseb_sound; exact H1|]. split; apply Nat.leb_le; assumption.
Qed.
End Checkers.

(* ------------------------------------------------------------------ *)
(* scripted query programs that end with finish() or an error          *)
(* ------------------------------------------------------------------ *)
Definition not_retok (o : sop) : bool := match o with SRetOk => false | _ => true end.
Lemma script_finishing : forall ops log, forallb not_retok ops = true -> finishing (script_prog ops log).
Proof.
  induction ops as [|o ops IH]; intros log H; cbn [script_prog].
  - constructor.
  - cbn [forallb] in H. apply andb_prop in H. destruct H as [Ho H].
    destruct o; try discriminate Ho; try (constructor; fail).
    + constructor. intros [t| |e]; [apply IH; exact H|apply IH; exact H|].
      destruct swallow; [apply IH; exact H|constructor].
    + constructor. intros [t| |e].
      * destruct (conv_status ty t); [|apply IH; exact H].
        destruct swallow; [apply IH; exact H|constructor].
      * apply IH; exact H.
      * destruct swallow; [apply IH; exact H|constructor].
    + constructor. apply IH; exact H.
    + constructor. apply IH; exact H.
Qed.

(* ------------------------------------------------------------------ *)
(* the example tree                                                    *)
(* ------------------------------------------------------------------ *)
(*   *IDN?                     -> c_idn  (1)   query answers ACME,42
     [:SOURce]:VOLTage[:LEVel] -> c_lev  (2)   event takes one required datum; query answers 5
     [:SOURce]:VOLTage:RANGe   -> c_rng  (3)   event takes an optional integer; query answers "AUTO"
     [:SOURce]:FREQuency       -> c_freq (4)   event takes one decimal; query answers #H1F
     :SYSTem:VERSion?          -> c_ver  (5)   query answers 1999.0 ; the event form fails with -100 *)
Definition c_idn : command slog := scripted 1 [] [SData (RChar (bs "ACME")); SData (RInt 42)].
Definition c_lev : command slog := scripted 2 [SPull true false] [SData (RInt 5)].
Definition c_rng : command slog := scripted 3 [SPullT false false (PInt I16)] [SData (RStr (bs "AUTO"))].
Definition c_freq : command slog := scripted 4 [SPullT true false (PFloat F64)] [SData (RRadix 16 31)].
Definition c_ver : command slog := scripted 5 [SFail (std_error CommandError)] [SHdr (bs "VERS"); SData (RText (bs "1999.0"))].

Definition t_volt : tree slog := Branch (bs "VOLTage") false [Leaf (bs "LEVel") true c_lev; Leaf (bs "RANGe") false c_rng].
Definition t_sour : tree slog := Branch (bs "SOURce") true [t_volt; Leaf (bs "FREQuency") false c_freq].
Definition t_syst : tree slog := Branch (bs "SYSTem") false [Leaf (bs "VERSion") false c_ver].
Definition ex_tree : tree slog := Branch [] false [Leaf (bs "*IDN") false c_idn; t_sour; t_syst].

Lemma ex_tree_wf : wf_tree ex_tree.
Proof. apply wf_treeb_sound. vm_compute. reflexivity. Qed.

Lemma ex_tree_wb : wb_tree ex_tree.
Proof.
  intros c d Hc. cbn in Hc.
  repeat (destruct Hc as [<-|Hc]; [cbn [qu c_idn c_lev c_rng c_freq c_ver scripted]; apply script_finishing; reflexivity|]).
  destruct Hc.
Qed.

(* a tree that is NOT well-formed (two children answer to "volt"): the checker notices *)
Example ambiguous_tree_rejected :
  wf_treeb (Branch [] false [Leaf (bs "VOLTage") false c_lev; Leaf (bs "VOLT") false c_rng]) = false.
Proof. vm_compute. reflexivity. Qed.

(* ------------------------------------------------------------------ *)
(* the example message                                                 *)
(* ------------------------------------------------------------------ *)
(*  " :SOURce:VOLT  -1.50E+3 mV , MAX ;FREQ? #HFF,'a''b' ; *IDN #15hello,(1:3)\n" *)
Definition n_1500 : number := mkNumber (Some 45) (bs "1") (Some (bs "50")) (Some (69, Some 43, bs "3")).
Definition u1 : munit :=
  mkUnit (mkHeader true false [bs "SOURce"; bs "VOLT"] false) (bs "  ")
         [(DDecSuffix n_1500 (bs " ") (bs "mV"), bs " ", bs " "); (DChar (bs "MAX"), bs " ", [])].
Definition u2 : munit :=
  mkUnit (mkHeader false false [bs "FREQ"] true) (bs " ")
         [(DNonDec 72 (bs "FF"), [], []); (DString 39 (bs "a'b"), bs " ", [])].
Definition u3 : munit :=
  mkUnit (mkHeader false true [bs "IDN"] false) (bs " ")
         [(DBlock 0 (bs "hello"), [], []); (DExpr (bs "1:3"), [], [])].
Definition ex_msg : msg := mkMsg (bs " ") [(u1, []); (u2, bs " "); (u3, [])] true.

Lemma ex_msg_wf : wf_msg ex_msg = true.
Proof. vm_compute. reflexivity. Qed.

Example ex_msg_text :
  render_msg ex_msg = bs " :SOURce:VOLT  -1.50E+3 mV , MAX ;FREQ? #HFF,'a''b' ; *IDN #15hello,(1:3)
".
Proof. vm_compute. reflexivity. Qed.

(* ------------------------------------------------------------------ *)
(* example runs of the whole stack on the example tree                 *)
(* ------------------------------------------------------------------ *)
Definition f0 : fmt := mkFmt None [].
Definition toks_of_text (s : string) : list titem := match tokenize (bs s) with Val t => t | Panic _ => [] end.

(* four units, all succeed: one event, three queries *)
Definition ex_input_ok : list byte := bs "VOLT:LEV 5;RANG?;:SYST:VERS?;*IDN?".
Definition ex_trace_ok : list (N * bool * list byte) :=
  [(2, false, []); (3, true, bs """AUTO"""); (5, true, bs "VERS 1999.0"); (1, true, bs "ACME,42")].
Definition ex_dev_ok : slog := [LCall 2 false; LTok (TDec (bs "5")); LCall 3 true; LCall 5 true; LCall 1 true].
Definition ex_out_ok : list byte := bs """AUTO"";VERS 1999.0;ACME,42" ++ [10].
Definition ex_run_ok : run_result slog := mkRun None ex_dev_ok ex_out_ok ex_trace_ok [].
Lemma ex_run_ok_eq : run ex_tree ex_input_ok [] f0 = Val ex_run_ok.
Proof. vm_compute. reflexivity. Qed.

(* the last unit is undefined in the context left by :SYST:VERS? -> the message aborts with -113 *)
Definition ex_input_bad : list byte := bs "VOLT:LEV 5;RANG?;:SYST:VERS?;FREQ 1".
Definition ex_run_bad : run_result slog :=
  mkRun (Some (std_error UndefinedHeader)) [LCall 2 false; LTok (TDec (bs "5")); LCall 3 true; LCall 5 true]
        (bs """AUTO"";VERS 1999.0") [(2, false, []); (3, true, bs """AUTO"""); (5, true, bs "VERS 1999.0")]
        [std_error UndefinedHeader].
Lemma ex_run_bad_eq : run ex_tree ex_input_bad [] f0 = Val ex_run_bad.
Proof. vm_compute. reflexivity. Qed.

(* the successful message again, into a 20-byte buffer: out of memory in the fourth unit *)
Definition ex_run_cap20 : run_result slog :=
  mkRun (Some (std_error OutOfMemory)) ex_dev_ok (bs """AUTO"";VERS 1999.0;")
        [(2, false, []); (3, true, bs """AUTO"""); (5, true, bs "VERS 1999.0"); (1, true, [])]
        [std_error OutOfMemory].
Lemma ex_run_cap20_eq : run ex_tree ex_input_ok [] (mkFmt (Some 20%nat) []) = Val ex_run_cap20.
Proof. vm_compute. reflexivity. Qed.

Print Assumptions ex_tree_wf.
Print Assumptions ex_tree_wb.
Print Assumptions ex_msg_wf.

(* compute without unfolding the handler scripts (their normal forms are large) *)
Ltac ccompute := lazy -[c_idn c_lev c_rng c_freq c_ver].
