(* NonVacuous/C03.v — every C03 theorem (all four have hypotheses), on concrete definitions.
   (Properties/C03.v already contains shape examples; here each theorem is instantiated and applied.)
   Each example: hypotheses /\ instantiated conclusion (by applying the theorem).
   Skipped: none. *)
From VF Require Import Base Mnemonic MnemonicSpec Mnemonic_proofs.
From VF.NonVacuous Require Import Common.
From VF.Properties Require C03.
Import C03.
Open Scope N_scope.

Definition CHANnel2 : list byte := bs "CHANnel2".
Lemma shape_CHANnel2 : scpi_shape CHANnel2.
Proof. apply shapeb_sound. vm_compute. reflexivity. Qed.
Lemma shape_IDN : scpi_shape (bs "*IDN").
Proof. apply shapeb_sound. vm_compute. reflexivity. Qed.

Example C03_match_is_spec_nonvacuous :
  scpi_shape CHANnel2 /\
  mnemonic_match CHANnel2 (bs "chan2") = match_spec CHANnel2 (bs "chan2") /\ match_spec CHANnel2 (bs "chan2") = true /\
  mnemonic_match CHANnel2 (bs "chann2") = match_spec CHANnel2 (bs "chann2") /\ match_spec CHANnel2 (bs "chann2") = false.
Proof.
  exact (conj shape_CHANnel2 (conj (C03_match_is_spec _ (bs "chan2") shape_CHANnel2) (conj eq_refl
    (conj (C03_match_is_spec _ (bs "chann2") shape_CHANnel2) eq_refl)))).
Qed.

Example C03_match_iff_nonvacuous :
  let cand := bs "CHANNEL02" in
  scpi_shape CHANnel2 /\
  (mnemonic_match CHANnel2 cand = true <->
   exists db ds cb cs, strip_digits CHANnel2 = (db, ds) /\ strip_digits cand = (cb, cs) /\
     norm_suffix ds = norm_suffix cs /\
     (bytes_eq_nocase (short_of db) cb = true \/ bytes_eq_nocase db cb = true)) /\
  mnemonic_match CHANnel2 cand = false /\ strip_digits cand = (bs "CHANNEL", bs "02").
Proof. intro cand. exact (conj shape_CHANnel2 (conj (C03_match_iff CHANnel2 cand shape_CHANnel2) (conj eq_refl eq_refl))). Qed.
(* a common command with its star *)
Example C03_match_iff_nonvacuous_star :
  scpi_shape (bs "*IDN") /\
  (mnemonic_match (bs "*IDN") (bs "*idn") = true <->
   exists db ds cb cs, strip_digits (bs "*IDN") = (db, ds) /\ strip_digits (bs "*idn") = (cb, cs) /\
     norm_suffix ds = norm_suffix cs /\
     (bytes_eq_nocase (short_of db) cb = true \/ bytes_eq_nocase db cb = true)) /\
  mnemonic_match (bs "*IDN") (bs "*idn") = true /\ mnemonic_match (bs "*IDN") (bs "idn") = false.
Proof. exact (conj shape_IDN (conj (C03_match_iff _ (bs "*idn") shape_IDN) (conj eq_refl eq_refl))). Qed.

Example C03_compare_keyword_nonvacuous :
  let U := bs "DEF" in let L := bs "ault" in
  keyword_shape U L /\
  mnemonic_compare (U ++ L) (bs "defAULT") = bytes_eq_nocase (U ++ L) (bs "defAULT") || bytes_eq_nocase U (bs "defAULT") /\
  mnemonic_compare (U ++ L) (bs "defAULT") = true /\ mnemonic_compare (U ++ L) (bs "defa") = false.
Proof.
  intros U L.
  assert (h : keyword_shape U L) by (split; [discriminate|split; reflexivity]).
  exact (conj h (conj (C03_compare_keyword U L (bs "defAULT") h) (conj eq_refl eq_refl))).
Qed.

Example C03_compare_shape_nonvacuous :
  let P := [42] in let U := bs "TRG" in let L := [] in let D := [] in let s := bs "*trg" in
  (P = [] \/ P = [42]) /\ U <> [] /\ all_b is_upper U = true /\ all_b is_lower L = true /\ all_b is_digit D = true /\
  mnemonic_compare (P ++ U ++ L ++ D) s = bytes_eq_nocase (P ++ U ++ L ++ D) s || (is_nil D && bytes_eq_nocase (P ++ U) s).
Proof.
  intros P U L D s.
  assert (h1 : P = [] \/ P = [42]) by (right; reflexivity).
  assert (h2 : U <> []) by discriminate.
  exact (conj h1 (conj h2 (conj eq_refl (conj eq_refl (conj eq_refl (C03_compare_shape P U L D s h1 h2 eq_refl eq_refl eq_refl)))))).
Qed.
(* with a lower-case part and a numeric suffix: only the complete form compares equal *)
Example C03_compare_shape_nonvacuous2 :
  let P := [] in let U := bs "CHAN" in let L := bs "nel" in let D := bs "2" in
  (P = [] \/ P = [42]) /\ U <> [] /\ all_b is_upper U = true /\ all_b is_lower L = true /\ all_b is_digit D = true /\
  (mnemonic_compare (P ++ U ++ L ++ D) (bs "chan2")
   = bytes_eq_nocase (P ++ U ++ L ++ D) (bs "chan2") || (is_nil D && bytes_eq_nocase (P ++ U) (bs "chan2"))) /\
  mnemonic_compare (P ++ U ++ L ++ D) (bs "chan2") = false /\ mnemonic_compare (P ++ U ++ L ++ D) (bs "channel2") = true.
Proof.
  intros P U L D.
  assert (h1 : P = [] \/ P = [42]) by (left; reflexivity).
  assert (h2 : U <> []) by discriminate.
  exact (conj h1 (conj h2 (conj eq_refl (conj eq_refl (conj eq_refl
    (conj (C03_compare_shape P U L D (bs "chan2") h1 h2 eq_refl eq_refl eq_refl) (conj eq_refl eq_refl))))))).
Qed.

Print Assumptions C03_match_is_spec_nonvacuous.
Print Assumptions C03_match_iff_nonvacuous.
Print Assumptions C03_compare_shape_nonvacuous.
