(* NonVacuous/C18.v — every C18 theorem with a hypothesis, on the library's own tables.
   Each example: hypotheses /\ instantiated conclusion (by applying the theorem).
   The equivalence C18_lookup_none is exemplified (both sides hold for "HZ" in the voltage table).
   Skipped (no implication premise): C18_suffix_table_ok, C18_amplitude_classifies. *)
From Coq Require Import QArith String.
From VF Require Import Base Gen_Errors Lexer Conv Gen_Suffix SuffixSpec Suffix Suffix_proofs.
From VF.NonVacuous Require Import Common.
From VF.Properties Require C18.
Import C18.
Open Scope string_scope.

Definition ents_of (q : string) := match table_of q with Some (_, e) => e | None => [] end.
Definition qV := "ElectricPotential".
Lemma table_V : table_of qV = Some ("volt", ents_of qV).
Proof. vm_compute. reflexivity. Qed.
Example ents_V_has_four : length (ents_of qV) = 4%nat. Proof. reflexivity. Qed.

(* "1.5 mv" as a voltage: 0.0015 V, and that is what SCPI's M + V means *)
Example C18_suffix_conversion_is_scpi_nonvacuous :
  let num := bs "1.5" in let suf := bs "mv" in let v := (15 # 10)%Q in
  table_of qV = Some ("volt", ents_of qV) /\ lookup_suffix (ents_of qV) suf = Some "millivolt" /\ lit_Q num = Some v /\
  exists sp s l l', In (sp, "millivolt") (ents_of qV) /\ In s sp /\ bytes_eq_nocase suf s = true /\
    scpi_suffix qV s = Some l' /\ lin_eqb l l' = true /\ conv_unit qV (TDecSuffix num suf) = Ok (apply_lin l v).
Proof.
  intros num suf v.
  assert (h2 : lookup_suffix (ents_of qV) suf = Some "millivolt") by (vm_compute; reflexivity).
  assert (h3 : lit_Q num = Some v) by (vm_compute; reflexivity).
  exact (conj table_V (conj h2 (conj h3 (C18_suffix_conversion_is_scpi qV "volt" (ents_of qV) num suf "millivolt" v table_V h2 h3)))).
Qed.

Example C18_lookup_sound_nonvacuous :
  let s := bs "Kv" in
  lookup_suffix (ents_of qV) s = Some "kilovolt" /\
  exists sp, In (sp, "kilovolt") (ents_of qV) /\ existsb (fun x => bytes_eq_nocase s x) sp = true.
Proof.
  intro s. assert (h : lookup_suffix (ents_of qV) s = Some "kilovolt") by (vm_compute; reflexivity).
  exact (conj h (C18_lookup_sound (ents_of qV) s "kilovolt" h)).
Qed.

Example C18_unknown_suffix_rejected_nonvacuous :
  let num := bs "1.5" in let suf := bs "HZ" in
  table_of qV = Some ("volt", ents_of qV) /\ lookup_suffix (ents_of qV) suf = None /\
  conv_unit qV (TDecSuffix num suf) = Err IllegalParameterValue.
Proof.
  intros num suf. assert (h : lookup_suffix (ents_of qV) suf = None) by (vm_compute; reflexivity).
  exact (conj table_V (conj h (C18_unknown_suffix_rejected qV "volt" (ents_of qV) num suf table_V h))).
Qed.

Example C18_non_numeric_rejected_nonvacuous :
  let tok := TChar (bs "MAX") in
  table_of qV = Some ("volt", ents_of qV) /\ (forall s, tok <> TDec s) /\ (forall n s, tok <> TDecSuffix n s) /\
  conv_unit qV tok = Err DataTypeError.
Proof.
  intro tok.
  assert (h1 : forall s, tok <> TDec s) by (intros; discriminate).
  assert (h2 : forall n s, tok <> TDecSuffix n s) by (intros; discriminate).
  exact (conj table_V (conj h1 (conj h2 (C18_non_numeric_rejected qV "volt" (ents_of qV) tok table_V h1 h2)))).
Qed.

(* a bare "25" as a temperature is 25 degrees Celsius = 298.15 K *)
Definition qT := "ThermodynamicTemperature".
Example C18_bare_number_in_base_unit_nonvacuous :
  let s := bs "25" in let v := (25 # 1)%Q in let l := (1, 27315 # 100)%Q in
  table_of qT = Some ("degree_celsius", ents_of qT) /\ lit_Q s = Some v /\ uom_unit qT "degree_celsius" = Some l /\
  conv_unit qT (TDec s) = Ok (apply_lin l v) /\ (apply_lin l v == 29815 # 100)%Q.
Proof.
  intros s v l.
  assert (h1 : table_of qT = Some ("degree_celsius", ents_of qT)) by (vm_compute; reflexivity).
  assert (h2 : lit_Q s = Some v) by (vm_compute; reflexivity).
  assert (h3 : uom_unit qT "degree_celsius" = Some l) by (vm_compute; reflexivity).
  exact (conj h1 (conj h2 (conj h3 (conj (C18_bare_number_in_base_unit qT _ _ s v l h1 h2 h3) eq_refl)))).
Qed.

(* "2.5 MHZ" is mega, not milli *)
Definition qF := "Frequency".
Example C18_suffixed_number_value_nonvacuous :
  let num := bs "2.5" in let suf := bs "MHZ" in let v := (25 # 10)%Q in let l := (1000000 # 1, 0)%Q in
  table_of qF = Some ("hertz", ents_of qF) /\ lookup_suffix (ents_of qF) suf = Some "megahertz" /\ lit_Q num = Some v /\
  uom_unit qF "megahertz" = Some l /\
  conv_unit qF (TDecSuffix num suf) = Ok (apply_lin l v) /\ (apply_lin l v == 2500000 # 1)%Q.
Proof.
  intros num suf v l.
  assert (h1 : table_of qF = Some ("hertz", ents_of qF)) by (vm_compute; reflexivity).
  assert (h2 : lookup_suffix (ents_of qF) suf = Some "megahertz") by (vm_compute; reflexivity).
  assert (h3 : lit_Q num = Some v) by (vm_compute; reflexivity).
  assert (h4 : uom_unit qF "megahertz" = Some l) by (vm_compute; reflexivity).
  exact (conj h1 (conj h2 (conj h3 (conj h4 (conj (C18_suffixed_number_value qF _ _ num suf _ v l h1 h2 h3 h4) eq_refl))))).
Qed.

Example C18_amplitude_plain_nonvacuous :
  let tok := TDec (bs "3.3") in
  (forall n s, tok <> TDecSuffix n s) /\ conv_amplitude qV tok = (AmpNone, conv_unit qV tok).
Proof.
  intro tok. assert (h : forall n s, tok <> TDecSuffix n s) by (intros; discriminate).
  exact (conj h (C18_amplitude_plain qV tok h)).
Qed.

(* "-10 dBm" as a power: the number is kept, the reference is 1 mW *)
Definition qP := "Power".
Example C18_db_number_unchanged_nonvacuous :
  let num := bs "-10" in let suf := bs "dBm" in let v := (-10 # 1)%Q in let l := (1 # 1000, 0)%Q in
  lookup_suffix (log_table_of qP) suf = Some "milliwatt" /\ lit_Q num = Some v /\ uom_unit qP "milliwatt" = Some l /\
  conv_db qP (TDecSuffix num suf) = DbLog v (apply_lin l 1).
Proof.
  intros num suf v l.
  assert (h1 : lookup_suffix (log_table_of qP) suf = Some "milliwatt") by (vm_compute; reflexivity).
  assert (h2 : lit_Q num = Some v) by (vm_compute; reflexivity).
  assert (h3 : uom_unit qP "milliwatt" = Some l) by (vm_compute; reflexivity).
  exact (conj h1 (conj h2 (conj h3 (C18_db_number_unchanged qP num suf _ v l h1 h2 h3)))).
Qed.

Example C18_db_bare_number_nonvacuous :
  let s := bs "3.5" in let v := (35 # 10)%Q in
  lit_Q s = Some v /\ conv_db qP (TDec s) = DbNone v.
Proof.
  intros s v. assert (h : lit_Q s = Some v) by (vm_compute; reflexivity).
  exact (conj h (C18_db_bare_number qP s v h)).
Qed.

Example C18_lookup_none_nonvacuous :
  let s := bs "HZ" in
  (lookup_suffix (ents_of qV) s = None <->
   (forall sp u, In (sp, u) (ents_of qV) -> existsb (fun x => bytes_eq_nocase s x) sp = false)) /\
  lookup_suffix (ents_of qV) s = None /\
  (forall sp u, In (sp, u) (ents_of qV) -> existsb (fun x => bytes_eq_nocase s x) sp = false).
Proof.
  intro s. pose proof (C18_lookup_none (ents_of qV) s) as E.
  assert (h : lookup_suffix (ents_of qV) s = None) by (vm_compute; reflexivity).
  exact (conj E (conj h (proj1 E h))).
Qed.

Print Assumptions C18_suffix_conversion_is_scpi_nonvacuous.
Print Assumptions C18_bare_number_in_base_unit_nonvacuous.
Print Assumptions C18_db_number_unchanged_nonvacuous.
