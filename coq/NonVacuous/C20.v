(* NonVacuous/C20.v — every C20 theorem with a hypothesis, on a five-variant enum.
   Each example: hypotheses /\ instantiated conclusion (by applying the theorem).
   The equivalences C20_from_none and C20_illegal_iff are exemplified (both sides hold for "POW").
   Skipped (no implication premise): C20_try_from_char, C20_mnemonic_own. *)
From VF Require Import Base Gen_Errors Lexer Mnemonic MnemonicSpec Enum Enum_proofs.
From VF.NonVacuous Require Import Common.
From VF.Properties Require C20.
Import C20.
Open Scope N_scope.

Definition defs : enum_def := [bs "VOLTage"; bs "CURRent"; bs "CHANnel1"; bs "CHANnel2"; bs "DC"].

Lemma defs_no_overlap : no_overlap defs.
Proof.
  intros i j mi mj s Hi Hj Mi Mj.
  exact (pairwiseb_names_sound defs eq_refl i j mi mj s Hi Hj Mi Mj).
Qed.
(* the checker does reject overlapping variants (CHANnel and CHANnel1 both answer to "chan") *)
Example overlap_rejected : pairwiseb [bs "CHANnel"; bs "CHANnel1"] = false.
Proof. vm_compute. reflexivity. Qed.

Lemma shape_CHANnel2 : enum_shape (bs "CHANnel2").
Proof. exists (bs "CHAN"), (bs "nel"), (bs "2"). repeat split; try reflexivity. discriminate. Qed.

Example C20_from_sound_nonvacuous :
  from_mnemonic defs (bs "chan2") = Some 3%nat /\
  exists m, nth_error defs 3 = Some m /\ mnemonic_match m (bs "chan2") = true.
Proof.
  assert (h : from_mnemonic defs (bs "chan2") = Some 3%nat) by (vm_compute; reflexivity).
  exact (conj h (C20_from_sound defs _ _ h)).
Qed.

Example C20_from_first_nonvacuous :
  from_mnemonic defs (bs "chan2") = Some 3%nat /\ (2 < 3)%nat /\ nth_error defs 2 = Some (bs "CHANnel1") /\
  mnemonic_match (bs "CHANnel1") (bs "chan2") = false.
Proof.
  assert (h : from_mnemonic defs (bs "chan2") = Some 3%nat) by (vm_compute; reflexivity).
  assert (h2 : (2 < 3)%nat) by (constructor).
  exact (conj h (conj h2 (conj eq_refl (C20_from_first defs _ 3%nat 2%nat _ h h2 eq_refl)))).
Qed.

(* "CHANNEL" (no suffix) selects CHANnel1 by the default-1 rule *)
Example C20_from_iff_nonvacuous :
  let s := bs "CHANNEL" in
  no_overlap defs /\ nth_error defs 2 = Some (bs "CHANnel1") /\
  (from_mnemonic defs s = Some 2%nat <-> mnemonic_match (bs "CHANnel1") s = true) /\
  from_mnemonic defs s = Some 2%nat.
Proof.
  intro s.
  exact (conj defs_no_overlap (conj eq_refl (conj (C20_from_iff defs s 2%nat _ defs_no_overlap eq_refl) eq_refl))).
Qed.

Example C20_try_from_other_nonvacuous :
  let tok := TString (bs "VOLT") in
  (forall s, tok <> TChar s) /\ enum_try_from defs tok = Err DataTypeError.
Proof.
  intro tok. assert (h : forall s, tok <> TChar s) by (intros; discriminate).
  exact (conj h (C20_try_from_other defs tok h)).
Qed.

Example C20_short_form_shape_nonvacuous :
  let U := bs "CHAN" in let L := bs "nel" in let Dg := bs "2" in
  U <> [] /\ all_b is_upper U = true /\ all_b is_lower L = true /\ all_b is_digit Dg = true /\
  short_form (U ++ L ++ Dg) = match L with [] => U ++ Dg | _ => U end.
Proof.
  intros U L Dg. assert (h : U <> []) by discriminate.
  exact (conj h (conj eq_refl (conj eq_refl (conj eq_refl (C20_short_form_shape U L Dg h eq_refl eq_refl eq_refl))))).
Qed.
(* ... and with no lower-case part: L2 *)
Example C20_short_form_shape_nonvacuous2 :
  let U := bs "L" in let L := [] in let Dg := bs "2" in
  U <> [] /\ all_b is_upper U = true /\ all_b is_lower L = true /\ all_b is_digit Dg = true /\
  short_form (U ++ L ++ Dg) = match L with [] => U ++ Dg | _ => U end.
Proof.
  intros U L Dg. assert (h : U <> []) by discriminate.
  exact (conj h (conj eq_refl (conj eq_refl (conj eq_refl (C20_short_form_shape U L Dg h eq_refl eq_refl eq_refl))))).
Qed.

Example C20_response_form_nonvacuous :
  let U := bs "CHAN" in let L := bs "nel" in let Dg := bs "2" in
  U <> [] /\ all_b is_upper U = true /\ all_b is_lower L = true /\ all_b is_digit Dg = true /\
  enum_response (U ++ L ++ Dg) = U ++ Dg.
Proof.
  intros U L Dg. assert (h : U <> []) by discriminate.
  exact (conj h (conj eq_refl (conj eq_refl (conj eq_refl (C20_response_form U L Dg h eq_refl eq_refl eq_refl))))).
Qed.

Example C20_response_matches_own_nonvacuous :
  enum_shape (bs "CHANnel2") /\ mnemonic_match (bs "CHANnel2") (enum_response (bs "CHANnel2")) = true /\
  enum_response (bs "CHANnel2") = bs "CHAN2".
Proof. exact (conj shape_CHANnel2 (conj (C20_response_matches_own _ shape_CHANnel2) eq_refl)). Qed.

Example C20_enum_roundtrip_nonvacuous :
  no_overlap defs /\ nth_error defs 3 = Some (bs "CHANnel2") /\ enum_shape (bs "CHANnel2") /\
  from_mnemonic defs (enum_response (bs "CHANnel2")) = Some 3%nat.
Proof.
  exact (conj defs_no_overlap (conj eq_refl (conj shape_CHANnel2
    (C20_enum_roundtrip defs 3%nat _ defs_no_overlap eq_refl shape_CHANnel2)))).
Qed.

Example C20_from_none_nonvacuous :
  let s := bs "POW" in
  (from_mnemonic defs s = None <-> (forall m, In m defs -> mnemonic_match m s = false)) /\
  from_mnemonic defs s = None /\ (forall m, In m defs -> mnemonic_match m s = false).
Proof.
  intro s. pose proof (C20_from_none defs s) as E.
  assert (h : from_mnemonic defs s = None) by (vm_compute; reflexivity).
  exact (conj E (conj h (proj1 E h))).
Qed.

Example C20_illegal_iff_nonvacuous :
  let s := bs "POW" in
  (enum_try_from defs (TChar s) = Err IllegalParameterValue <-> (forall m, In m defs -> mnemonic_match m s = false)) /\
  enum_try_from defs (TChar s) = Err IllegalParameterValue /\ (forall m, In m defs -> mnemonic_match m s = false).
Proof.
  intro s. pose proof (C20_illegal_iff defs s) as E.
  assert (h : enum_try_from defs (TChar s) = Err IllegalParameterValue) by (vm_compute; reflexivity).
  exact (conj E (conj h (proj1 E h))).
Qed.

Print Assumptions C20_from_iff_nonvacuous.
Print Assumptions C20_enum_roundtrip_nonvacuous.
Print Assumptions C20_response_matches_own_nonvacuous.
