(* NonVacuous/C12.v — every C12 theorem with a hypothesis, on concrete queues and operation histories.
   Each example: hypotheses /\ instantiated conclusion (by applying the theorem).
   Skipped (no hypothesis): C12_marker_is_350, C12_pop_head, C12_len_exact. *)
From Coq Require Import Lia.
From VF Require Import Base Gen_Errors Queue Queue_proofs.
From VF.NonVacuous Require Import Common.
From VF.Properties Require C12.
Import C12.
Open Scope nat_scope.

Definition e1 : error := std_error UndefinedHeader.
Definition e2 : error := std_error DataOutOfRange.
Definition e3 : error := ext_error IllegalParameterValue (bs "ch 2").
Definition e4 : error := mkError 101%Z (Some (bs "Fuse blown")) None.
Definition ovf : error := queue_overflow_error.

(* a history that overflows a queue of capacity 2 that already holds one entry *)
Example C12_bounded_nonvacuous :
  let ops := [QPush e1; QPush e2; QPush e3; QLen; QPop; QPush e4] in
  1 <= 2 /\ length [e4] <= 2 /\
  (exists q' out, q_run (Some 2) [e4] ops = Val (q', out) /\ length q' <= 2) /\
  q_run (Some 2) [e4] ops = Val ([ovf; e4], [OLen 2; OPop (Some e4)]).
Proof.
  intro ops.
  assert (h1 : 1 <= 2) by lia. assert (h2 : length [e4] <= 2) by (cbn; lia).
  exact (conj h1 (conj h2 (conj (C12_bounded 2 ops [e4] h1 h2) eq_refl))).
Qed.

Example C12_push_room_nonvacuous :
  length [e1; e2] < 3 /\ aq_push 3 [e1; e2] e3 = Val ([e1; e2] ++ [e3]).
Proof. assert (h : length [e1; e2] < 3) by (cbn; lia). exact (conj h (C12_push_room 3 [e1; e2] e3 h)). Qed.

Example C12_push_full_nonvacuous :
  1 <= 3 /\ length [e1; e2; e4] = 3 /\
  aq_push 3 [e1; e2; e4] e3 = Val (firstn (3 - 1) [e1; e2; e4] ++ [queue_overflow_error]) /\
  firstn (3 - 1) [e1; e2; e4] ++ [queue_overflow_error] = [e1; e2; ovf].
Proof.
  assert (h : 1 <= 3) by lia.
  exact (conj h (conj eq_refl (conj (C12_push_full 3 [e1; e2; e4] e3 h eq_refl) eq_refl))).
Qed.

Example C12_vec_fifo_nonvacuous :
  let ops := [QPush e1; QPop; QPush e2; QLen; QPush e3; QPop] in
  let q' := [e2; e3] in let out := [OPop (Some e4); OLen 2; OPop (Some e1)] in
  no_clear error ops = true /\ q_run None [e4] ops = Val (q', out) /\
  popped_of error out ++ q' = [e4] ++ pushes_of error ops.
Proof.
  intros ops q' out.
  exact (conj eq_refl (conj eq_refl (C12_vec_fifo ops [e4] q' out eq_refl eq_refl))).
Qed.

Example C12_clear_restarts_nonvacuous :
  let ops := [QPush e3; QLen; QPop; QPop] in
  (forall c, Some 2 = Some c -> 1 <= c) /\
  q_run (Some 2) [e1; e2] (QClear :: ops) = q_run (Some 2) [] ops /\
  q_run (Some 2) [] ops = Val ([], [OLen 1; OPop (Some e3); OPop None]).
Proof.
  intro ops.
  assert (h : forall c, Some 2 = Some c -> 1 <= c) by (intros c H; injection H as <-; lia).
  exact (conj h (conj (C12_clear_restarts (Some 2) ops [e1; e2] h) eq_refl)).
Qed.

(* pushes interleaved with pops never find the 2-entry queue full *)
Example C12_refines_fifo_nonvacuous :
  let ops := [QPush e2; QPop; QPush e3; QPop; QLen; QPush e4] in
  fits error 2 (length [e1]) ops = true /\ q_run (Some 2) [e1] ops = q_run None [e1] ops /\
  q_run None [e1] ops = Val ([e3; e4], [OPop (Some e1); OPop (Some e2); OLen 1]).
Proof.
  intro ops. exact (conj eq_refl (conj (C12_refines_fifo 2 ops [e1] eq_refl) eq_refl)).
Qed.

(* fill, overflow, pop, push, pop (the overflow marker), push *)
Example C12_order_preserved_nonvacuous :
  let ops := [QPush e1; QPush e2; QPush e3; QPop; QPush e4; QPop; QPush e3] in
  let q' := [e4; e3] in let out := [OPop (Some e1); OPop (Some ovf)] in
  q_run (Some 2) [] ops = Val (q', out) /\
  sublist error (keep error is_overflow (popped_of error out ++ q'))
                (keep error is_overflow ([] ++ pushes_of error ops)) /\
  keep error is_overflow (popped_of error out ++ q') = [e1; e4; e3] /\
  keep error is_overflow ([] ++ pushes_of error ops) = [e1; e2; e3; e4; e3].
Proof.
  intros ops q' out.
  exact (conj eq_refl (conj (C12_order_preserved 2 ops [] q' out eq_refl) (conj eq_refl eq_refl))).
Qed.

Print Assumptions C12_bounded_nonvacuous.
Print Assumptions C12_vec_fifo_nonvacuous.
Print Assumptions C12_order_preserved_nonvacuous.
