(* NonVacuous/CommonMsg.v — well-formed program messages (Grammar.v ASTs) addressed to the example tree [ex_tree] of
   Common.v, with their byte renderings and the concrete results the specification MessageSpec.spec_message assigns to
   them.  Shared by the examples for message_semantics (C02, C05, C06), message_semantics_tokens, layout_independent,
   the spec_units_* lemmas (C05) and spec_prog_consumes_prefix (C06).
   - [m_ok]  : seven units, all succeed (absolute header, relative headers that depend on the context left by the
               previous unit, a common command that does not move the context, four queries that write output);
   - [m_ok2] : the same units in another layout (other white space, HT, no NL, #b0101 for #H5);
   - [m_108] : three units, the SECOND has two data elements, its handler takes one: -108 after the handler has run;
   - [m_113] : three units, the SECOND is a relative header that designates nothing in the context left by the first.
   Every result below is a closed first-order value (no handler script occurs in it), so [vm_compute] is cheap. *)
From Coq Require Import Ascii String Lia.
From VF Require Import Base Gen_Errors Fmt Lexer Mnemonic Grammar Response Tree HeaderSpec Conv Scripted MessageSpec.
From VF.NonVacuous Require Import Common.
Local Open Scope string_scope. Local Open Scope list_scope. Open Scope N_scope.

Definition hd_ (absolute common : bool) (ms : list string) (q : bool) : header := mkHeader absolute common (map bs ms) q.
Definition dnum (s : string) : datum := DDec (mkNumber None (bs s) None None).
Definition dneg (s : string) : datum := DDec (mkNumber (Some 45) (bs s) None None).

(* ------------------------------------------------------------------ *)
(* a message whose seven units all succeed                             *)
(* ------------------------------------------------------------------ *)
Definition h1 : header := hd_ true false ["SOURce"; "VOLT"; "RANG"] false.   (* absolute; leaves the context VOLTage *)
Definition h2 : header := hd_ false false ["lev"] true.                      (* relative to VOLTage *)
Definition h3 : header := hd_ false true ["IDN"] true.                       (* common: the context stays VOLTage *)
Definition h4 : header := hd_ false false ["RANG"] true.                     (* relative to VOLTage, after the common command *)
Definition h5 : header := hd_ false false ["LEV"] false.
Definition h6 : header := hd_ true false ["sour"; "FREQ"] false.             (* absolute; leaves the context SOURce *)
Definition h7 : header := hd_ true false ["syst"; "version"] true.           (* absolute, long form in lower case *)

Definition m_ok : msg :=
  mkMsg (bs " ")
    [(mkUnit h1 (bs " ") [(dnum "7", bs " ", [])], []);
     (mkUnit h2 [] [], []);
     (mkUnit h3 (bs " ") [], bs " ");
     (mkUnit h4 [] [], []);
     (mkUnit h5 (bs " ") [(DNonDec 72 (bs "5"), [], [])], []);
     (mkUnit h6 (bs "  ") [(DDec n_1500, bs " ", [])], bs " ");
     (mkUnit h7 [] [], [])] true.
Lemma m_ok_wf : wf_msg m_ok = true.
Proof. vm_compute. reflexivity. Qed.
Example m_ok_text :
  render_msg m_ok = bs " :SOURce:VOLT:RANG 7 ;lev?;*IDN? ; RANG?;LEV #H5;:sour:FREQ  -1.50E+3 ; :syst:version?" ++ [10].
Proof. vm_compute. reflexivity. Qed.

Definition m_ok_dev : slog :=
  [LCall 3 false; LTyped; LCall 2 true; LCall 1 true; LCall 3 true; LCall 2 false; LTok (TNonDec 5); LCall 4 false; LTyped;
   LCall 5 true].
Definition m_ok_out : list byte := bs "5;ACME,42;""AUTO"";VERS 1999.0" ++ [10].
Definition m_ok_trace : trace :=
  [(3, false, []); (2, true, bs "5"); (1, true, bs "ACME,42"); (3, true, bs """AUTO"""); (2, false, []); (4, false, []);
   (5, true, bs "VERS 1999.0")].
Definition m_ok_result : run_result slog := mkRun None m_ok_dev m_ok_out m_ok_trace [].
Lemma m_ok_spec : spec_message ex_tree m_ok [] f0 = m_ok_result.
Proof. vm_compute. reflexivity. Qed.
Lemma m_ok_units_spec : spec_units ex_tree ex_tree (m_units m_ok) [] f0 [] = (m_ok_dev, mkFmt None m_ok_out, m_ok_trace, None).
Proof. vm_compute. reflexivity. Qed.

(* the same units, another layout: no leading space, HT, other blanks around `;`, a header separator before `;`,
   binary instead of hexadecimal radix for the same value, no NL *)
Definition m_ok2 : msg :=
  mkMsg []
    [(mkUnit h1 [9] [(dnum "7", [], [])], bs " ");
     (mkUnit h2 (bs " ") [], [9]);
     (mkUnit h3 [] [], []);
     (mkUnit h4 [] [], bs " ");
     (mkUnit h5 [32; 9] [(DNonDec 98 (bs "0101"), bs " ", [])], bs "  ");
     (mkUnit h6 (bs " ") [(DDec n_1500, [], [])], []);
     (mkUnit h7 [] [], [])] false.
Lemma m_ok2_wf : wf_msg m_ok2 = true.
Proof. vm_compute. reflexivity. Qed.
Example m_ok2_text :
  render_msg m_ok2 = bs ":SOURce:VOLT:RANG" ++ [9] ++ bs "7; lev? ;" ++ [9] ++ bs "*IDN?;RANG?; LEV " ++ [9]
                     ++ bs "#b0101 ;  :sour:FREQ -1.50E+3;:syst:version?".
Proof. vm_compute. reflexivity. Qed.
Lemma m_ok_same_units :
  map (fun uw => (u_header (fst uw), unit_data (fst uw))) (m_units m_ok)
  = map (fun uw => (u_header (fst uw), unit_data (fst uw))) (m_units m_ok2).
Proof. vm_compute. reflexivity. Qed.
Example m_ok_renderings_differ : render_msg m_ok <> render_msg m_ok2.
Proof. vm_compute. discriminate. Qed.

(* ------------------------------------------------------------------ *)
(* the second unit leaves a data element over: -108                    *)
(* ------------------------------------------------------------------ *)
(* "*IDN?;:SOUR:VOLT:RANG 5 , #B101;LEV?" : RANGe takes one (optional, typed) datum *)
Definition q2 : munit :=
  mkUnit (hd_ true false ["SOUR"; "VOLT"; "RANG"] false) (bs " ") [(dnum "5", bs " ", bs " "); (DNonDec 66 (bs "101"), [], [])].
Definition m_108 : msg :=
  mkMsg [] [(mkUnit h3 [] [], []); (q2, []); (mkUnit (hd_ false false ["LEV"] true) [] [], [])] false.
Lemma m_108_wf : wf_msg m_108 = true.
Proof. vm_compute. reflexivity. Qed.
Example m_108_text : render_msg m_108 = bs "*IDN?;:SOUR:VOLT:RANG 5 , #B101;LEV?".
Proof. vm_compute. reflexivity. Qed.
Example q2_data : unit_data q2 = [TDec (bs "5"); TNonDec 5].
Proof. vm_compute. reflexivity. Qed.

(* the RANGe handler HAS run (it is in the device log and in the trace) and took the first datum only; LEV? never runs;
   the answer of *IDN? stays in the buffer without terminator *)
Definition m_108_dev : slog := [LCall 1 true; LCall 3 false; LTyped].
Definition m_108_trace : trace := [(1, true, bs "ACME,42"); (3, false, [])].
Definition m_108_result : run_result slog :=
  mkRun (Some (std_error ParameterNotAllowed)) m_108_dev (bs "ACME,42") m_108_trace [std_error ParameterNotAllowed].
Lemma m_108_spec : spec_message ex_tree m_108 [] f0 = m_108_result.
Proof. vm_compute. reflexivity. Qed.
Lemma m_108_units_spec :
  spec_units ex_tree ex_tree (m_units m_108) [] f0 []
  = (m_108_dev, mkFmt None (bs "ACME,42"), m_108_trace, Some (std_error ParameterNotAllowed)).
Proof. vm_compute. reflexivity. Qed.

(* ------------------------------------------------------------------ *)
(* the second unit designates nothing: -113                            *)
(* ------------------------------------------------------------------ *)
(* ":VOLT:RANG?;FREQ 1;*IDN?" : the first unit leaves the context VOLTage (SOURce omitted), where FREQuency is unknown
   (":VOLT:RANG?;:FREQ 1" and "FREQ 1" alone are both fine) *)
Definition m_113 : msg :=
  mkMsg [] [(mkUnit (hd_ true false ["VOLT"; "RANG"] true) [] [], []);
            (mkUnit (hd_ false false ["FREQ"] false) (bs " ") [(dnum "1", [], [])], []);
            (mkUnit h3 [] [], [])] false.
Lemma m_113_wf : wf_msg m_113 = true.
Proof. vm_compute. reflexivity. Qed.
Example m_113_text : render_msg m_113 = bs ":VOLT:RANG?;FREQ 1;*IDN?".
Proof. vm_compute. reflexivity. Qed.
Definition m_113_result : run_result slog :=
  mkRun (Some (std_error UndefinedHeader)) [LCall 3 true] (bs """AUTO""") [(3, true, bs """AUTO""")] [std_error UndefinedHeader].
Lemma m_113_spec : spec_message ex_tree m_113 [] f0 = m_113_result.
Proof. vm_compute. reflexivity. Qed.
(* the same second unit is fine when it is the first one (context: the root, SOURce is a default branch) *)
Example m_113_second_unit_alone_ok :
  r_err (spec_message ex_tree (mkMsg [] (tl (m_units m_113)) false) [] f0) = None.
Proof. vm_compute. reflexivity. Qed.

Print Assumptions m_ok_spec.
Print Assumptions m_108_spec.
Print Assumptions m_113_spec.
