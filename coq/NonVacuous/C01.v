(* NonVacuous/C01.v — every C01 theorem with a hypothesis, on concrete inputs.
   Each example: hypotheses /\ instantiated conclusion (by applying the theorem).
   Skipped (no hypothesis): C01_lex_next_no_panic, C01_lex_total, C01_lex_params_total, C01_run_tokens_total,
   C01_run_total, C01_nlist_total, C01_spec_values_total, C01_spec_tuple_total. *)
From VF Require Import Base Gen_Errors Lexer Response Tree Conv Lists Lexer_proofs Tree_proofs Conv_proofs Lists_proofs Scripted.
From VF.NonVacuous Require Import Common.
From VF.Properties Require C01.
Import C01.
Open Scope N_scope.

(* a definite-length block followed by another datum *)
Example C01_lex_progress_nonvacuous :
  let l := mkLexer (bs "#15hello , 'x'") false false in
  let l' := mkLexer (bs ", 'x'") false false in
  lex_next l = Val (STok (TBlock (bs "hello")) l') /\ (length (chars l') < length (chars l))%nat.
Proof.
  intros l l'.
  assert (h : lex_next l = Val (STok (TBlock (bs "hello")) l')) by (vm_compute; reflexivity).
  exact (conj h (C01_lex_progress _ _ _ h)).
Qed.

(* a stream cut short by an error: "SYST:VERS? 'abc" (unterminated string) *)
Example C01_tokenize_shape_nonvacuous :
  let l := lexer_new (bs " SYST:VERS? 'abc") in
  let ts := [IOk (TMnemonic (bs "SYST")); IOk THeaderMnemonicSeparator; IOk (TMnemonic (bs "VERS"));
             IOk THeaderQuerySuffix; IOk THeaderSeparator; IErr InvalidStringData] in
  tokenize_from l = Val ts /\
  exists toks, ts = map IOk toks \/ exists e, ts = map IOk toks ++ [IErr e].
Proof.
  intros l ts.
  assert (h : tokenize_from l = Val ts) by (vm_compute; reflexivity).
  exact (conj h (C01_tokenize_shape _ _ h)).
Qed.

Definition params : list titem :=
  [IOk TDataSeparator; IOk (TNonDec 255); IOk TDataSeparator; IOk (TExpr (bs "1:3")); IOk TUnitSeparator].
Definition params' : list titem := [IOk TDataSeparator; IOk (TExpr (bs "1:3")); IOk TUnitSeparator].

Example C01_pull_only_data_nonvacuous :
  next_optional_token params = (Got (TNonDec 255), params') /\ is_data (TNonDec 255) = true.
Proof. exact (conj eq_refl (C01_pull_only_data params _ _ eq_refl)). Qed.

Example C01_pull_req_only_data_nonvacuous :
  next_token params = (Got (TNonDec 255), params') /\ is_data (TNonDec 255) = true.
Proof. exact (conj eq_refl (C01_pull_req_only_data params _ _ eq_refl)). Qed.

(* a decimal with fraction and exponent, converted to every target type *)
Example C01_conv_total_nonvacuous :
  let tok := TDec (bs "-12.5e1") in
  is_data tok = true /\
  ((forall t, exists r, conv_int t tok = Val r) /\ (forall t, exists r, conv_float t tok = Val r)
   /\ (exists r, conv_bool tok = Val r) /\ (forall t, exists r, conv_bytes t tok = Val r)).
Proof. intro tok. exact (conj eq_refl (C01_conv_total tok eq_refl)). Qed.
Example C01_conv_total_nonvacuous_value :
  conv_int I16 (TDec (bs "-12.5e1")) = Val (Ok (-125)%Z) /\ conv_int U8 (TDec (bs "-12.5e1")) = Val (Err DataOutOfRange)
  /\ conv_bool (TDec (bs "-12.5e1")) = Val (Ok true) /\ conv_bytes BStr (TDec (bs "-12.5e1")) = Val (Err DataTypeError).
Proof. vm_compute. repeat split; reflexivity. Qed.

(* a channel list with a spec, a range, a path, and a broken tail *)
Example C01_clist_total_nonvacuous :
  let expr := bs "@1!2,3:5,'a',x" in
  let r := Val [IEntry (CSpec (mkSpec (bs "1!2") 2)); IEntry (CRange (mkSpec (bs "3") 1) (mkSpec (bs "5") 1));
                IEntry (CPath (bs "a")); IError (std_error InvalidExpression)] in
  clist_entries expr = Some r /\ exists l, r = Val l.
Proof.
  intros expr r.
  assert (h : clist_entries expr = Some r) by (vm_compute; reflexivity).
  exact (conj h (C01_clist_total expr r h)).
Qed.

Print Assumptions C01_lex_progress_nonvacuous.
Print Assumptions C01_conv_total_nonvacuous.
Print Assumptions C01_clist_total_nonvacuous.
