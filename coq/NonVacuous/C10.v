(* NonVacuous/C10.v — every C10 theorem (all three have hypotheses), on the example run of Common.v and on
   concrete response units.  Each example: hypotheses /\ instantiated conclusion (by applying the theorem).
   Skipped: none. *)
From VF Require Import Base Gen_Errors Gen_Consts Fmt Lexer Response Tree Resp_proofs Scripted.
From VF.NonVacuous Require Import Common.
From VF.Properties Require C10.
Import C10.
Open Scope N_scope.

(* "VOLT:LEV 5;RANG?;:SYST:VERS?;*IDN?" : one event and three queries; three non-empty unit texts *)
Example C10_framing_nonvacuous :
  run ex_tree ex_input_ok [] (mkFmt None []) = Val ex_run_ok /\ r_err ex_run_ok = None /\
  Forall (fun t => t <> []) (unit_texts (r_trace ex_run_ok)) /\
  unit_texts (r_trace ex_run_ok) = [bs """AUTO"""; bs "VERS 1999.0"; bs "ACME,42"] /\
  r_out ex_run_ok = match unit_texts (r_trace ex_run_ok) with [] => [] | us => intercalate [59] us ++ [10] end.
Proof.
  assert (h3 : Forall (fun t : list byte => t <> []) (unit_texts (r_trace ex_run_ok)))
    by (vm_compute; repeat constructor; discriminate).
  exact (conj ex_run_ok_eq (conj eq_refl (conj h3 (conj eq_refl
    (C10_framing ex_tree ex_input_ok [] ex_run_ok ex_run_ok_eq eq_refl h3))))).
Qed.

(* two header levels and three data in a buffer that already holds "X;" :  X;SYST:VERS 5,"a""b",1 *)
Example C10_unit_text_structure_nonvacuous :
  let hs := [bs "SYST"; bs "VERS"] in
  let ds := [RInt 5; RStr (bs "a""b"); RBool true] in
  let b := bs "X;" in
  Forall (fun x => snd (chunks_of x) = None) ds /\
  (let fu := fold_left (fun a x => ru_data (fst a) (snd a) x) ds
              (fold_left (fun a h => ru_header (fst a) (snd a) h) hs (mkFmt None b, runit_new)) in
   buf (fst fu) = b ++ intercalate [58] hs
                    ++ (match hs, ds with _ :: _, _ :: _ => [32] | _, _ => [] end)
                    ++ intercalate [44] (map data_text ds)
   /\ ru_result (snd fu) = None).
Proof.
  intros hs ds b.
  assert (h : Forall (fun x => snd (chunks_of x) = None) ds) by (repeat constructor).
  exact (conj h (C10_unit_text_structure hs ds b h)).
Qed.
Example C10_unit_text_structure_nonvacuous_value :
  bs "X;" ++ intercalate [58] [bs "SYST"; bs "VERS"] ++ [32]
    ++ intercalate [44] (map data_text [RInt 5; RStr (bs "a""b"); RBool true])
  = bs "X;SYST:VERS 5,""a""""b"",1".
Proof. vm_compute. reflexivity. Qed.

(* an event handler that pulls a datum and "writes" a header and a datum: the formatter is untouched *)
Example C10_event_writes_nothing_nonvacuous :
  let p := script_prog [SPull true false; SHdr (bs "H"); SData (RInt 7)] [] in
  let toks := [IOk (TDec (bs "1")); IOk TUnitSeparator] in
  let f := mkFmt (Some 3%nat) (bs "ab") in
  run_prog p toks f None = ([IOk TUnitSeparator], [LTok (TDec (bs "1"))], f, None) /\ f = f.
Proof.
  intros p toks f.
  assert (h : run_prog p toks f None = ([IOk TUnitSeparator], [LTok (TDec (bs "1"))], f, None)) by (vm_compute; reflexivity).
  exact (conj h (C10_event_writes_nothing p toks f _ _ _ _ h)).
Qed.

Print Assumptions C10_framing_nonvacuous.
Print Assumptions C10_unit_text_structure_nonvacuous.
Print Assumptions C10_event_writes_nothing_nonvacuous.
