(* NonVacuous/C16.v — the one C16 theorem with a hypothesis (C16_full_stack_refines), on the session of CommonDev.v
   and on a message made of the IEEE 488.2 common commands; the two equivalences C16_summary_iff and
   C16_full_stack_refines_iff are exemplified in both directions.
   Skipped (no implication premise): C16_stb_bits, C16_stb_pure, C16_ese_sre_readback,
   C16_cls_effect, C16_opc_sets_bit0, C16_opcq_tst_answers, C16_rst_wai_frame. *)
From VF Require Import Base Gen_Errors Status Status_proofs Contrib ContribSpec Contrib_proofs.
From VF.NonVacuous Require Import Common CommonDev.
From VF.Properties Require C16.
Import C16.
Open Scope N_scope.

Example C16_full_stack_refines_nonvacuous :
  forallb (fun m => forallb renderable (snd m)) ex_msgs = true /\ forallb renderable ex_us = true /\
  dev_message (session_ops dev_init ex_msgs) true (units_text ex_us)
  = Val (op_message (session_ops dev_init ex_msgs) true ex_us) /\
  op_message (session_ops dev_init ex_msgs) true ex_us = (ex_final, bs "32;5;0;80", Some (std_error DataOutOfRange)).
Proof.
  exact (conj ex_msgs_renderable (conj ex_us_renderable
    (conj (C16_full_stack_refines ex_msgs true ex_us ex_msgs_renderable ex_us_renderable) ex_op_message))).
Qed.

(* "*OPC;*STB?;*ESR?;*ESE?;*SRE?;*OPC?;*TST?;*WAI;*RST;*CLS;*STB?;:SYST:ERR:COUN?" after the session, MAV set:
   *OPC queues -800 and sets ESR bit 0; STB = error queue (4) + MAV (16) + ESB (32: ESR and ESE share bit 5) + MSS (64, MAV is enabled in SRE) = 116;
   after *ESR? and *CLS the queue and ESR are empty again: STB = 16 + 64 = 80 *)
Example C16_full_stack_refines_nonvacuous_common :
  let us := [SOpc; SRdStb; SRdEsr; SRdEse; SRdSre; SOpcQ; STstQ; SWai; SRst; SCls; SRdStb; SErrCount] in
  forallb (fun m => forallb renderable (snd m)) ex_msgs = true /\ forallb renderable us = true /\
  dev_message (session_ops dev_init ex_msgs) true (units_text us)
  = Val (op_message (session_ops dev_init ex_msgs) true us) /\
  snd (fst (op_message (session_ops dev_init ex_msgs) true us)) = bs "116;33;32;16;1;0;80;0" ++ [10].
Proof.
  intro us.
  assert (h : forallb renderable us = true) by (vm_compute; reflexivity).
  assert (hv : snd (fst (op_message (session_ops dev_init ex_msgs) true us)) = bs "116;33;32;16;1;0;80;0" ++ [10]) by (vm_compute; reflexivity).
  exact (conj ex_msgs_renderable (conj h
    (conj (C16_full_stack_refines ex_msgs true us ex_msgs_renderable h) hv))).
Qed.

(* the equivalence C16_summary_iff: condition 6, enable 3 share bit 1 *)
Example C16_summary_iff_nonvacuous :
  let r := mkReg 6 0 3 0 m16 in
  (reg_summary r = true <-> exists i, i < 15 /\ N.testbit (condition r) i = true /\ N.testbit (enable r) i = true) /\
  reg_summary r = true /\ (exists i, i < 15 /\ N.testbit (condition r) i = true /\ N.testbit (enable r) i = true) /\
  reg_summary (mkReg 6 0 32768 0 m16) = false.
Proof.
  intro r. pose proof (C16_summary_iff r) as E.
  exact (conj E (conj eq_refl (conj (proj1 E eq_refl) eq_refl))).
Qed.

(* the equivalence: it holds in the final state of the session (one standard error queued), and fails in a state whose
   queue holds a custom error with a non-ASCII message and no extended text *)
Example C16_full_stack_refines_iff_nonvacuous :
  let d_bad := set_queue dev_init [mkError 101%Z (Some [233]) None] in
  queue_printable ex_final = true /\
  (forall mav us, forallb renderable us = true -> dev_message ex_final mav (units_text us) = Val (op_message ex_final mav us)) /\
  queue_printable d_bad = false /\
  ~ (forall mav us, forallb renderable us = true -> dev_message d_bad mav (units_text us) = Val (op_message d_bad mav us)).
Proof.
  intro d_bad.
  split; [reflexivity|]. split; [exact (proj2 (C16_full_stack_refines_iff ex_final) eq_refl)|].
  split; [reflexivity|]. intro H. apply (proj1 (C16_full_stack_refines_iff d_bad)) in H. discriminate H.
Qed.

Print Assumptions C16_full_stack_refines_nonvacuous.
Print Assumptions C16_full_stack_refines_nonvacuous_common.
