(* NonVacuous/C16.v — the one C16 theorem with a hypothesis (C16_full_stack_refines), on the session of CommonDev.v
   and on a message made of the IEEE 488.2 common commands; the two equivalences C16_summary_iff and
   C16_full_stack_refines_iff are exemplified in both directions.
   C16_full_stack_all_messages / _exact are instantiated on the message ASTs of CommonDev.v (end of the file);
   the equivalence of _exact is exemplified for both values of stray_separator.
   Skipped (no implication premise): C16_stb_bits, C16_stb_pure, C16_ese_sre_readback,
   C16_cls_effect, C16_opc_sets_bit0, C16_opcq_tst_answers, C16_rst_wai_frame. *)
From VF Require Import Base Gen_Errors Status Status_proofs Contrib ContribSpec Contrib_proofs Grammar MessageSpec ContribMeaning.
From VF.NonVacuous Require Import Common CommonDev.
From VF.Properties Require C16.
Import C16.
Open Scope N_scope.

Example C16_full_stack_refines_nonvacuous :
  forallb (fun m => forallb renderable (snd m)) ex_msgs = true /\ forallb renderable ex_us = true /\
  dev_message (session_ops dev_init ex_msgs) true (units_text ex_us)
  = Val (op_message (session_ops dev_init ex_msgs) true ex_us) /\
  op_message (session_ops dev_init ex_msgs) true ex_us = (ex_final, bs "32;5;0;80", Some (std_error DataOutOfRange)).
Proof.
  exact (conj ex_msgs_renderable (conj ex_us_renderable
    (conj (C16_full_stack_refines ex_msgs true ex_us ex_msgs_renderable ex_us_renderable) ex_op_message))).
Qed.

(* "*OPC;*STB?;*ESR?;*ESE?;*SRE?;*OPC?;*TST?;*WAI;*RST;*CLS;*STB?;:SYST:ERR:COUN?" after the session, MAV set:
   *OPC queues -800 and sets ESR bit 0; STB = error queue (4) + MAV (16) + ESB (32: ESR and ESE share bit 5) + MSS (64, MAV is enabled in SRE) = 116;
   after *ESR? and *CLS the queue and ESR are empty again: STB = 16 + 64 = 80 *)
Example C16_full_stack_refines_nonvacuous_common :
  let us := [SOpc; SRdStb; SRdEsr; SRdEse; SRdSre; SOpcQ; STstQ; SWai; SRst; SCls; SRdStb; SErrCount] in
  forallb (fun m => forallb renderable (snd m)) ex_msgs = true /\ forallb renderable us = true /\
  dev_message (session_ops dev_init ex_msgs) true (units_text us)
  = Val (op_message (session_ops dev_init ex_msgs) true us) /\
  snd (fst (op_message (session_ops dev_init ex_msgs) true us)) = bs "116;33;32;16;1;0;80;0" ++ [10].
Proof.
  intro us.
  assert (h : forallb renderable us = true) by (vm_compute; reflexivity).
  assert (hv : snd (fst (op_message (session_ops dev_init ex_msgs) true us)) = bs "116;33;32;16;1;0;80;0" ++ [10]) by (vm_compute; reflexivity).
  exact (conj ex_msgs_renderable (conj h
    (conj (C16_full_stack_refines ex_msgs true us ex_msgs_renderable h) hv))).
Qed.

(* the equivalence C16_summary_iff: condition 6, enable 3 share bit 1 *)
Example C16_summary_iff_nonvacuous :
  let r := mkReg 6 0 3 0 m16 in
  (reg_summary r = true <-> exists i, i < 15 /\ N.testbit (condition r) i = true /\ N.testbit (enable r) i = true) /\
  reg_summary r = true /\ (exists i, i < 15 /\ N.testbit (condition r) i = true /\ N.testbit (enable r) i = true) /\
  reg_summary (mkReg 6 0 32768 0 m16) = false.
Proof.
  intro r. pose proof (C16_summary_iff r) as E.
  exact (conj E (conj eq_refl (conj (proj1 E eq_refl) eq_refl))).
Qed.

(* the equivalence: it holds in the final state of the session (one standard error queued), and fails in a state whose
   queue holds a custom error with a non-ASCII message and no extended text *)
Example C16_full_stack_refines_iff_nonvacuous :
  let d_bad := set_queue dev_init [mkError 101%Z (Some [233]) None] in
  queue_printable ex_final = true /\
  (forall mav us, forallb renderable us = true -> dev_message ex_final mav (units_text us) = Val (op_message ex_final mav us)) /\
  queue_printable d_bad = false /\
  ~ (forall mav us, forallb renderable us = true -> dev_message d_bad mav (units_text us) = Val (op_message d_bad mav us)).
Proof.
  intro d_bad.
  split; [reflexivity|]. split; [exact (proj2 (C16_full_stack_refines_iff ex_final) eq_refl)|].
  split; [reflexivity|]. intro H. apply (proj1 (C16_full_stack_refines_iff d_bad)) in H. discriminate H.
Qed.

Print Assumptions C16_full_stack_refines_nonvacuous.
Print Assumptions C16_full_stack_refines_nonvacuous_common.

(* ------------------------------------------------------------------ *)
(* the refinement for ALL well-formed messages, on the session of ASTs of CommonDev.v *)
(* ------------------------------------------------------------------ *)
(* after "*ESE 32;*ERR -113;*ESR?" and ":SYST:ERR:COUN?;*STB?;*SRE 16<NL>" from power-on, the message
   "stat:oper:enab 5;ptr 3;:syst:err?;*ese 300;*ese?" (short forms in lower case, a relative header, a default node
   omitted, an argument out of range): the full stack computes what the operation list says *)
Example C16_full_stack_all_messages_nonvacuous :
  wf_msg dm3 = true /\ message_ops dm3 = Some ex_us3 /\
  render_msg dm3 = bs "stat:oper:enab 5;ptr 3;:syst:err?;*ese 300;*ese?" /\
  ex_us3 = [SReg Oper (RWrEnable 5); SReg Oper (RWrPtr 3); SErrNext; SFail (std_error DataOutOfRange)] /\
  dev_message (session_msgs dev_init ex_session) true (render_msg dm3)
  = Val (with_stray dm3 (op_message (session_msgs dev_init ex_session) true ex_us3)) /\
  session_msgs dev_init ex_session = ex_mid /\
  with_stray dm3 (op_message ex_mid true ex_us3)
  = (ex_final3, bs "-113,""Undefined header""", Some (std_error DataOutOfRange)) /\
  esr ex_final3 = 48 /\ length (queue ex_final3) = 1%nat /\ queue ex_final3 = [std_error DataOutOfRange] /\
  enable (oper ex_final3) = 5 /\ ptr_filter (oper ex_final3) = 3 /\ ese ex_final3 = 32.
Proof.
  assert (h : with_stray dm3 (op_message ex_mid true ex_us3)
              = (ex_final3, bs "-113,""Undefined header""", Some (std_error DataOutOfRange)))
    by (unfold with_stray; rewrite ex_op_message3, dm3_not_stray; vm_compute; reflexivity).
  exact (conj dm3_wf (conj dm3_ops (conj (proj1 (proj2 (proj2 dm_texts))) (conj eq_refl
    (conj (C16_full_stack_all_messages ex_session dm3 true ex_us3 dm3_wf dm3_ops)
    (conj ex_session_mid (conj h (conj eq_refl (conj eq_refl (conj eq_refl (conj eq_refl (conj eq_refl eq_refl)))))))))))).
Qed.

(* in the same state, "*ESE?;*CLS?": the operation-level result, plus exactly the unit separator that the dispatcher
   wrote before it invoked the (non-existent) query form of *CLS *)
Example C16_full_stack_all_messages_nonvacuous_stray :
  wf_msg dm_stray = true /\ message_ops dm_stray = Some ex_us_stray /\
  render_msg dm_stray = bs "*ESE?;*CLS?" /\ ex_us_stray = [SRdEse; SFail (std_error UndefinedHeader)] /\
  dev_message (session_msgs dev_init ex_session) true (render_msg dm_stray)
  = Val (with_stray dm_stray (op_message (session_msgs dev_init ex_session) true ex_us_stray)) /\
  session_msgs dev_init ex_session = ex_mid /\
  op_message ex_mid true ex_us_stray = (ex_final_stray, bs "32", Some (std_error UndefinedHeader)) /\
  with_stray dm_stray (op_message ex_mid true ex_us_stray) = (ex_final_stray, bs "32;", Some (std_error UndefinedHeader)) /\
  esr ex_final_stray = 32 /\ length (queue ex_final_stray) = 2%nat.
Proof.
  assert (h : with_stray dm_stray (op_message ex_mid true ex_us_stray)
              = (ex_final_stray, bs "32;", Some (std_error UndefinedHeader)))
    by (unfold with_stray; rewrite ex_op_message_stray, dm_stray_stray; vm_compute; reflexivity).
  exact (conj dm_stray_wf (conj dm_stray_ops (conj (proj2 (proj2 (proj2 dm_texts))) (conj eq_refl
    (conj (C16_full_stack_all_messages ex_session dm_stray true ex_us_stray dm_stray_wf dm_stray_ops)
    (conj ex_session_mid (conj ex_op_message_stray (conj h (conj eq_refl eq_refl))))))))).
Qed.

(* the exact characterisation, [stray_separator m = true]: the two sides differ, and exactly by the `;` *)
Example C16_full_stack_all_messages_exact_nonvacuous :
  wf_msg dm_stray = true /\ queue_printable ex_mid = true /\ message_ops dm_stray = Some ex_us_stray /\
  (dev_message ex_mid true (render_msg dm_stray) = Val (op_message ex_mid true ex_us_stray) <-> stray_separator dm_stray = false) /\
  stray_separator dm_stray = true /\
  dev_message ex_mid true (render_msg dm_stray) <> Val (op_message ex_mid true ex_us_stray) /\
  dev_message ex_mid true (render_msg dm_stray) = Val (ex_final_stray, bs "32" ++ [59], Some (std_error UndefinedHeader)) /\
  op_message ex_mid true ex_us_stray = (ex_final_stray, bs "32", Some (std_error UndefinedHeader)).
Proof.
  pose proof (C16_full_stack_all_messages_exact dm_stray true ex_mid ex_us_stray dm_stray_wf ex_mid_printable dm_stray_ops) as E.
  assert (hne : dev_message ex_mid true (render_msg dm_stray) <> Val (op_message ex_mid true ex_us_stray)).
  { intro H. apply (proj1 E) in H. rewrite dm_stray_stray in H. discriminate H. }
  exact (conj dm_stray_wf (conj ex_mid_printable (conj dm_stray_ops (conj E (conj dm_stray_stray (conj hne
    (conj ex_dev_message_stray ex_op_message_stray))))))).
Qed.

(* ... and [stray_separator m = false] (the five-unit message above, which also fails, but in a command form): equal *)
Example C16_full_stack_all_messages_exact_nonvacuous_equal :
  wf_msg dm3 = true /\ queue_printable ex_mid = true /\ message_ops dm3 = Some ex_us3 /\
  (dev_message ex_mid true (render_msg dm3) = Val (op_message ex_mid true ex_us3) <-> stray_separator dm3 = false) /\
  stray_separator dm3 = false /\
  dev_message ex_mid true (render_msg dm3) = Val (op_message ex_mid true ex_us3) /\
  op_message ex_mid true ex_us3 = (ex_final3, bs "-113,""Undefined header""", Some (std_error DataOutOfRange)).
Proof.
  pose proof (C16_full_stack_all_messages_exact dm3 true ex_mid ex_us3 dm3_wf ex_mid_printable dm3_ops) as E.
  exact (conj dm3_wf (conj ex_mid_printable (conj dm3_ops (conj E (conj dm3_not_stray (conj (proj2 E dm3_not_stray)
    ex_op_message3)))))).
Qed.

Print Assumptions C16_full_stack_all_messages_nonvacuous.
Print Assumptions C16_full_stack_all_messages_nonvacuous_stray.
Print Assumptions C16_full_stack_all_messages_exact_nonvacuous.
Print Assumptions C16_full_stack_all_messages_exact_nonvacuous_equal.
