(* NonVacuous/C17.v — every C17 theorem with a hypothesis, for the carrier Z (order Z.leb, conversion conv_int I16)
   and a builder obtained from a non-trivial option list.
   Each example: hypotheses /\ instantiated conclusion (by applying the theorem).
   Skipped (no hypothesis): C17_keyword_tests, C17_nv_keywords, C17_nv_value_spec, C17_build_fields. *)
From Coq Require Import Lia.
From VF Require Import Base Gen_Errors Lexer Mnemonic MnemonicSpec Conv Numeric Numeric_proofs.
From VF.NonVacuous Require Import Common.
From VF.Properties Require C17.
Import C17.
Open Scope Z_scope.

(* value.build().max(50).default(7).min(-20).max(40) with type defaults 100 / -100 *)
Definition ops : list (@bop Z) := [BMax 50; BDefault 7; BMin (-20); BMax 40].
Definition bld (v : @nv Z) : @builder Z := build 100 (-100) v ops.
Definition fin : @builder Z -> res Z := finish Z.leb.

Example builder_fields : b_max (bld NMax) = 40 /\ b_min (bld NMax) = -20 /\ b_default (bld NMax) = Some 7.
Proof. repeat split; reflexivity. Qed.

Example C17_nv_other_elements_nonvacuous :
  let tok := TDec (bs "12.4") in
  (forall s, tok <> TChar s) /\ nv_try_from (conv_int I16) tok = nv_value (conv_int I16) tok /\
  nv_try_from (conv_int I16) tok = Val (Ok (NVal 12)).
Proof.
  intro tok. assert (h : forall s, tok <> TChar s) by (intros; discriminate).
  exact (conj h (conj (@C17_nv_other_elements Z (conv_int I16) tok h) eq_refl)).
Qed.

Example C17_finish_max_nonvacuous : b_value (bld NMax) = NMax /\ fin (bld NMax) = Ok (b_max (bld NMax)).
Proof. exact (conj eq_refl (@C17_finish_max Z Z.leb (bld NMax) eq_refl)). Qed.

Example C17_finish_min_nonvacuous : b_value (bld NMin) = NMin /\ fin (bld NMin) = Ok (b_min (bld NMin)).
Proof. exact (conj eq_refl (@C17_finish_min Z Z.leb (bld NMin) eq_refl)). Qed.

Example C17_finish_default_nonvacuous :
  b_value (bld NDef) = NDef /\
  fin (bld NDef) = match b_default (bld NDef) with Some d => Ok d | None => Err IllegalParameterValue end /\
  fin (bld NDef) = Ok 7 /\
  (* ... and without a default *)
  fin (build 100 (-100) NDef [BMax 50]) = Err IllegalParameterValue.
Proof.
  exact (conj eq_refl (conj (@C17_finish_default Z Z.leb (bld NDef) eq_refl) (conj eq_refl
    (@C17_finish_default Z Z.leb (build 100 (-100) NDef [BMax 50]) eq_refl)))).
Qed.

Example C17_finish_up_down_nonvacuous :
  (b_value (bld NDown) = NUp \/ b_value (bld NDown) = NDown) /\ fin (bld NDown) = Err IllegalParameterValue.
Proof. exact (conj (or_intror eq_refl) (@C17_finish_up_down Z Z.leb (bld NDown) (or_intror eq_refl))). Qed.

Example C17_finish_value_nonvacuous :
  b_value (bld (NVal 33)) = NVal 33 /\
  fin (bld (NVal 33)) = (if Z.leb 33 (b_max (bld (NVal 33))) && Z.leb (b_min (bld (NVal 33))) 33 then Ok 33 else Err DataOutOfRange) /\
  fin (bld (NVal 33)) = Ok 33 /\ fin (bld (NVal 41)) = Err DataOutOfRange.
Proof.
  exact (conj eq_refl (conj (@C17_finish_value Z Z.leb (bld (NVal 33)) 33 eq_refl) (conj eq_refl eq_refl))).
Qed.

Example C17_value_in_range_nonvacuous :
  let b := bld (NVal (-20)) in
  b_value b = NVal (-20) /\ fin b = Ok (-20) /\
  (-20 = -20 /\ Z.leb (-20) (b_max b) = true /\ Z.leb (b_min b) (-20) = true).
Proof. intro b. exact (conj eq_refl (conj eq_refl (@C17_value_in_range Z Z.leb b (-20) (-20) eq_refl eq_refl))). Qed.

Example C17_resolved_in_range_nonvacuous :
  let b := bld NDef in
  Z.leb (b_min b) (b_max b) = true /\ Z.leb (b_max b) (b_max b) = true /\ Z.leb (b_min b) (b_min b) = true /\
  (forall d, b_default b = Some d -> Z.leb d (b_max b) = true /\ Z.leb (b_min b) d = true) /\
  fin b = Ok 7 /\
  (Z.leb 7 (b_max b) = true /\ Z.leb (b_min b) 7 = true).
Proof.
  intro b.
  assert (h : forall d, b_default b = Some d -> Z.leb d (b_max b) = true /\ Z.leb (b_min b) d = true).
  { intros d Hd. injection Hd as <-. split; reflexivity. }
  exact (conj eq_refl (conj eq_refl (conj eq_refl (conj h (conj eq_refl
    (@C17_resolved_in_range Z Z.leb b 7 eq_refl eq_refl eq_refl h eq_refl)))))).
Qed.

Example C17_out_of_range_only_for_values_nonvacuous :
  let b := bld (NVal (-21)) in
  fin b = Err DataOutOfRange /\
  exists t, b_value b = NVal t /\ Z.leb t (b_max b) && Z.leb (b_min b) t = false.
Proof. intro b. exact (conj eq_refl (@C17_out_of_range_only_for_values Z Z.leb b eq_refl)). Qed.

Print Assumptions C17_nv_other_elements_nonvacuous.
Print Assumptions C17_resolved_in_range_nonvacuous.
Print Assumptions C17_out_of_range_only_for_values_nonvacuous.
