(* NonVacuous/C04_ranges.v — the byte-range theorems of Lexer_ranges.v (C04: every payload is an exact, in-order,
   non-overlapping byte range of ANY input) instantiated on concrete inputs: hypotheses /\ instantiated conclusion. *)
From Coq Require Import Ascii String.
From VF Require Import Base Gen_Errors Lexer Lexer_proofs Lexer_ranges.
From VF.Properties Require C04.
Import C04 Lexer_ranges.Examples.
Open Scope string_scope. Open Scope list_scope. Open Scope N_scope.

(* a well-formed two-unit message with a suffixed number *)
Definition in1 : list byte := bs "VOLT 12.5e-3 mV ; CURR +.5A,MAX".
Definition items1 : list titem :=
  [IOk (TMnemonic (bs "VOLT")); IOk THeaderSeparator; IOk (TDecSuffix (bs "12.5e-3") (bs "mV")); IOk TUnitSeparator;
   IOk (TMnemonic (bs "CURR")); IOk THeaderSeparator; IOk (TDecSuffix (bs "+.5") (bs "A")); IOk TDataSeparator;
   IOk (TChar (bs "MAX"))].
Lemma tok1 : tokenize in1 = Val items1. Proof. vm_compute. reflexivity. Qed.

Example C04_tokenize_ranges_nonvacuous :
  tokenize in1 = Val items1 /\ ranges in1 (map bs ["VOLT"; "12.5e-3"; "mV"; "CURR"; "+.5"; "A"; "MAX"]).
Proof. split; [exact tok1|]. exact (C04_tokenize_ranges in1 items1 tok1). Qed.

Example C04_payload_total_length_nonvacuous :
  tokenize in1 = Val items1 /\ (list_sum (map (@List.length byte) (payloads items1)) <= List.length in1)%nat.
Proof. split; [exact tok1|]. exact (C04_payload_total_length in1 items1 tok1). Qed.

Example C04_payload_bytes_from_input_nonvacuous :
  tokenize in1 = Val items1 /\ In (bs "mV") (payloads items1) /\ (forall b, In b (bs "mV") -> In b in1).
Proof.
  split; [exact tok1|]. assert (Hin : In (bs "mV") (payloads items1)) by (vm_compute; tauto).
  split; [exact Hin|]. exact (C04_payload_bytes_from_input in1 items1 (bs "mV") tok1 Hin).
Qed.

Example C04_tokenize_tiles_nonvacuous : tokenize in1 = Val items1 /\ True.
Proof. split; [exact tok1|]. pose proof (C04_tokenize_tiles in1 items1 tok1) as _. exact I. Qed.

(* an ILL-FORMED input: the tokens before the error are ranges as well *)
Definition in2 : list byte := bs "  A:B ""x;"",12 V,(1"")".
Definition items2 : list titem :=
  [IOk (TMnemonic (bs "A")); IOk THeaderMnemonicSeparator; IOk (TMnemonic (bs "B")); IOk THeaderSeparator;
   IOk (TString (bs "x;")); IOk TDataSeparator; IOk (TDecSuffix (bs "12") (bs "V")); IOk TDataSeparator;
   IErr InvalidExpression].
Lemma tok2 : tokenize in2 = Val items2. Proof. vm_compute. reflexivity. Qed.
Example C04_tokenize_ranges_nonvacuous_illformed :
  tokenize in2 = Val items2 /\ ranges in2 (map bs ["A"; "B"; "x;"; "12"; "V"]).
Proof. split; [exact tok2|]. exact (C04_tokenize_ranges in2 items2 tok2). Qed.

(* parameter position *)
Definition in3 : list byte := bs "1.5 KHZ,""s;"",#12;;,(a,b)".
Definition items3 : list titem :=
  [IOk (TDecSuffix (bs "1.5") (bs "KHZ")); IOk TDataSeparator; IOk (TString (bs "s;")); IOk TDataSeparator;
   IOk (TBlock (bs ";;")); IOk TDataSeparator; IOk (TExpr (bs "a,b"))].
Lemma tok3 : tokenize_params in3 = Val items3. Proof. vm_compute. reflexivity. Qed.
Example C04_tokenize_params_ranges_nonvacuous :
  tokenize_params in3 = Val items3 /\ ranges in3 (map bs ["1.5"; "KHZ"; "s;"; ";;"; "a,b"]).
Proof. split; [exact tok3|]. exact (C04_tokenize_params_ranges in3 items3 tok3). Qed.

(* one step: a string token; the consumed bytes are quote, payload, quote, white space *)
Definition l4 : lexer := mkLexer (bs """a;b"" ,2") false false.
Definition l4' : lexer := mkLexer (bs ",2") false false.
Lemma step4 : lex_next l4 = Val (STok (TString (bs "a;b")) l4'). Proof. vm_compute. reflexivity. Qed.
Example C04_lex_next_range_nonvacuous :
  lex_next l4 = Val (STok (TString (bs "a;b")) l4') /\
  exists used, chars l4 = used ++ chars l4' /\ used <> [] /\ exists pre post, used = pre ++ bs "a;b" ++ post.
Proof. split; [exact step4|]. exact (C04_lex_next_range l4 _ l4' step4). Qed.
Example C04_range_string_nonvacuous : lex_next l4 = Val (STok (TString (bs "a;b")) l4') /\ True.
Proof. split; [exact step4|]. pose proof (C04_range_string l4 _ l4' step4) as _. exact I. Qed.

(* one step: a suffixed number *)
Definition l5 : lexer := mkLexer (bs "12.5 mV;") false false.
Definition l5' : lexer := mkLexer (bs ";") false false.
Lemma step5 : lex_next l5 = Val (STok (TDecSuffix (bs "12.5") (bs "mV")) l5'). Proof. vm_compute. reflexivity. Qed.
Example C04_lex_next_range_suffix_nonvacuous :
  lex_next l5 = Val (STok (TDecSuffix (bs "12.5") (bs "mV")) l5') /\
  exists used, chars l5 = used ++ chars l5' /\ used <> [] /\ exists pre mid post, used = pre ++ bs "12.5" ++ mid ++ bs "mV" ++ post.
Proof. split; [exact step5|]. exact (C04_lex_next_range_suffix l5 _ _ l5' step5). Qed.

(* one step: a definite block whose payload contains a quote and separators *)
Definition l6 : lexer := mkLexer (bs "#15a"";b, ,1") false false.
Definition l6' : lexer := mkLexer (bs ",1") false false.
Lemma step6 : lex_next l6 = Val (STok (TBlock (bs "a"";b,")) l6'). Proof. vm_compute. reflexivity. Qed.
Example C04_range_block_nonvacuous : lex_next l6 = Val (STok (TBlock (bs "a"";b,")) l6') /\ True.
Proof. split; [exact step6|]. pose proof (C04_range_block l6 _ l6' step6) as _. pose proof (C04_range_block_definite l6 _ l6' step6) as _. exact I. Qed.

Print Assumptions C04_tokenize_ranges_nonvacuous.
Print Assumptions C04_tokenize_ranges_nonvacuous_illformed.
Print Assumptions C04_lex_next_range_nonvacuous.
