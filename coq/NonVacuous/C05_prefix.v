(* NonVacuous/C05_prefix.v — the prefix theorems of Message_proofs3.v (C05: a well-formed prefix followed by an
   arbitrary tail) instantiated on the example tree of Common.v: a tail that is well-formed, a tail with an
   unterminated string, a tail that starts with a lexical error, a prefix whose second unit fails. *)
From VF Require Import Base Gen_Errors Lexer Mnemonic Grammar Response Tree Tree_proofs HeaderSpec MessageSpec
  Message_proofs MessageSpec3 Message_proofs3.
From Coq Require Import Ascii String.
From VF Require Import Conv Scripted.
From VF.NonVacuous Require Import Common CommonMsg.
Local Open Scope string_scope. Local Open Scope list_scope. Open Scope N_scope.

(* a two-unit prefix, ":SOURce:VOLT:RANG 7 ;lev?": an event, then a query relative to the context VOLTage *)
Definition p_us : list (munit * list byte) :=
  [(mkUnit h1 (bs " ") [(dnum "7", bs " ", [])], []); (mkUnit h2 [] [], bs " ")].
Definition p_dev : slog := [LCall 3 false; LTyped; LCall 2 true].
Definition p_fmt : fmt := mkFmt None (bs "5").
Definition p_trace : trace := [(3, false, []); (2, true, bs "5")].

Example p_us_text : render_units p_us = bs ":SOURce:VOLT:RANG 7 ;lev?".
Proof. vm_compute. reflexivity. Qed.
Lemma p_us_wf : forallb Message_proofs.wf_uw p_us = true.
Proof. vm_compute. reflexivity. Qed.
Lemma p_us_ne : p_us <> [].
Proof. discriminate. Qed.
(* both units succeed and leave the context VOLTage *)
Lemma p_us_spec : spec_prefix ex_tree ex_tree p_us [] f0 [] = POk t_volt p_dev p_fmt p_trace.
Proof. vm_compute. reflexivity. Qed.

(* (a) the tail is well-formed: "RANG?;*IDN?\n" runs from the context VOLTage (RANG? is undefined at the root) with
   the device, buffer and trace the prefix left *)
Definition tail_a : list byte := bs "RANG?;*IDN?" ++ [10].
Example message_prefix_semantics_nonvacuous_valid_tail :
  let input := bs " :SOURce:VOLT:RANG 7 ;lev?; RANG?;*IDN?" ++ [10] in
  wf_tree ex_tree /\ wf_ws (bs " ") = true /\ forallb Message_proofs.wf_uw p_us = true /\ p_us <> [] /\
  bs " " ++ render_units p_us ++ 59 :: bs " " ++ tail_a = input /\
  run ex_tree input [] f0 = run_from ex_tree t_volt tail_a p_dev p_fmt p_trace /\
  run_from ex_tree t_volt tail_a p_dev p_fmt p_trace
  = Val (mkRun None [LCall 3 false; LTyped; LCall 2 true; LCall 3 true; LCall 1 true]
               (bs "5;""AUTO"";ACME,42" ++ [10])
               [(3, false, []); (2, true, bs "5"); (3, true, bs """AUTO"""); (1, true, bs "ACME,42")] []) /\
  r_err (match run_from ex_tree ex_tree tail_a p_dev p_fmt p_trace with Val r => r | Panic _ => mkRun None [] [] [] [] end)
  = Some (std_error UndefinedHeader).
Proof.
  intro input.
  pose proof (message_prefix_semantics ex_tree (bs " ") p_us (bs " ") tail_a [] f0
                ex_tree_wf eq_refl p_us_wf p_us_ne eq_refl) as H.
  rewrite p_us_spec in H.
  refine (conj ex_tree_wf (conj eq_refl (conj p_us_wf (conj p_us_ne (conj _ (conj H (conj _ _))))))).
  - vm_compute. reflexivity.
  - vm_compute. reflexivity.
  - vm_compute. reflexivity.
Qed.

(* (b) the tail holds an unterminated string: "LEV 'abc" lexes to  LEV, header separator, error -151; the prefix
   ran, then the LEVel handler was invoked in the context VOLTage and its required pull met the lexer's error *)
Definition tail_b : list byte := bs "LEV 'abc".
Definition run_b : run_result slog :=
  mkRun (Some (std_error InvalidStringData))
        [LCall 3 false; LTyped; LCall 2 true; LCall 2 false; LPullErr InvalidStringData] (bs "5")
        [(3, false, []); (2, true, bs "5"); (2, false, [])] [std_error InvalidStringData].
Example message_prefix_semantics_nonvacuous_unterminated_string :
  let input := bs " :SOURce:VOLT:RANG 7 ;lev?; LEV 'abc" in
  bs " " ++ render_units p_us ++ 59 :: bs " " ++ tail_b = input /\
  tokenize tail_b = Val [IOk (TMnemonic (bs "LEV")); IOk THeaderSeparator; IErr InvalidStringData] /\
  run ex_tree input [] f0 = run_from ex_tree t_volt tail_b p_dev p_fmt p_trace /\
  run_from ex_tree t_volt tail_b p_dev p_fmt p_trace = Val run_b.
Proof.
  intro input.
  pose proof (message_prefix_semantics ex_tree (bs " ") p_us (bs " ") tail_b [] f0
                ex_tree_wf eq_refl p_us_wf p_us_ne eq_refl) as H.
  rewrite p_us_spec in H.
  refine (conj _ (conj _ (conj H _))); vm_compute; reflexivity.
Qed.

(* the trace of that run: the two entries of the prefix, in order, then the one entry the tail added *)
Example prefix_trace_preserved_nonvacuous :
  run ex_tree (bs " " ++ render_units p_us ++ 59 :: bs " " ++ tail_b) [] f0 = Val run_b /\
  exists tr_more, r_trace run_b = p_trace ++ tr_more.
Proof.
  assert (Hr : run ex_tree (bs " " ++ render_units p_us ++ 59 :: bs " " ++ tail_b) [] f0 = Val run_b)
    by (vm_compute; reflexivity).
  split; [exact Hr|].
  pose proof (prefix_trace_preserved ex_tree (bs " ") p_us (bs " ") tail_b [] f0 run_b
                ex_tree_wf eq_refl p_us_wf p_us_ne eq_refl Hr) as H.
  rewrite p_us_spec in H. exact H.
Qed.

(* the tail STARTS with a lexical error: "'abc" in header position is -110 (a string cannot start a header); the
   prefix ran, nothing of the tail ran *)
Example bad_unit_aborts_nonvacuous :
  tokenize (bs "'abc") = Val [IErr CommandHeaderError] /\
  run ex_tree (bs " :SOURce:VOLT:RANG 7 ;lev?; 'abc") [] f0
  = Val (mkRun (Some (std_error CommandHeaderError)) p_dev (bs "5") p_trace [std_error CommandHeaderError]).
Proof.
  assert (Ht : tokenize (bs "'abc") = Val [IErr CommandHeaderError]) by (vm_compute; reflexivity).
  split; [exact Ht|].
  pose proof (bad_unit_aborts ex_tree (bs " ") p_us (bs " ") (bs "'abc") CommandHeaderError [] [] f0
                ex_tree_wf eq_refl p_us_wf p_us_ne eq_refl Ht) as H.
  rewrite p_us_spec in H. exact H.
Qed.

(* (c) a unit of the prefix fails: "*IDN?;:SOUR:VOLT:RANG 5 , #B101" (the second unit leaves a datum over, -108):
   whatever bytes follow the `;`, the run is the same, and nothing after the failing unit is executed *)
Definition p_bad_us : list (munit * list byte) := [(mkUnit h3 [] [], []); (q2, [])].
Example p_bad_us_text : render_units p_bad_us = bs "*IDN?;:SOUR:VOLT:RANG 5 , #B101".
Proof. vm_compute. reflexivity. Qed.
Lemma p_bad_us_wf : forallb Message_proofs.wf_uw p_bad_us = true.
Proof. vm_compute. reflexivity. Qed.
Lemma p_bad_us_spec :
  spec_prefix ex_tree ex_tree p_bad_us [] f0 []
  = PErr (std_error ParameterNotAllowed) m_108_dev (mkFmt None (bs "ACME,42")) m_108_trace.
Proof. vm_compute. reflexivity. Qed.

Example message_prefix_semantics_nonvacuous_failing_prefix : forall bad,
  run ex_tree (render_units p_bad_us ++ 59 :: bad) [] f0 = Val m_108_result.
Proof.
  intro bad.
  pose proof (message_prefix_semantics ex_tree [] p_bad_us [] bad [] f0
                ex_tree_wf eq_refl p_bad_us_wf ltac:(discriminate) eq_refl) as H.
  rewrite p_bad_us_spec in H. exact H.
Qed.

Example failed_prefix_tail_irrelevant_nonvacuous :
  run ex_tree (bs "*IDN?;:SOUR:VOLT:RANG 5 , #B101;LEV?") [] f0
  = run ex_tree (bs "*IDN?;:SOUR:VOLT:RANG 5 , #B101;LEV 'abc") [] f0.
Proof.
  exact (failed_prefix_tail_irrelevant ex_tree [] p_bad_us [] (bs "LEV?") (bs "LEV 'abc") [] f0 _ _ _ _
           ex_tree_wf eq_refl p_bad_us_wf ltac:(discriminate) eq_refl p_bad_us_spec).
Qed.

(* spec_units is spec_prefix followed by the end-of-message step, on the seven-unit message of CommonMsg.v *)
Example spec_units_prefix_nonvacuous :
  spec_units ex_tree ex_tree (m_units m_ok) [] f0 [] = (m_ok_dev, mkFmt None m_ok_out, m_ok_trace, None) /\
  pres_trace (spec_prefix ex_tree ex_tree (m_units m_ok) [] f0 []) = m_ok_trace.
Proof. split; vm_compute; reflexivity. Qed.

Print Assumptions message_prefix_semantics_nonvacuous_valid_tail.
Print Assumptions message_prefix_semantics_nonvacuous_unterminated_string.
Print Assumptions prefix_trace_preserved_nonvacuous.
Print Assumptions bad_unit_aborts_nonvacuous.
Print Assumptions message_prefix_semantics_nonvacuous_failing_prefix.
Print Assumptions failed_prefix_tail_irrelevant_nonvacuous.
