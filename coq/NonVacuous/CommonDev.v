(* NonVacuous/CommonDev.v — a concrete session on the mandated-command device, shared by the examples for the
   full-stack refinement theorem restated in C13, C15 and C16; and (second half) a session of program-message ASTs in
   free spelling for the all-messages refinement theorems (full_stack_all_messages, full_stack_all_messages_exact). *)
From Coq Require Import String.
From VF Require Import Base Gen_Errors ErrSpec Fmt Lexer Grammar Status Status_proofs Contrib ContribSpec Contrib_proofs MessageSpec ContribMeaning.
From VF.NonVacuous Require Import CommonMsg.
From VF.NonVacuous Require Import Common.
Open Scope N_scope.

(* two earlier messages: "*ESE 32;*ERR -113;*ESR?" (fails in its second unit), then, with MAV set,
   ":SYST:ERR:NEXT?;*STB?;*SRE 16" *)
Definition ex_msgs : list (bool * list sop) :=
  [(false, [SWrEse 32; SFail (std_error UndefinedHeader); SRdEsr]); (true, [SErrNext; SRdStb; SWrSre 16])].
(* the message under test: seven units, the sixth fails *)
Definition ex_us : list sop :=
  [SRdEsr; SReg Oper (RWrEnable 5); SReg Oper RRdEnable; SErrCount; SRdStb; SFail (std_error DataOutOfRange); SOpc].

Lemma ex_msgs_renderable : forallb (fun m => forallb renderable (snd m)) ex_msgs = true.
Proof. vm_compute. reflexivity. Qed.
Lemma ex_us_renderable : forallb renderable ex_us = true.
Proof. vm_compute. reflexivity. Qed.

Example ex_us_text : units_text ex_us = bs "*ESR?;:STAT:OPER:ENAB 5;:STAT:OPER:ENAB?;:SYST:ERR:COUN?;*STB?;*ERR -222;*OPC".
Proof. vm_compute. reflexivity. Qed.

(* the device state reached by the two earlier messages: ESR still has the command-error bit, ESE 32, SRE 16 *)
Example ex_session_state : session_ops dev_init ex_msgs = set_sre (set_ese (set_esr dev_init 32) 32) 16.
Proof. vm_compute. reflexivity. Qed.

(* what the operation-level model says the message under test does (MAV set): the answers 32;5;0;80 are left in
   the buffer without terminator, -222 is returned and queued, ESR = execution error, *OPC is never run *)
Definition ex_final : dev :=
  mkDev [std_error DataOutOfRange] 16 32 16 (mkReg 0 0 5 0 m16) reg_default None.
Example ex_op_message :
  op_message (session_ops dev_init ex_msgs) true ex_us = (ex_final, bs "32;5;0;80", Some (std_error DataOutOfRange)).
Proof. vm_compute. reflexivity. Qed.

Print Assumptions ex_op_message.
Print Assumptions ex_us_renderable.

(* ------------------------------------------------------------------ *)
(* a session of well-formed program messages (Grammar.v ASTs) in free spelling, for the theorems
   full_stack_all_messages / full_stack_all_messages_exact restated in C13, C15 and C16 *)
(* ------------------------------------------------------------------ *)
Local Open Scope string_scope. Local Open Scope list_scope. Local Open Scope N_scope.
Definition un (h : header) (args : list datum) : munit :=
  mkUnit h (match args with [] => [] | _ :: _ => [32] end) (map (fun d => (d, [], [])) args).
Definition units (l : list munit) : list (munit * list byte) := map (fun u => (u, [])) l.

(* two earlier messages: "*ESE 32;*ERR -113;*ESR?" (fails in its second unit; *ESR? is never run), then, with MAV set,
   ":SYST:ERR:COUN?;*STB?;*SRE 16<NL>" *)
Definition dm1 : msg :=
  mkMsg [] (units [un (hd_ false true ["ESE"] false) [dnum "32"]; un (hd_ false true ["ERR"] false) [dneg "113"];
                   un (hd_ false true ["ESR"] true) []]) false.
Definition dm2 : msg :=
  mkMsg [] (units [un (hd_ true false ["SYST"; "ERR"; "COUN"] true) []; un (hd_ false true ["STB"] true) [];
                   un (hd_ false true ["SRE"] false) [dnum "16"]]) true.
Definition ex_session : list (bool * msg) := [(false, dm1); (true, dm2)].
(* the message under test: short forms in lower case, a relative header (ptr, in the context OPERation left by the first
   unit), the default node NEXT omitted, a wrong argument (300 does not fit *ESE's u8), and a unit that is never reached *)
Definition dm3 : msg :=
  mkMsg [] (units [un (hd_ false false ["stat"; "oper"; "enab"] false) [dnum "5"]; un (hd_ false false ["ptr"] false) [dnum "3"];
                   un (hd_ true false ["syst"; "err"] true) []; un (hd_ false true ["ese"] false) [dnum "300"];
                   un (hd_ false true ["ese"] true) []]) false.
(* a query on a command without query form, after a query that wrote something *)
Definition dm_stray : msg := mkMsg [] (units [un (hd_ false true ["ESE"] true) []; un (hd_ false true ["CLS"] true) []]) false.

Example dm_texts :
  render_msg dm1 = bs "*ESE 32;*ERR -113;*ESR?" /\ render_msg dm2 = bs ":SYST:ERR:COUN?;*STB?;*SRE 16" ++ [10] /\
  render_msg dm3 = bs "stat:oper:enab 5;ptr 3;:syst:err?;*ese 300;*ese?" /\ render_msg dm_stray = bs "*ESE?;*CLS?".
Proof. vm_compute. auto. Qed.
Lemma dm3_wf : wf_msg dm3 = true.
Proof. vm_compute. reflexivity. Qed.
Lemma dm_stray_wf : wf_msg dm_stray = true.
Proof. vm_compute. reflexivity. Qed.
Example ex_session_wf : forallb (fun m => wf_msg (snd m)) ex_session = true.
Proof. vm_compute. reflexivity. Qed.

(* what the messages mean, operation level (ContribMeaning.message_ops) *)
Definition ex_us3 : list sop := [SReg Oper (RWrEnable 5); SReg Oper (RWrPtr 3); SErrNext; SFail (std_error DataOutOfRange)].
Definition ex_us_stray : list sop := [SRdEse; SFail (std_error UndefinedHeader)].
Example ex_session_ops :
  map (fun m => message_ops (snd m)) ex_session
  = [Some [SWrEse 32; SFail (std_error UndefinedHeader)]; Some [SErrCount; SRdStb; SWrSre 16]].
Proof. vm_compute. reflexivity. Qed.
Lemma dm3_ops : message_ops dm3 = Some ex_us3.
Proof. vm_compute. reflexivity. Qed.
Lemma dm_stray_ops : message_ops dm_stray = Some ex_us_stray.
Proof. vm_compute. reflexivity. Qed.

(* the device state after the two earlier messages: -113 queued (the second message only counted the queue: its
   answer was "1;52<NL>"), ESR = command error, ESE 32, SRE 16 *)
Definition ex_mid : dev := mkDev [std_error UndefinedHeader] 32 32 16 reg_default reg_default None.
Lemma ex_session_mid : session_msgs dev_init ex_session = ex_mid.
Proof. vm_compute. reflexivity. Qed.
Example ex_session_answers :
  op_message dev_init false [SWrEse 32; SFail (std_error UndefinedHeader)]
  = (mkDev [std_error UndefinedHeader] 32 32 0 reg_default reg_default None, [], Some (std_error UndefinedHeader)) /\
  op_message (mkDev [std_error UndefinedHeader] 32 32 0 reg_default reg_default None) true [SErrCount; SRdStb; SWrSre 16]
  = (ex_mid, bs "1;52" ++ [10], None).
Proof. vm_compute. auto. Qed.
Lemma ex_mid_printable : queue_printable ex_mid = true.
Proof. vm_compute. reflexivity. Qed.

(* the message under test (MAV set): OPERation enable 5 and positive filter 3 are written, the queued -113 is read
   back, *ese 300 fails with -222 (queued, ESR gets the execution-error bit: 32 + 16), *ese? is never run; the answer
   stays in the buffer without terminator *)
Definition ex_final3 : dev := mkDev [std_error DataOutOfRange] 48 32 16 (mkReg 0 0 5 0 3) reg_default None.
Lemma ex_op_message3 :
  op_message ex_mid true ex_us3 = (ex_final3, bs "-113,""Undefined header""", Some (std_error DataOutOfRange)).
Proof. vm_compute. reflexivity. Qed.
Lemma dm3_not_stray : stray_separator dm3 = false.
Proof. vm_compute. reflexivity. Qed.

(* "*ESE?;*CLS?": *ESE? answers 32, the query form of *CLS does not exist: -113 (queued a second time) *)
Definition ex_final_stray : dev := mkDev [std_error UndefinedHeader; std_error UndefinedHeader] 32 32 16 reg_default reg_default None.
Lemma ex_op_message_stray : op_message ex_mid true ex_us_stray = (ex_final_stray, bs "32", Some (std_error UndefinedHeader)).
Proof. vm_compute. reflexivity. Qed.
Lemma dm_stray_stray : stray_separator dm_stray = true.
Proof. vm_compute. reflexivity. Qed.
(* the full stack on the same message leaves "32;" : the unit separator written before the failing query was invoked *)
Lemma ex_dev_message_stray :
  dev_message ex_mid true (render_msg dm_stray) = Val (ex_final_stray, bs "32;", Some (std_error UndefinedHeader)).
Proof. vm_compute. reflexivity. Qed.

Print Assumptions ex_op_message3.
Print Assumptions ex_dev_message_stray.
