(* NonVacuous/CommonDev.v — a concrete session on the mandated-command device, shared by the examples for the
   full-stack refinement theorem restated in C13, C15 and C16. *)
From VF Require Import Base Gen_Errors ErrSpec Fmt Status Status_proofs Contrib ContribSpec Contrib_proofs.
From VF.NonVacuous Require Import Common.
Open Scope N_scope.

(* two earlier messages: "*ESE 32;*ERR -113;*ESR?" (fails in its second unit), then, with MAV set,
   ":SYST:ERR:NEXT?;*STB?;*SRE 16" *)
Definition ex_msgs : list (bool * list sop) :=
  [(false, [SWrEse 32; SFail (std_error UndefinedHeader); SRdEsr]); (true, [SErrNext; SRdStb; SWrSre 16])].
(* the message under test: seven units, the sixth fails *)
Definition ex_us : list sop :=
  [SRdEsr; SReg Oper (RWrEnable 5); SReg Oper RRdEnable; SErrCount; SRdStb; SFail (std_error DataOutOfRange); SOpc].

Lemma ex_msgs_renderable : forallb (fun m => forallb renderable (snd m)) ex_msgs = true.
Proof. vm_compute. reflexivity. Qed.
Lemma ex_us_renderable : forallb renderable ex_us = true.
Proof. vm_compute. reflexivity. Qed.

Example ex_us_text : units_text ex_us = bs "*ESR?;:STAT:OPER:ENAB 5;:STAT:OPER:ENAB?;:SYST:ERR:COUN?;*STB?;*ERR -222;*OPC".
Proof. vm_compute. reflexivity. Qed.

(* the device state reached by the two earlier messages: ESR still has the command-error bit, ESE 32, SRE 16 *)
Example ex_session_state : session_ops dev_init ex_msgs = set_sre (set_ese (set_esr dev_init 32) 32) 16.
Proof. vm_compute. reflexivity. Qed.

(* what the operation-level model says the message under test does (MAV set): the answers 32;5;0;80 are left in
   the buffer without terminator, -222 is returned and queued, ESR = execution error, *OPC is never run *)
Definition ex_final : dev :=
  mkDev [std_error DataOutOfRange] 16 32 16 (mkReg 0 0 5 0 m16) reg_default None.
Example ex_op_message :
  op_message (session_ops dev_init ex_msgs) true ex_us = (ex_final, bs "32;5;0;80", Some (std_error DataOutOfRange)).
Proof. vm_compute. reflexivity. Qed.

Print Assumptions ex_op_message.
Print Assumptions ex_us_renderable.
