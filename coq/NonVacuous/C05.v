(* NonVacuous/C05.v — every C05 theorem with a hypothesis, on the example tree and the example runs of Common.v.
   Each example: hypotheses /\ instantiated conclusion (the conclusion by applying the theorem).
   Skipped (no hypothesis): C05_exec_invokes_at_most_once. *)
From VF Require Import Base Gen_Errors Lexer Response Tree Tree_proofs Scripted.
From VF.NonVacuous Require Import Common.
From VF.Properties Require C05.
Import C05.
Open Scope N_scope.

(* a four-unit message that succeeds, and one whose fourth unit fails *)
Example C05_hook_exactly_once_nonvacuous :
  run ex_tree ex_input_ok [] f0 = Val ex_run_ok /\ r_hook ex_run_ok = [] /\
  run ex_tree ex_input_bad [] f0 = Val ex_run_bad /\ r_hook ex_run_bad = [std_error UndefinedHeader].
Proof.
  exact (conj ex_run_ok_eq (conj (C05_hook_exactly_once _ _ _ _ _ ex_run_ok_eq)
        (conj ex_run_bad_eq (C05_hook_exactly_once _ _ _ _ _ ex_run_bad_eq)))).
Qed.

(* "SYST:VERS;*IDN?" : the event form of VERSion fails with -100; *IDN? is never run *)
Example C05_first_error_aborts_nonvacuous :
  let s := mkX (toks_of_text "SYST:VERS;*IDN?") ([] : slog) f0 [] in
  let s' := mkX [IOk TUnitSeparator; IOk (TMnemonic (bs "*IDN")); IOk THeaderQuerySuffix] [LCall 5 false] f0 [(5, false, [])] in
  unit_body ex_tree ex_tree s = UExec (XErr (std_error CommandError) s') /\
  unit_loop 7 ex_tree ex_tree s = Val (s', Some (std_error CommandError)).
Proof.
  intros s s'.
  assert (h : unit_body ex_tree ex_tree s = UExec (XErr (std_error CommandError) s')) by (vm_compute; reflexivity).
  exact (conj h (C05_first_error_aborts 6 _ _ _ _ _ h)).
Qed.

(* the stream of "VOLT 1,,2" after the first datum: an error item *)
Example C05_stream_error_aborts_nonvacuous :
  let s := mkX [IErr SyntaxError] ([LCall 2 false] : slog) (mkFmt None (bs "5")) [(2, true, bs "5")] in
  x_toks s = IErr SyntaxError :: [] /\
  unit_loop 3 ex_tree t_volt s = Val (s, Some (std_error SyntaxError)).
Proof.
  intro s. exact (conj eq_refl (C05_stream_error_aborts 2 ex_tree t_volt s SyntaxError [] eq_refl)).
Qed.

Example C05_trace_bounded_by_units_nonvacuous :
  let toks := toks_of_text "VOLT:LEV 5;RANG?;:SYST:VERS?;*IDN?" in
  let s := mkX [] ex_dev_ok (mkFmt None ex_out_ok) ex_trace_ok in
  run_tokens ex_tree toks [] f0 = Val (s, None) /\ count_unit_seps toks = 3%nat /\
  (length (x_trace s) <= S (count_unit_seps toks))%nat.
Proof.
  intros toks s.
  assert (h : run_tokens ex_tree toks [] f0 = Val (s, None)) by (vm_compute; reflexivity).
  exact (conj h (conj eq_refl (C05_trace_bounded_by_units _ _ _ _ _ _ h))).
Qed.

(* "VOLT:LEV 5,6;RANG?" : the handler takes one datum, the second is left over *)
Example C05_leftover_is_108_nonvacuous :
  let s := mkX (toks_of_text "VOLT:LEV 5,6;RANG?") ([] : slog) f0 [] in
  let rest := [IOk (TDec (bs "6")); IOk TUnitSeparator; IOk (TMnemonic (bs "RANG")); IOk THeaderQuerySuffix] in
  let s' := mkX (IOk TDataSeparator :: rest) [LCall 2 false; LTok (TDec (bs "5"))] f0 [(2, false, [])] in
  unit_body ex_tree ex_tree s = UExec (XOk t_volt s') /\ x_toks s' = IOk TDataSeparator :: rest /\
  (is_data TDataSeparator = true \/ TDataSeparator = TDataSeparator) /\
  unit_loop 11 ex_tree ex_tree s = Val (with_toks s' rest, Some (std_error ParameterNotAllowed)).
Proof.
  intros s rest s'.
  assert (h : unit_body ex_tree ex_tree s = UExec (XOk t_volt s')) by reflexivity.
  exact (conj h (conj eq_refl (conj (or_intror eq_refl)
    (C05_leftover_is_108 10 ex_tree ex_tree s t_volt s' TDataSeparator rest h eq_refl (or_intror eq_refl))))).
Qed.

Print Assumptions C05_hook_exactly_once_nonvacuous.
Print Assumptions C05_first_error_aborts_nonvacuous.
Print Assumptions C05_leftover_is_108_nonvacuous.
