(* NonVacuous/C05.v — every C05 theorem with a hypothesis, on the example tree and the example runs of Common.v.
   Each example: hypotheses /\ instantiated conclusion (the conclusion by applying the theorem).
   The theorems about the message specification (message_semantics, message_semantics_tokens, layout_independent,
   the three spec_units lemmas) are instantiated on the messages of CommonMsg.v (end of the file).
   Skipped (no hypothesis): C05_exec_invokes_at_most_once. *)
From VF Require Import Base Gen_Errors Lexer Grammar Response Tree Tree_proofs HeaderSpec Scripted MessageSpec.
From VF.NonVacuous Require Import Common CommonMsg.
From VF.Properties Require C05.
Import C05.
Open Scope N_scope.

(* a four-unit message that succeeds, and one whose fourth unit fails *)
Example C05_hook_exactly_once_nonvacuous :
  run ex_tree ex_input_ok [] f0 = Val ex_run_ok /\ r_hook ex_run_ok = [] /\
  run ex_tree ex_input_bad [] f0 = Val ex_run_bad /\ r_hook ex_run_bad = [std_error UndefinedHeader].
Proof.
  exact (conj ex_run_ok_eq (conj (C05_hook_exactly_once _ _ _ _ _ ex_run_ok_eq)
        (conj ex_run_bad_eq (C05_hook_exactly_once _ _ _ _ _ ex_run_bad_eq)))).
Qed.

(* "SYST:VERS;*IDN?" : the event form of VERSion fails with -100; *IDN? is never run *)
Example C05_first_error_aborts_nonvacuous :
  let s := mkX (toks_of_text "SYST:VERS;*IDN?") ([] : slog) f0 [] in
  let s' := mkX [IOk TUnitSeparator; IOk (TMnemonic (bs "*IDN")); IOk THeaderQuerySuffix] [LCall 5 false] f0 [(5, false, [])] in
  unit_body ex_tree ex_tree s = UExec (XErr (std_error CommandError) s') /\
  unit_loop 7 ex_tree ex_tree s = Val (s', Some (std_error CommandError)).
Proof.
  intros s s'.
  assert (h : unit_body ex_tree ex_tree s = UExec (XErr (std_error CommandError) s')) by (vm_compute; reflexivity).
  exact (conj h (C05_first_error_aborts 6 _ _ _ _ _ h)).
Qed.

(* the stream of "VOLT 1,,2" after the first datum: an error item *)
Example C05_stream_error_aborts_nonvacuous :
  let s := mkX [IErr SyntaxError] ([LCall 2 false] : slog) (mkFmt None (bs "5")) [(2, true, bs "5")] in
  x_toks s = IErr SyntaxError :: [] /\
  unit_loop 3 ex_tree t_volt s = Val (s, Some (std_error SyntaxError)).
Proof.
  intro s. exact (conj eq_refl (C05_stream_error_aborts 2 ex_tree t_volt s SyntaxError [] eq_refl)).
Qed.

Example C05_trace_bounded_by_units_nonvacuous :
  let toks := toks_of_text "VOLT:LEV 5;RANG?;:SYST:VERS?;*IDN?" in
  let s := mkX [] ex_dev_ok (mkFmt None ex_out_ok) ex_trace_ok in
  run_tokens ex_tree toks [] f0 = Val (s, None) /\ count_unit_seps toks = 3%nat /\
  (length (x_trace s) <= S (count_unit_seps toks))%nat.
Proof.
  intros toks s.
  assert (h : run_tokens ex_tree toks [] f0 = Val (s, None)) by (vm_compute; reflexivity).
  exact (conj h (conj eq_refl (C05_trace_bounded_by_units _ _ _ _ _ _ h))).
Qed.

(* "VOLT:LEV 5,6;RANG?" : the handler takes one datum, the second is left over *)
Example C05_leftover_is_108_nonvacuous :
  let s := mkX (toks_of_text "VOLT:LEV 5,6;RANG?") ([] : slog) f0 [] in
  let rest := [IOk (TDec (bs "6")); IOk TUnitSeparator; IOk (TMnemonic (bs "RANG")); IOk THeaderQuerySuffix] in
  let s' := mkX (IOk TDataSeparator :: rest) [LCall 2 false; LTok (TDec (bs "5"))] f0 [(2, false, [])] in
  unit_body ex_tree ex_tree s = UExec (XOk t_volt s') /\ x_toks s' = IOk TDataSeparator :: rest /\
  (is_data TDataSeparator = true \/ TDataSeparator = TDataSeparator) /\
  unit_loop 11 ex_tree ex_tree s = Val (with_toks s' rest, Some (std_error ParameterNotAllowed)).
Proof.
  intros s rest s'.
  assert (h : unit_body ex_tree ex_tree s = UExec (XOk t_volt s')) by reflexivity.
  exact (conj h (conj eq_refl (conj (or_intror eq_refl)
    (C05_leftover_is_108 10 ex_tree ex_tree s t_volt s' TDataSeparator rest h eq_refl (or_intror eq_refl))))).
Qed.

Print Assumptions C05_hook_exactly_once_nonvacuous.
Print Assumptions C05_first_error_aborts_nonvacuous.
Print Assumptions C05_leftover_is_108_nonvacuous.

(* ------------------------------------------------------------------ *)
(* the theorems about the message specification, on the messages of CommonMsg.v *)
(* ------------------------------------------------------------------ *)
(* seven units (absolute, relative, common headers; four queries), all run in order *)
Example C05_message_semantics_nonvacuous :
  wf_tree ex_tree /\ wf_msg m_ok = true /\
  run ex_tree (render_msg m_ok) [] f0 = Val (spec_message ex_tree m_ok [] f0) /\
  render_msg m_ok = bs " :SOURce:VOLT:RANG 7 ;lev?;*IDN? ; RANG?;LEV #H5;:sour:FREQ  -1.50E+3 ; :syst:version?" ++ [10] /\
  spec_message ex_tree m_ok [] f0 = m_ok_result /\
  r_err m_ok_result = None /\ r_hook m_ok_result = [] /\ r_out m_ok_result = bs "5;ACME,42;""AUTO"";VERS 1999.0" ++ [10] /\
  length (r_trace m_ok_result) = 7%nat.
Proof.
  exact (conj ex_tree_wf (conj m_ok_wf (conj (C05_message_semantics ex_tree m_ok [] f0 ex_tree_wf m_ok_wf)
    (conj m_ok_text (conj m_ok_spec (conj eq_refl (conj eq_refl (conj eq_refl eq_refl)))))))).
Qed.

(* the SECOND of three units fails (a data element is left over, -108): the error is returned and reported once, the
   third unit is not executed (two trace entries: *IDN? and the RANGe handler that did run) *)
Example C05_message_semantics_nonvacuous_abort :
  wf_tree ex_tree /\ wf_msg m_108 = true /\
  run ex_tree (render_msg m_108) [] f0 = Val (spec_message ex_tree m_108 [] f0) /\
  render_msg m_108 = bs "*IDN?;:SOUR:VOLT:RANG 5 , #B101;LEV?" /\
  spec_message ex_tree m_108 [] f0 = m_108_result /\
  r_err m_108_result = Some (std_error ParameterNotAllowed) /\ r_hook m_108_result = [std_error ParameterNotAllowed] /\
  r_out m_108_result = bs "ACME,42" /\ r_trace m_108_result = [(1, true, bs "ACME,42"); (3, false, [])].
Proof.
  exact (conj ex_tree_wf (conj m_108_wf (conj (C05_message_semantics ex_tree m_108 [] f0 ex_tree_wf m_108_wf)
    (conj m_108_text (conj m_108_spec (conj eq_refl (conj eq_refl (conj eq_refl eq_refl)))))))).
Qed.

(* the second unit is an undefined header (-113): one trace entry *)
Example C05_message_semantics_nonvacuous_undefined :
  wf_tree ex_tree /\ wf_msg m_113 = true /\
  run ex_tree (render_msg m_113) [] f0 = Val (spec_message ex_tree m_113 [] f0) /\
  render_msg m_113 = bs ":VOLT:RANG?;FREQ 1;*IDN?" /\
  spec_message ex_tree m_113 [] f0 = m_113_result /\
  r_err m_113_result = Some (std_error UndefinedHeader) /\ r_hook m_113_result = [std_error UndefinedHeader] /\
  length (r_trace m_113_result) = 1%nat.
Proof.
  exact (conj ex_tree_wf (conj m_113_wf (conj (C05_message_semantics ex_tree m_113 [] f0 ex_tree_wf m_113_wf)
    (conj m_113_text (conj m_113_spec (conj eq_refl (conj eq_refl eq_refl))))))).
Qed.

(* the seven-unit message into a 9-byte response buffer: after "5;ACME,42" there is no room for the unit separator of
   the fourth unit (RANG?), whose handler is therefore not invoked; the message ends with -225 *)
Definition m_ok_cap9_result : run_result slog :=
  mkRun (Some (std_error OutOfMemory)) [LCall 3 false; LTyped; LCall 2 true; LCall 1 true] (bs "5;ACME,42")
        [(3, false, []); (2, true, bs "5"); (1, true, bs "ACME,42")] [std_error OutOfMemory].
Example C05_message_semantics_nonvacuous_capacity :
  let f9 := mkFmt (Some 9%nat) [] in
  wf_tree ex_tree /\ wf_msg m_ok = true /\
  run ex_tree (render_msg m_ok) [] f9 = Val (spec_message ex_tree m_ok [] f9) /\
  spec_message ex_tree m_ok [] f9 = m_ok_cap9_result.
Proof.
  intro f9.
  assert (h : spec_message ex_tree m_ok [] f9 = m_ok_cap9_result) by (vm_compute; reflexivity).
  exact (conj ex_tree_wf (conj m_ok_wf (conj (C05_message_semantics ex_tree m_ok [] f9 ex_tree_wf m_ok_wf) h))).
Qed.

(* the token-level statement, on the failing message: the 16 tokens of "*IDN?;:SOUR:VOLT:RANG 5 , #B101;LEV?" *)
Example C05_message_semantics_tokens_nonvacuous :
  wf_tree ex_tree /\ wf_msg m_108 = true /\
  (exists s e, run_tokens ex_tree (map IOk (tokens_of m_108)) [] f0 = Val (s, e) /\
     (x_dev s, x_fmt s, x_trace s, e) = spec_units ex_tree ex_tree (m_units m_108) [] f0 []) /\
  tokens_of m_108 =
    [TMnemonic (bs "*IDN"); THeaderQuerySuffix; TUnitSeparator;
     THeaderMnemonicSeparator; TMnemonic (bs "SOUR"); THeaderMnemonicSeparator; TMnemonic (bs "VOLT");
     THeaderMnemonicSeparator; TMnemonic (bs "RANG"); THeaderSeparator; TDec (bs "5"); TDataSeparator; TNonDec 5;
     TUnitSeparator; TMnemonic (bs "LEV"); THeaderQuerySuffix] /\
  spec_units ex_tree ex_tree (m_units m_108) [] f0 []
  = ([LCall 1 true; LCall 3 false; LTyped], mkFmt None (bs "ACME,42"), [(1, true, bs "ACME,42"); (3, false, [])],
     Some (std_error ParameterNotAllowed)).
Proof.
  exact (conj ex_tree_wf (conj m_108_wf (conj (C05_message_semantics_tokens ex_tree m_108 [] f0 ex_tree_wf m_108_wf)
    (conj eq_refl m_108_units_spec)))).
Qed.
(* ... and on the successful one (35 tokens, final state spelled out) *)
Example C05_message_semantics_tokens_nonvacuous_ok :
  wf_tree ex_tree /\ wf_msg m_ok = true /\
  (exists s e, run_tokens ex_tree (map IOk (tokens_of m_ok)) [] f0 = Val (s, e) /\
     (x_dev s, x_fmt s, x_trace s, e) = spec_units ex_tree ex_tree (m_units m_ok) [] f0 []) /\
  length (tokens_of m_ok) = 35%nat /\
  spec_units ex_tree ex_tree (m_units m_ok) [] f0 [] = (m_ok_dev, mkFmt None m_ok_out, m_ok_trace, None).
Proof.
  exact (conj ex_tree_wf (conj m_ok_wf (conj (C05_message_semantics_tokens ex_tree m_ok [] f0 ex_tree_wf m_ok_wf)
    (conj eq_refl m_ok_units_spec)))).
Qed.

(* two different byte strings (white space, HT, a header separator before `;`, #H5 / #b0101, NL / no NL) with the
   same headers and data elements run alike *)
Example C05_layout_independent_nonvacuous :
  wf_tree ex_tree /\ wf_msg m_ok = true /\ wf_msg m_ok2 = true /\
  map (fun uw => (u_header (fst uw), unit_data (fst uw))) (m_units m_ok)
    = map (fun uw => (u_header (fst uw), unit_data (fst uw))) (m_units m_ok2) /\
  render_msg m_ok = bs " :SOURce:VOLT:RANG 7 ;lev?;*IDN? ; RANG?;LEV #H5;:sour:FREQ  -1.50E+3 ; :syst:version?" ++ [10] /\
  render_msg m_ok2 = bs ":SOURce:VOLT:RANG" ++ [9] ++ bs "7; lev? ;" ++ [9] ++ bs "*IDN?;RANG?; LEV " ++ [9]
                     ++ bs "#b0101 ;  :sour:FREQ -1.50E+3;:syst:version?" /\
  render_msg m_ok <> render_msg m_ok2 /\
  run ex_tree (render_msg m_ok) [] f0 = run ex_tree (render_msg m_ok2) [] f0.
Proof.
  exact (conj ex_tree_wf (conj m_ok_wf (conj m_ok2_wf (conj m_ok_same_units (conj m_ok_text (conj m_ok2_text
    (conj m_ok_renderings_differ
      (C05_layout_independent ex_tree m_ok m_ok2 [] f0 ex_tree_wf m_ok_wf m_ok2_wf m_ok_same_units)))))))).
Qed.

(* spec_units from the middle of the successful message: the six units after the first, started in the context
   VOLTage, the device log and the trace left by the first unit: 1 + 6 trace entries *)
Example C05_spec_units_ok_trace_nonvacuous :
  let us := tl (m_units m_ok) in
  let d1 : slog := [LCall 3 false; LTyped] in
  let tr1 : trace := [(3, false, [])] in
  spec_units ex_tree t_volt us d1 f0 tr1 = (m_ok_dev, mkFmt None m_ok_out, m_ok_trace, None) /\
  length m_ok_trace = (length tr1 + length us)%nat /\ length us = 6%nat /\ length m_ok_trace = 7%nat.
Proof.
  intros us d1 tr1.
  assert (h : spec_units ex_tree t_volt us d1 f0 tr1 = (m_ok_dev, mkFmt None m_ok_out, m_ok_trace, None))
    by (vm_compute; reflexivity).
  exact (conj h (conj (C05_spec_units_ok_trace ex_tree t_volt us d1 f0 tr1 _ _ _ h) (conj eq_refl eq_refl))).
Qed.

(* a failing run: three units, the second fails; 2 <= 0 + 3 (strictly: the third unit added nothing) *)
Example C05_spec_units_err_trace_nonvacuous :
  spec_units ex_tree ex_tree (m_units m_108) [] f0 []
  = (m_108_dev, mkFmt None (bs "ACME,42"), m_108_trace, Some (std_error ParameterNotAllowed)) /\
  (length m_108_trace <= length ([] : trace) + length (m_units m_108))%nat /\
  length m_108_trace = 2%nat /\ length (m_units m_108) = 3%nat.
Proof.
  exact (conj m_108_units_spec (conj (C05_spec_units_err_trace ex_tree ex_tree _ _ _ _ _ _ _ _ m_108_units_spec)
    (conj eq_refl eq_refl))).
Qed.

(* the trace only grows: the last two units of the failing message, started in the context ROOT with a non-empty trace
   and a non-empty response buffer left by an earlier query *)
Example C05_spec_units_trace_extends_nonvacuous :
  let us := tl (m_units m_108) in
  let tr1 : trace := [(9, true, bs "X")] in
  spec_units ex_tree ex_tree us [LCall 9 true] (mkFmt None (bs "X")) tr1
  = ([LCall 9 true; LCall 3 false; LTyped], mkFmt None (bs "X"), [(9, true, bs "X"); (3, false, [])],
     Some (std_error ParameterNotAllowed)) /\
  exists added, [(9, true, bs "X"); (3, false, [])] = tr1 ++ added.
Proof.
  intros us tr1.
  assert (h : spec_units ex_tree ex_tree us [LCall 9 true] (mkFmt None (bs "X")) tr1
    = ([LCall 9 true; LCall 3 false; LTyped], mkFmt None (bs "X"), [(9, true, bs "X"); (3, false, [])],
       Some (std_error ParameterNotAllowed))) by (vm_compute; reflexivity).
  exact (conj h (C05_spec_units_trace_extends ex_tree ex_tree us _ _ tr1 _ _ _ _ h)).
Qed.
(* ... and for the successful message from the start *)
Example C05_spec_units_trace_extends_nonvacuous_ok :
  spec_units ex_tree ex_tree (m_units m_ok) [] f0 [] = (m_ok_dev, mkFmt None m_ok_out, m_ok_trace, None) /\
  exists added, m_ok_trace = [] ++ added.
Proof. exact (conj m_ok_units_spec (C05_spec_units_trace_extends ex_tree ex_tree _ _ _ _ _ _ _ _ m_ok_units_spec)). Qed.

Print Assumptions C05_message_semantics_nonvacuous.
Print Assumptions C05_message_semantics_nonvacuous_abort.
Print Assumptions C05_message_semantics_nonvacuous_undefined.
Print Assumptions C05_message_semantics_nonvacuous_capacity.
Print Assumptions C05_message_semantics_tokens_nonvacuous.
Print Assumptions C05_message_semantics_tokens_nonvacuous_ok.
Print Assumptions C05_layout_independent_nonvacuous.
Print Assumptions C05_spec_units_ok_trace_nonvacuous.
Print Assumptions C05_spec_units_err_trace_nonvacuous.
Print Assumptions C05_spec_units_trace_extends_nonvacuous.
Print Assumptions C05_spec_units_trace_extends_nonvacuous_ok.
