(* NonVacuous/C14.v — every C14 theorem (all four have hypotheses), on concrete codes.
   Each example: hypotheses /\ instantiated conclusion (by applying the theorem).
   Skipped: none. *)
From Coq Require Import Lia.
From VF Require Import Base Gen_Errors Gen_Esr ErrTable ErrSpec ErrTable_proofs.
From VF.NonVacuous Require Import Common.
From VF.Properties Require C14.
Import C14.
Open Scope Z_scope.

Example C14_esr_class_nonvacuous :
  in_i16 (-222) /\ esr_mask (-222) = class_bit (-222) /\ class_bit (-222) = 16%N /\
  in_i16 (-410) /\ esr_mask (-410) = class_bit (-410) /\ class_bit (-410) = 4%N.
Proof.
  assert (h1 : in_i16 (-222)) by (unfold in_i16; lia).
  assert (h2 : in_i16 (-410)) by (unfold in_i16; lia).
  exact (conj h1 (conj (C14_esr_class (-222) h1) (conj eq_refl (conj h2 (conj (C14_esr_class (-410) h2) eq_refl))))).
Qed.

(* a custom (positive) code is device-specific *)
Example C14_custom_class_nonvacuous :
  in_i16 101 /\ error_esr_mask (mkError 101 (Some (bs "Fuse blown")) (Some (bs "F2"))) = class_bit 101 /\ class_bit 101 = 8%N.
Proof.
  assert (h : in_i16 101) by (unfold in_i16; lia).
  exact (conj h (conj (C14_custom_class 101 (bs "Fuse blown") (Some (bs "F2")) h) eq_refl)).
Qed.

Example C14_lookup_roundtrip_nonvacuous :
  let v := (-222, bs "Data out of range") in
  get_error (-222) = Some v /\ get_code v = -222.
Proof.
  intro v. assert (h : get_error (-222) = Some v) by (vm_compute; reflexivity).
  exact (conj h (C14_lookup_roundtrip (-222) v h)).
Qed.

Example C14_every_std_error_found_nonvacuous :
  let m := bs "Queue overflow" in
  In (-350, m) std_errors /\ get_error (-350) = Some (-350, m).
Proof.
  intro m.
  assert (h : In (-350, m) std_errors).
  { apply (proj1 (find_some (fun p => Z.eqb (fst p) (-350)) std_errors (x := (-350, m)) ltac:(vm_compute; reflexivity))). }
  exact (conj h (C14_every_std_error_found (-350) m h)).
Qed.

Print Assumptions C14_esr_class_nonvacuous.
Print Assumptions C14_lookup_roundtrip_nonvacuous.
Print Assumptions C14_every_std_error_found_nonvacuous.
