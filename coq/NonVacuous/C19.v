(* NonVacuous/C19.v — every C19 theorem with a hypothesis, on concrete numeric and channel lists.
   Each example: hypotheses /\ instantiated conclusion (by applying the theorem).
   Skipped (no hypothesis): C19_nl_leading_comma, C19_cl_leading_comma, C19_nlist_total, C19_spec_values_total,
   C19_spec_tuple_total. *)
From Coq Require Import Lia.
From VF Require Import Base Gen_Errors ErrTable Fmt Lexer Grammar Lists ListGrammar Lists_proofs.
From VF.NonVacuous Require Import Common.
From VF.Properties Require C19.
Import C19.
Open Scope N_scope.

(* "1.5,-2:3e2,+.25" *)
Definition num_1_5 : number := mkNumber None (bs "1") (Some (bs "5")) None.
Definition num_m2 : number := mkNumber (Some 45) (bs "2") None None.
Definition num_3e2 : number := mkNumber None (bs "3") None (Some (101, None, bs "2")).
Definition num_p25 : number := mkNumber (Some 43) [] (Some (bs "25")) None.
Definition nl_ex : list nl_ast := [NLNum num_1_5; NLRange num_m2 num_3e2; NLNum num_p25].
Lemma nl_ex_wf : forallb wf_nl_entry nl_ex = true. Proof. vm_compute. reflexivity. Qed.
Example nl_ex_text : render_nl nl_ex = bs "1.5,-2:3e2,+.25". Proof. vm_compute. reflexivity. Qed.

(* "@1!-2,3:5,'a''b'" *)
Definition cl_ex : list cl_ast := [CLSpec [1; -2]%Z; CLRange [3]%Z [5]%Z; CLPath 39 (bs "a'b")].
Lemma cl_ex_wf : forallb wf_cl_entry cl_ex = true. Proof. vm_compute. reflexivity. Qed.
Example cl_ex_text : render_cl cl_ex = bs "@1!-2,3:5,'a''b'". Proof. vm_compute. reflexivity. Qed.
(* "@1!-2,3!4:5!6" : ends with a range *)
Definition cl_ex2 : list cl_ast := [CLSpec [1; -2]%Z; CLRange [3; 4]%Z [5; 6]%Z].
Lemma cl_ex2_wf : forallb wf_cl_entry cl_ex2 = true. Proof. vm_compute. reflexivity. Qed.

Example C19_num_entries_nonvacuous :
  forallb wf_nl_entry nl_ex = true /\
  nlist_entries (render_nl nl_ex) = Val (map (fun e => IEntry (nl_denotes e)) nl_ex) /\
  map (fun e => IEntry (nl_denotes e)) nl_ex
  = [IEntry (NNum (bs "1.5")); IEntry (NRange (bs "-2") (bs "3e2")); IEntry (NNum (bs "+.25"))].
Proof. exact (conj nl_ex_wf (conj (C19_num_entries nl_ex nl_ex_wf) eq_refl)). Qed.

Example C19_chan_entries_nonvacuous :
  forallb wf_cl_entry cl_ex = true /\
  clist_entries (render_cl cl_ex) = Some (Val (map (fun e => IEntry (cl_denotes e)) cl_ex)) /\
  map (fun e => IEntry (cl_denotes e)) cl_ex
  = [IEntry (CSpec (mkSpec (bs "1!-2") 2)); IEntry (CRange (mkSpec (bs "3") 1) (mkSpec (bs "5") 1)); IEntry (CPath (bs "a''b"))].
Proof. exact (conj cl_ex_wf (conj (C19_chan_entries cl_ex cl_ex_wf) eq_refl)). Qed.

Example C19_not_a_channel_list_nonvacuous :
  let expr := bs "1!2,3" in
  (forall c, expr <> 64 :: c) /\ clist_entries expr = None.
Proof.
  intro expr. assert (h : forall c, expr <> 64 :: c) by (intros c H; vm_compute in H; discriminate H).
  exact (conj h (C19_not_a_channel_list expr h)).
Qed.

Definition vals3 : list Z := [12; -3; 0]%Z.

Example C19_spec_dims_ok_nonvacuous :
  wf_vals vals3 = true /\
  (spec_values (render_spec vals3) = Val (map Some vals3) /\ sp_dim (spec_of vals3) = length vals3
   /\ count_bang (render_spec vals3) = (length vals3 - 1)%nat) /\
  render_spec vals3 = bs "12!-3!0".
Proof. exact (conj eq_refl (conj (C19_spec_dims_ok vals3 eq_refl) eq_refl)). Qed.

Example C19_tuple_conv_nonvacuous :
  wf_vals vals3 = true /\ (length vals3 <= 3)%nat /\
  spec_to_tuple (length vals3) (spec_of vals3) = Val (Ok vals3).
Proof.
  assert (h : (length vals3 <= 3)%nat) by (cbn; lia).
  exact (conj eq_refl (conj h (C19_tuple_conv vals3 eq_refl h))).
Qed.

Example C19_tuple_conv_wrong_dimension_nonvacuous :
  wf_vals vals3 = true /\ 2%nat <> length vals3 /\ exists e, spec_to_tuple 2 (spec_of vals3) = Val (Err e).
Proof.
  assert (h : 2%nat <> length vals3) by (cbn; lia).
  exact (conj eq_refl (conj h (C19_tuple_conv_wrong_dimension vals3 2%nat eq_refl h))).
Qed.

Example C19_spec_empty_dimension_nonvacuous :
  let a := [1; -2]%Z in
  wf_vals a = true /\ spec_values (render_spec a ++ 33 :: 33 :: bs "7") = Val (map Some a ++ [None]).
Proof. intro a. exact (conj eq_refl (C19_spec_empty_dimension a (bs "7") eq_refl)). Qed.

Example C19_nl_doubled_comma_nonvacuous :
  nl_ex <> [] /\ forallb wf_nl_entry nl_ex = true /\
  exists e, nlist_entries (render_nl nl_ex ++ 44 :: 44 :: bs "7") = Val (nl_ok nl_ex ++ [IError e]).
Proof.
  assert (h : nl_ex <> []) by discriminate.
  exact (conj h (conj nl_ex_wf (C19_nl_doubled_comma nl_ex (bs "7") h nl_ex_wf))).
Qed.

Example C19_nl_missing_separator_nonvacuous :
  let y := 32 in
  nl_ex <> [] /\ forallb wf_nl_entry nl_ex = true /\ (y = 45 \/ y = 43 \/ y = 32) /\
  exists e, nlist_entries (render_nl nl_ex ++ y :: bs "7") = Val (nl_ok nl_ex ++ [IError e]).
Proof.
  intro y.
  assert (h : nl_ex <> []) by discriminate.
  assert (h3 : y = 45 \/ y = 43 \/ y = 32) by (right; right; reflexivity).
  exact (conj h (conj nl_ex_wf (conj h3 (C19_nl_missing_separator nl_ex y (bs "7") h nl_ex_wf h3)))).
Qed.

(* "1.5,-2:3e2:4" *)
Example C19_nl_third_range_end_nonvacuous :
  let l := [NLNum num_1_5] in
  forallb wf_nl_entry (l ++ [NLRange num_m2 num_3e2]) = true /\
  exists e, nlist_entries (render_nl (l ++ [NLRange num_m2 num_3e2]) ++ 58 :: bs "4")
            = Val (nl_ok (l ++ [NLRange num_m2 num_3e2]) ++ [IError e]).
Proof.
  intro l.
  assert (h : forallb wf_nl_entry (l ++ [NLRange num_m2 num_3e2]) = true) by (vm_compute; reflexivity).
  exact (conj h (C19_nl_third_range_end l num_m2 num_3e2 (bs "4") h)).
Qed.

Example C19_cl_doubled_comma_nonvacuous :
  cl_ex <> [] /\ forallb wf_cl_entry cl_ex = true /\
  exists e, clist_entries (render_cl cl_ex ++ 44 :: 44 :: bs "7") = Some (Val (cl_ok cl_ex ++ [IError e])).
Proof.
  assert (h : cl_ex <> []) by discriminate.
  exact (conj h (conj cl_ex_wf (C19_cl_doubled_comma cl_ex (bs "7") h cl_ex_wf))).
Qed.

(* "@1!-2,3!4:5!6:7" *)
Example C19_cl_third_range_end_nonvacuous :
  let l := [CLSpec [1; -2]%Z] in let a := [3; 4]%Z in let b := [5; 6]%Z in
  forallb wf_cl_entry (l ++ [CLRange a b]) = true /\
  exists e, clist_entries (render_cl (l ++ [CLRange a b]) ++ 58 :: bs "7")
            = Some (Val (cl_ok (l ++ [CLRange a b]) ++ [IError e])).
Proof.
  intros l a b.
  assert (h : forallb wf_cl_entry (l ++ [CLRange a b]) = true) by (vm_compute; reflexivity).
  exact (conj h (C19_cl_third_range_end l a b (bs "7") h)).
Qed.

(* "@1!-2,3:5,'a''b',1!2:3" : a range whose ends have 2 and 1 dimensions *)
Example C19_cl_unequal_dimensions_nonvacuous :
  let a := [1; 2]%Z in let b := [3]%Z in
  forallb wf_cl_entry cl_ex = true /\ wf_vals a = true /\ wf_vals b = true /\ length a <> length b /\
  exists e, clist_entries (render_cl cl_ex ++ (match cl_ex with [] => [] | _ => [44] end)
                           ++ render_spec a ++ 58 :: render_spec b)
            = Some (Val (cl_ok cl_ex ++ [IError e])).
Proof.
  intros a b.
  assert (h : length a <> length b) by (cbn; lia).
  exact (conj cl_ex_wf (conj eq_refl (conj eq_refl (conj h (C19_cl_unequal_dimensions cl_ex a b cl_ex_wf eq_refl eq_refl h))))).
Qed.

(* the list ends with a path name ('a''b') and is followed by "x": the premise about [last l] is used *)
Example C19_cl_foreign_character_nonvacuous :
  let y := 120 in
  forallb wf_cl_entry cl_ex = true /\
  is_spec_char y = false /\ (y =? 44) = false /\ (y =? 58) = false /\ (y =? 34) = false /\ (y =? 39) = false /\
  (forall v vs, last cl_ex (CLSpec [0%Z]) = CLPath v vs -> is_ws y = false) /\
  exists items e, clist_entries (render_cl cl_ex ++ y :: bs "7") = Some (Val (items ++ [IError e])) /\
    ((forall v vs, last cl_ex (CLSpec [0%Z]) <> CLPath v vs) -> items = cl_ok cl_ex).
Proof.
  intro y.
  assert (h : forall v vs, last cl_ex (CLSpec [0%Z]) = CLPath v vs -> is_ws y = false) by (intros; reflexivity).
  exact (conj cl_ex_wf (conj eq_refl (conj eq_refl (conj eq_refl (conj eq_refl (conj eq_refl (conj h
    (C19_cl_foreign_character cl_ex y (bs "7") cl_ex_wf eq_refl eq_refl eq_refl eq_refl eq_refl h)))))))).
Qed.
(* ... and a list that ends with a range, followed by a blank: the other reading of that premise, and the
   side condition of the conclusion holds, so all entries are delivered *)
Example C19_cl_foreign_character_nonvacuous2 :
  let y := 32 in
  forallb wf_cl_entry cl_ex2 = true /\
  (forall v vs, last cl_ex2 (CLSpec [0%Z]) = CLPath v vs -> is_ws y = false) /\
  (forall v vs, last cl_ex2 (CLSpec [0%Z]) <> CLPath v vs) /\
  exists items e, clist_entries (render_cl cl_ex2 ++ y :: bs "7") = Some (Val (items ++ [IError e])) /\
    ((forall v vs, last cl_ex2 (CLSpec [0%Z]) <> CLPath v vs) -> items = cl_ok cl_ex2).
Proof.
  intro y.
  assert (h : forall v vs, last cl_ex2 (CLSpec [0%Z]) = CLPath v vs -> is_ws y = false) by (intros v vs H; discriminate H).
  assert (h' : forall v vs, last cl_ex2 (CLSpec [0%Z]) <> CLPath v vs) by (intros v vs H; discriminate H).
  exact (conj cl_ex2_wf (conj h (conj h'
    (C19_cl_foreign_character cl_ex2 y (bs "7") cl_ex2_wf eq_refl eq_refl eq_refl eq_refl eq_refl h)))).
Qed.

Example C19_cl_foreign_character_exact_nonvacuous :
  let y := 120 in
  forallb wf_cl_entry cl_ex = true /\
  is_spec_char y = false /\ (y =? 44) = false /\ (y =? 58) = false /\ (y =? 34) = false /\ (y =? 39) = false /\
  (forall v vs, last cl_ex (CLSpec [0%Z]) = CLPath v vs -> is_ws y = false) /\
  (exists e, clist_entries (render_cl cl_ex ++ y :: bs "7") = Some (Val (cl_ok (path_cut cl_ex y) ++ [IError e]))) /\
  path_cut cl_ex y = [CLSpec [1; -2]%Z; CLRange [3]%Z [5]%Z].
Proof.
  intro y.
  assert (h : forall v vs, last cl_ex (CLSpec [0%Z]) = CLPath v vs -> is_ws y = false) by (intros; reflexivity).
  exact (conj cl_ex_wf (conj eq_refl (conj eq_refl (conj eq_refl (conj eq_refl (conj eq_refl (conj h (conj
    (C19_cl_foreign_character_exact cl_ex y (bs "7") cl_ex_wf eq_refl eq_refl eq_refl eq_refl eq_refl h) eq_refl)))))))).
Qed.

Example C19_clist_total_nonvacuous :
  let expr := bs "@1!2,3:5,'a',x" in
  let r := Val [IEntry (CSpec (mkSpec (bs "1!2") 2)); IEntry (CRange (mkSpec (bs "3") 1) (mkSpec (bs "5") 1));
                IEntry (CPath (bs "a")); IError (std_error InvalidExpression)] in
  clist_entries expr = Some r /\ exists l, r = Val l.
Proof.
  intros expr r.
  assert (h : clist_entries expr = Some r) by (vm_compute; reflexivity).
  exact (conj h (C19_clist_total expr r h)).
Qed.

Print Assumptions C19_num_entries_nonvacuous.
Print Assumptions C19_chan_entries_nonvacuous.
Print Assumptions C19_cl_foreign_character_nonvacuous.
Print Assumptions C19_cl_unequal_dimensions_nonvacuous.
