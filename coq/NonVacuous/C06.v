(* NonVacuous/C06.v — every C06 theorem (all have hypotheses), on concrete token streams and the example tree.
   Each example: hypotheses /\ instantiated conclusion (the conclusion by applying the theorem).
   Skipped: none. *)
From VF Require Import Base Gen_Errors Lexer Response Tree Tree_proofs Scripted.
From VF.NonVacuous Require Import Common.
From VF.Properties Require C06.
Import C06.
Open Scope N_scope.

(* the parameter part of "X 1,'a';Y" after the first datum was taken: ",'a';Y" *)
Definition after_first : list titem := [IOk TDataSeparator; IOk (TString (bs "a")); IOk TUnitSeparator; IOk (TMnemonic (bs "Y"))].
Definition unit_end : list titem := [IOk TUnitSeparator; IOk (TMnemonic (bs "Y"))].

Example C06_pull_only_data_nonvacuous :
  next_optional_token after_first = (Got (TString (bs "a")), unit_end) /\ is_data (TString (bs "a")) = true.
Proof. exact (conj eq_refl (C06_pull_only_data after_first _ _ eq_refl)). Qed.

Example C06_pull_req_only_data_nonvacuous :
  next_token after_first = (Got (TString (bs "a")), unit_end) /\ is_data (TString (bs "a")) = true.
Proof. exact (conj eq_refl (C06_pull_req_only_data after_first _ _ eq_refl)). Qed.

Example C06_pull_consumes_only_data_nonvacuous :
  next_optional_token after_first = (Got (TString (bs "a")), unit_end) /\
  exists used, after_first = used ++ unit_end /\ Forall data_or_sep used.
Proof. exact (conj eq_refl (C06_pull_consumes_only_data after_first _ _ eq_refl)). Qed.

(* a trailing comma: the separator is consumed, then nothing follows -> -109 *)
Example C06_pull_req_consumes_only_data_nonvacuous :
  let toks := IOk TDataSeparator :: unit_end in
  next_token toks = (Failed (std_error MissingParameter), unit_end) /\
  exists used, toks = used ++ unit_end /\ Forall data_or_sep used.
Proof. intro toks. exact (conj eq_refl (C06_pull_req_consumes_only_data toks _ _ eq_refl)). Qed.

Example C06_pull_first_datum_nonvacuous :
  let d := TDecSuffix (bs "1.5") (bs "mV") in
  is_data d = true /\
  next_optional_token (IOk d :: after_first) = (Got d, after_first) /\ next_token (IOk d :: after_first) = (Got d, after_first).
Proof. intro d. exact (conj eq_refl (C06_pull_first_datum d after_first eq_refl)). Qed.

Example C06_pull_next_datum_nonvacuous :
  let d := TBlock (bs "hello") in
  is_data d = true /\
  next_optional_token (IOk TDataSeparator :: IOk d :: unit_end) = (Got d, unit_end) /\
  next_token (IOk TDataSeparator :: IOk d :: unit_end) = (Got d, unit_end).
Proof. intro d. exact (conj eq_refl (C06_pull_next_datum d unit_end eq_refl)). Qed.

Example C06_pull_at_unit_end_nonvacuous :
  (unit_end = [] \/ exists r, unit_end = IOk TUnitSeparator :: r) /\
  next_optional_token unit_end = (Absent, unit_end) /\
  next_token unit_end = (Failed (std_error MissingParameter), unit_end).
Proof.
  assert (h : unit_end = [] \/ exists r, unit_end = IOk TUnitSeparator :: r) by (right; eexists; reflexivity).
  exact (conj h (C06_pull_at_unit_end unit_end h)).
Qed.

(* a query handler that asks for three data (one required, two optional) on "X 1,'a';Y": it gets two and Absent,
   and the next unit's tokens are untouched *)
Example C06_handler_stays_in_unit_nonvacuous :
  let p := script_prog [SPull true false; SPull false false; SPull false false; SHdr (bs "H"); SData (RInt 7)] [] in
  let toks := IOk (TDec (bs "1")) :: after_first in
  run_prog p toks (mkFmt None (bs "0")) (Some runit_new)
  = (unit_end, [LTok (TDec (bs "1")); LTok (TString (bs "a")); LAbsent], mkFmt None (bs "0H 7"), None) /\
  exists used, toks = used ++ unit_end /\ Forall data_or_sep used.
Proof.
  intros p toks.
  assert (h : run_prog p toks (mkFmt None (bs "0")) (Some runit_new)
    = (unit_end, [LTok (TDec (bs "1")); LTok (TString (bs "a")); LAbsent], mkFmt None (bs "0H 7"), None))
    by (vm_compute; reflexivity).
  exact (conj h (C06_handler_stays_in_unit p toks _ _ _ _ _ _ h)).
Qed.

(* "RANG 5 , #B101;LEV?" in the context VOLTage: the handler takes one (optional, typed) datum; the data
   separator and a second datum are left over -> -108, LEV? is never run *)
Example C06_leftover_is_108_nonvacuous :
  let s := mkX (toks_of_text "RANG 5 , #B101;LEV?") ([] : slog) f0 [] in
  let rest := [IOk (TNonDec 5); IOk TUnitSeparator; IOk (TMnemonic (bs "LEV")); IOk THeaderQuerySuffix] in
  let s' := mkX (IOk TDataSeparator :: rest) [LCall 3 false; LTyped] f0 [(3, false, [])] in
  unit_body ex_tree t_volt s = UExec (XOk t_volt s') /\ x_toks s' = IOk TDataSeparator :: rest /\
  (is_data TDataSeparator = true \/ TDataSeparator = TDataSeparator) /\
  unit_loop 9 ex_tree t_volt s = Val (with_toks s' rest, Some (std_error ParameterNotAllowed)).
Proof.
  intros s rest s'.
  assert (h : unit_body ex_tree t_volt s = UExec (XOk t_volt s')) by reflexivity.
  exact (conj h (conj eq_refl (conj (or_intror eq_refl)
    (C06_leftover_is_108 8 ex_tree t_volt s t_volt s' TDataSeparator rest h eq_refl (or_intror eq_refl))))).
Qed.

(* ... and the other disjunct, [is_data tok = true]: a handler that takes no parameter at all on "GO 'x';GO" *)
Example C06_leftover_is_108_nonvacuous_datum :
  let c := scripted 9 [SRetOk] [] in
  let root := Branch [] false [Leaf (bs "GO") false c] in
  let rest := [IOk TUnitSeparator; IOk (TMnemonic (bs "GO"))] in
  let s := mkX (IOk (TMnemonic (bs "GO")) :: IOk THeaderSeparator :: IOk (TString (bs "x")) :: rest) ([] : slog) f0 [] in
  let s' := mkX (IOk (TString (bs "x")) :: rest) [LCall 9 false] f0 [(9, false, [])] in
  unit_body root root s = UExec (XOk root s') /\ x_toks s' = IOk (TString (bs "x")) :: rest /\
  (is_data (TString (bs "x")) = true \/ TString (bs "x") = TDataSeparator) /\
  unit_loop 6 root root s = Val (with_toks s' rest, Some (std_error ParameterNotAllowed)).
Proof.
  intros c root rest s s'.
  assert (h : unit_body root root s = UExec (XOk root s')) by reflexivity.
  exact (conj h (conj eq_refl (conj (or_introl eq_refl)
    (C06_leftover_is_108 5 root root s root s' (TString (bs "x")) rest h eq_refl (or_introl eq_refl))))).
Qed.

Print Assumptions C06_pull_consumes_only_data_nonvacuous.
Print Assumptions C06_handler_stays_in_unit_nonvacuous.
Print Assumptions C06_leftover_is_108_nonvacuous.
