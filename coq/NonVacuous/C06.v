(* NonVacuous/C06.v — every C06 theorem (all have hypotheses), on concrete token streams and the example tree.
   Each example: hypotheses /\ instantiated conclusion (the conclusion by applying the theorem).
   C06_message_semantics and C06_spec_prog_consumes_prefix are instantiated on the messages of CommonMsg.v (end of the file).
   Skipped: none. *)
From VF Require Import Base Gen_Errors Lexer Grammar Response Tree Tree_proofs HeaderSpec Scripted MessageSpec.
From VF.NonVacuous Require Import Common CommonMsg.
From VF.Properties Require C06.
Import C06.
Open Scope N_scope.

(* the parameter part of "X 1,'a';Y" after the first datum was taken: ",'a';Y" *)
Definition after_first : list titem := [IOk TDataSeparator; IOk (TString (bs "a")); IOk TUnitSeparator; IOk (TMnemonic (bs "Y"))].
Definition unit_end : list titem := [IOk TUnitSeparator; IOk (TMnemonic (bs "Y"))].

Example C06_pull_only_data_nonvacuous :
  next_optional_token after_first = (Got (TString (bs "a")), unit_end) /\ is_data (TString (bs "a")) = true.
Proof. exact (conj eq_refl (C06_pull_only_data after_first _ _ eq_refl)). Qed.

Example C06_pull_req_only_data_nonvacuous :
  next_token after_first = (Got (TString (bs "a")), unit_end) /\ is_data (TString (bs "a")) = true.
Proof. exact (conj eq_refl (C06_pull_req_only_data after_first _ _ eq_refl)). Qed.

Example C06_pull_consumes_only_data_nonvacuous :
  next_optional_token after_first = (Got (TString (bs "a")), unit_end) /\
  exists used, after_first = used ++ unit_end /\ Forall data_or_sep used.
Proof. exact (conj eq_refl (C06_pull_consumes_only_data after_first _ _ eq_refl)). Qed.

(* a trailing comma: the separator is consumed, then nothing follows -> -109 *)
Example C06_pull_req_consumes_only_data_nonvacuous :
  let toks := IOk TDataSeparator :: unit_end in
  next_token toks = (Failed (std_error MissingParameter), unit_end) /\
  exists used, toks = used ++ unit_end /\ Forall data_or_sep used.
Proof. intro toks. exact (conj eq_refl (C06_pull_req_consumes_only_data toks _ _ eq_refl)). Qed.

Example C06_pull_first_datum_nonvacuous :
  let d := TDecSuffix (bs "1.5") (bs "mV") in
  is_data d = true /\
  next_optional_token (IOk d :: after_first) = (Got d, after_first) /\ next_token (IOk d :: after_first) = (Got d, after_first).
Proof. intro d. exact (conj eq_refl (C06_pull_first_datum d after_first eq_refl)). Qed.

Example C06_pull_next_datum_nonvacuous :
  let d := TBlock (bs "hello") in
  is_data d = true /\
  next_optional_token (IOk TDataSeparator :: IOk d :: unit_end) = (Got d, unit_end) /\
  next_token (IOk TDataSeparator :: IOk d :: unit_end) = (Got d, unit_end).
Proof. intro d. exact (conj eq_refl (C06_pull_next_datum d unit_end eq_refl)). Qed.

Example C06_pull_at_unit_end_nonvacuous :
  (unit_end = [] \/ exists r, unit_end = IOk TUnitSeparator :: r) /\
  next_optional_token unit_end = (Absent, unit_end) /\
  next_token unit_end = (Failed (std_error MissingParameter), unit_end).
Proof.
  assert (h : unit_end = [] \/ exists r, unit_end = IOk TUnitSeparator :: r) by (right; eexists; reflexivity).
  exact (conj h (C06_pull_at_unit_end unit_end h)).
Qed.

(* a query handler that asks for three data (one required, two optional) on "X 1,'a';Y": it gets two and Absent,
   and the next unit's tokens are untouched *)
Example C06_handler_stays_in_unit_nonvacuous :
  let p := script_prog [SPull true false; SPull false false; SPull false false; SHdr (bs "H"); SData (RInt 7)] [] in
  let toks := IOk (TDec (bs "1")) :: after_first in
  run_prog p toks (mkFmt None (bs "0")) (Some runit_new)
  = (unit_end, [LTok (TDec (bs "1")); LTok (TString (bs "a")); LAbsent], mkFmt None (bs "0H 7"), None) /\
  exists used, toks = used ++ unit_end /\ Forall data_or_sep used.
Proof.
  intros p toks.
  assert (h : run_prog p toks (mkFmt None (bs "0")) (Some runit_new)
    = (unit_end, [LTok (TDec (bs "1")); LTok (TString (bs "a")); LAbsent], mkFmt None (bs "0H 7"), None))
    by (vm_compute; reflexivity).
  exact (conj h (C06_handler_stays_in_unit p toks _ _ _ _ _ _ h)).
Qed.

(* "RANG 5 , #B101;LEV?" in the context VOLTage: the handler takes one (optional, typed) datum; the data
   separator and a second datum are left over -> -108, LEV? is never run *)
Example C06_leftover_is_108_nonvacuous :
  let s := mkX (toks_of_text "RANG 5 , #B101;LEV?") ([] : slog) f0 [] in
  let rest := [IOk (TNonDec 5); IOk TUnitSeparator; IOk (TMnemonic (bs "LEV")); IOk THeaderQuerySuffix] in
  let s' := mkX (IOk TDataSeparator :: rest) [LCall 3 false; LTyped] f0 [(3, false, [])] in
  unit_body ex_tree t_volt s = UExec (XOk t_volt s') /\ x_toks s' = IOk TDataSeparator :: rest /\
  (is_data TDataSeparator = true \/ TDataSeparator = TDataSeparator) /\
  unit_loop 9 ex_tree t_volt s = Val (with_toks s' rest, Some (std_error ParameterNotAllowed)).
Proof.
  intros s rest s'.
  assert (h : unit_body ex_tree t_volt s = UExec (XOk t_volt s')) by reflexivity.
  exact (conj h (conj eq_refl (conj (or_intror eq_refl)
    (C06_leftover_is_108 8 ex_tree t_volt s t_volt s' TDataSeparator rest h eq_refl (or_intror eq_refl))))).
Qed.

(* ... and the other disjunct, [is_data tok = true]: a handler that takes no parameter at all on "GO 'x';GO" *)
Example C06_leftover_is_108_nonvacuous_datum :
  let c := scripted 9 [SRetOk] [] in
  let root := Branch [] false [Leaf (bs "GO") false c] in
  let rest := [IOk TUnitSeparator; IOk (TMnemonic (bs "GO"))] in
  let s := mkX (IOk (TMnemonic (bs "GO")) :: IOk THeaderSeparator :: IOk (TString (bs "x")) :: rest) ([] : slog) f0 [] in
  let s' := mkX (IOk (TString (bs "x")) :: rest) [LCall 9 false] f0 [(9, false, [])] in
  unit_body root root s = UExec (XOk root s') /\ x_toks s' = IOk (TString (bs "x")) :: rest /\
  (is_data (TString (bs "x")) = true \/ TString (bs "x") = TDataSeparator) /\
  unit_loop 6 root root s = Val (with_toks s' rest, Some (std_error ParameterNotAllowed)).
Proof.
  intros c root rest s s'.
  assert (h : unit_body root root s = UExec (XOk root s')) by reflexivity.
  exact (conj h (conj eq_refl (conj (or_introl eq_refl)
    (C06_leftover_is_108 5 root root s root s' (TString (bs "x")) rest h eq_refl (or_introl eq_refl))))).
Qed.

Print Assumptions C06_pull_consumes_only_data_nonvacuous.
Print Assumptions C06_handler_stays_in_unit_nonvacuous.
Print Assumptions C06_leftover_is_108_nonvacuous.

(* ------------------------------------------------------------------ *)
(* the theorems about the message specification, on the messages of CommonMsg.v *)
(* ------------------------------------------------------------------ *)
(* "*IDN?;:SOUR:VOLT:RANG 5 , #B101;LEV?": the second unit carries TWO data elements; its handler is offered exactly
   those two, takes one (LTyped in the device log), the other is left over: -108 after the handler has run; the third
   unit is not executed *)
Example C06_message_semantics_nonvacuous :
  wf_tree ex_tree /\ wf_msg m_108 = true /\
  run ex_tree (render_msg m_108) [] f0 = Val (spec_message ex_tree m_108 [] f0) /\
  render_msg m_108 = bs "*IDN?;:SOUR:VOLT:RANG 5 , #B101;LEV?" /\
  unit_data q2 = [TDec (bs "5"); TNonDec 5] /\
  spec_message ex_tree m_108 [] f0 = m_108_result /\
  r_err m_108_result = Some (std_error ParameterNotAllowed) /\ r_out m_108_result = bs "ACME,42" /\
  r_dev m_108_result = [LCall 1 true; LCall 3 false; LTyped] /\ length (r_trace m_108_result) = 2%nat.
Proof.
  exact (conj ex_tree_wf (conj m_108_wf (conj (C06_message_semantics ex_tree m_108 [] f0 ex_tree_wf m_108_wf)
    (conj m_108_text (conj q2_data (conj m_108_spec (conj eq_refl (conj eq_refl (conj eq_refl eq_refl))))))))).
Qed.

(* seven units, three of them with one data element each; every handler sees its own unit's element (the device log
   has LTyped / LTok (TNonDec 5) / LTyped after the calls 3, 2 and 4) and the message succeeds *)
Example C06_message_semantics_nonvacuous_ok :
  wf_tree ex_tree /\ wf_msg m_ok = true /\
  run ex_tree (render_msg m_ok) [] f0 = Val (spec_message ex_tree m_ok [] f0) /\
  render_msg m_ok = bs " :SOURce:VOLT:RANG 7 ;lev?;*IDN? ; RANG?;LEV #H5;:sour:FREQ  -1.50E+3 ; :syst:version?" ++ [10] /\
  spec_message ex_tree m_ok [] f0 = m_ok_result /\
  r_err m_ok_result = None /\ r_out m_ok_result = bs "5;ACME,42;""AUTO"";VERS 1999.0" ++ [10] /\
  r_dev m_ok_result = [LCall 3 false; LTyped; LCall 2 true; LCall 1 true; LCall 3 true; LCall 2 false; LTok (TNonDec 5);
                       LCall 4 false; LTyped; LCall 5 true] /\
  length (r_trace m_ok_result) = 7%nat.
Proof.
  exact (conj ex_tree_wf (conj m_ok_wf (conj (C06_message_semantics ex_tree m_ok [] f0 ex_tree_wf m_ok_wf)
    (conj m_ok_text (conj m_ok_spec (conj eq_refl (conj eq_refl (conj eq_refl eq_refl)))))))).
Qed.

(* the second unit is undefined in its context (-113): no handler is invoked for it, nothing is pulled *)
Example C06_message_semantics_nonvacuous_undefined :
  wf_tree ex_tree /\ wf_msg m_113 = true /\
  run ex_tree (render_msg m_113) [] f0 = Val (spec_message ex_tree m_113 [] f0) /\
  render_msg m_113 = bs ":VOLT:RANG?;FREQ 1;*IDN?" /\
  spec_message ex_tree m_113 [] f0 = m_113_result /\
  r_err m_113_result = Some (std_error UndefinedHeader) /\ r_dev m_113_result = [LCall 3 true] /\
  length (r_trace m_113_result) = 1%nat.
Proof.
  exact (conj ex_tree_wf (conj m_113_wf (conj (C06_message_semantics ex_tree m_113 [] f0 ex_tree_wf m_113_wf)
    (conj m_113_text (conj m_113_spec (conj eq_refl (conj eq_refl eq_refl))))))).
Qed.

(* the handler program of that second unit (the event form of RANGe) against the unit's two data elements: it
   consumes the first and returns the second *)
Example C06_spec_prog_consumes_prefix_nonvacuous :
  let data := unit_data q2 in
  let rest := [TNonDec 5] in
  data = [TDec (bs "5"); TNonDec 5] /\
  spec_prog (ev c_rng [LCall 1 true]) data (mkFmt None (bs "ACME,42")) None
  = (rest, [LCall 1 true; LCall 3 false; LTyped], mkFmt None (bs "ACME,42"), None) /\
  exists used, data = used ++ rest.
Proof.
  intros data rest.
  assert (h : spec_prog (ev c_rng [LCall 1 true]) data (mkFmt None (bs "ACME,42")) None
    = (rest, [LCall 1 true; LCall 3 false; LTyped], mkFmt None (bs "ACME,42"), None)) by (vm_compute; reflexivity).
  exact (conj q2_data (conj h (C06_spec_prog_consumes_prefix _ data _ None rest _ _ _ h))).
Qed.
(* ... a query program that pulls nothing ("SYST:VERS? MAX" after "*IDN?"): everything is returned, the answer is
   appended to the response *)
Example C06_spec_prog_consumes_prefix_nonvacuous_query :
  let data := [TChar (bs "MAX")] in
  spec_prog (qu c_ver [LCall 1 true]) data (mkFmt None (bs "ACME,42;")) (Some runit_new)
  = (data, [LCall 1 true; LCall 5 true], mkFmt None (bs "ACME,42;VERS 1999.0"), None) /\
  exists used, data = used ++ data.
Proof.
  intro data.
  assert (h : spec_prog (qu c_ver [LCall 1 true]) data (mkFmt None (bs "ACME,42;")) (Some runit_new)
    = (data, [LCall 1 true; LCall 5 true], mkFmt None (bs "ACME,42;VERS 1999.0"), None)) by (vm_compute; reflexivity).
  exact (conj h (C06_spec_prog_consumes_prefix _ data _ _ data _ _ _ h)).
Qed.
(* ... and a program that asks for more than there is: a required pull on an empty unit fails with -109 *)
Example C06_spec_prog_consumes_prefix_nonvacuous_missing :
  spec_prog (ev c_lev []) [] f0 None
  = ([], [LCall 2 false; LPullErr MissingParameter], f0, Some (std_error MissingParameter)) /\
  exists used, ([] : list token) = used ++ [].
Proof.
  assert (h : spec_prog (ev c_lev []) [] f0 None
    = ([], [LCall 2 false; LPullErr MissingParameter], f0, Some (std_error MissingParameter))) by (vm_compute; reflexivity).
  exact (conj h (C06_spec_prog_consumes_prefix _ [] _ _ [] _ _ _ h)).
Qed.

Print Assumptions C06_message_semantics_nonvacuous.
Print Assumptions C06_message_semantics_nonvacuous_ok.
Print Assumptions C06_message_semantics_nonvacuous_undefined.
Print Assumptions C06_spec_prog_consumes_prefix_nonvacuous.
Print Assumptions C06_spec_prog_consumes_prefix_nonvacuous_query.
Print Assumptions C06_spec_prog_consumes_prefix_nonvacuous_missing.
