(* NonVacuous/C13.v — every C13 theorem with a hypothesis, on concrete device states and messages.
   Each example: hypotheses /\ instantiated conclusion (by applying the theorem).
   The equivalence C13_full_stack_refines_iff is exemplified in both directions.
   Skipped (no implication premise): C13_syst_err_next, C13_syst_err_count, C13_syst_err_all, C13_esr_read_clears. *)
From VF Require Import Base Gen_Errors ErrSpec Status Status_proofs Contrib ContribSpec Contrib_proofs.
From VF.NonVacuous Require Import Common CommonDev.
From VF.Properties Require C13.
Import C13.
Open Scope N_scope.

Definition e_old : error := std_error CommandError.
Definition e_new : error := ext_error DataOutOfRange (bs "ch 2").
Definition d0 : dev := set_queue dev_init [e_old].

(* "*ESE 32;*ESE?;<a unit failing with -222>;*ESE 1" *)
Example C13_fail_queues_once_nonvacuous :
  let us := [SWrEse 32; SRdEse; SFail e_new; SWrEse 1] in
  let d' := push_error (set_ese d0 32) e_new in
  let out := [[RNum 7]; [RNum 32]] in
  msg_run false d0 us [[RNum 7]] = (d', out, Some e_new) /\
  (exists pre post d1, us = pre ++ post /\ msg_run false d0 pre [[RNum 7]] = (d1, out, None)
    /\ (exists o, hd_error post = Some o /\ snd (sop_step false d1 o) = Some e_new
          /\ let d2 := fst (fst (sop_step false d1 o)) in
             queue d' = queue d2 ++ [e_new] /\ esr d' = N.lor (esr d2) (class_bit (ecode e_new))
             /\ ese d' = ese d2 /\ sre d' = sre d2 /\ oper d' = oper d2 /\ ques d' = ques d2)) /\
  queue d' = [e_old; e_new] /\ esr d' = 16.
Proof.
  intros us d' out.
  exact (conj eq_refl (conj (C13_fail_queues_once false us d0 [[RNum 7]] d' out e_new eq_refl) (conj eq_refl eq_refl))).
Qed.

(* ":SYST:ERR?;*ESR?;*SRE 4;*STB?" on a device with two queued errors and ESR = 48 *)
Example C13_ok_queues_nothing_nonvacuous :
  let d := set_esr (set_queue dev_init [e_old; e_new]) 48 in
  let us := [SErrNext; SRdEsr; SWrSre 4; SRdStb] in
  let d' := set_sre (set_esr (set_queue d [e_new]) 0) 4 in
  let out := [[RErr e_old]; [RNum 48]; [RNum 84]] in
  forallb quiet us = true /\ msg_run true d us [] = (d', out, None) /\
  (is_suffix (queue d') (queue d) /\ (forall i, N.testbit (esr d') i = true -> N.testbit (esr d) i = true)).
Proof.
  intros d us d' out.
  exact (conj eq_refl (conj eq_refl (C13_ok_queues_nothing true us d [] d' out eq_refl eq_refl))).
Qed.

(* the full stack (bytes -> lexer -> dispatcher -> handlers -> formatter -> error hook) on the session of CommonDev.v *)
Example C13_full_stack_refines_nonvacuous :
  forallb (fun m => forallb renderable (snd m)) ex_msgs = true /\ forallb renderable ex_us = true /\
  dev_message (session_ops dev_init ex_msgs) true (units_text ex_us)
  = Val (op_message (session_ops dev_init ex_msgs) true ex_us) /\
  op_message (session_ops dev_init ex_msgs) true ex_us = (ex_final, bs "32;5;0;80", Some (std_error DataOutOfRange)).
Proof.
  exact (conj ex_msgs_renderable (conj ex_us_renderable
    (conj (C13_full_stack_refines ex_msgs true ex_us ex_msgs_renderable ex_us_renderable) ex_op_message))).
Qed.

(* the equivalence: it holds in the final state of the session (one standard error queued), and fails in a state whose
   queue holds a custom error with a non-ASCII message and no extended text *)
Example C13_full_stack_refines_iff_nonvacuous :
  let d_bad := set_queue dev_init [mkError 101%Z (Some [233]) None] in
  queue_printable ex_final = true /\
  (forall mav us, forallb renderable us = true -> dev_message ex_final mav (units_text us) = Val (op_message ex_final mav us)) /\
  queue_printable d_bad = false /\
  ~ (forall mav us, forallb renderable us = true -> dev_message d_bad mav (units_text us) = Val (op_message d_bad mav us)).
Proof.
  intro d_bad.
  split; [reflexivity|]. split; [exact (proj2 (C13_full_stack_refines_iff ex_final) eq_refl)|].
  split; [reflexivity|]. intro H. apply (proj1 (C13_full_stack_refines_iff d_bad)) in H. discriminate H.
Qed.

Print Assumptions C13_fail_queues_once_nonvacuous.
Print Assumptions C13_ok_queues_nothing_nonvacuous.
Print Assumptions C13_full_stack_refines_nonvacuous.
