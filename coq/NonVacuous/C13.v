(* NonVacuous/C13.v — every C13 theorem with a hypothesis, on concrete device states and messages.
   Each example: hypotheses /\ instantiated conclusion (by applying the theorem).
   The equivalence C13_full_stack_refines_iff is exemplified in both directions.
   C13_full_stack_all_messages / _exact are instantiated on the message ASTs of CommonDev.v (end of the file);
   the equivalence of _exact is exemplified for both values of stray_separator.
   Skipped (no implication premise): C13_syst_err_next, C13_syst_err_count, C13_syst_err_all, C13_esr_read_clears. *)
From VF Require Import Base Gen_Errors ErrSpec Status Status_proofs Contrib ContribSpec Contrib_proofs Grammar MessageSpec ContribMeaning.
From VF.NonVacuous Require Import Common CommonDev.
From VF.Properties Require C13.
Import C13.
Open Scope N_scope.

Definition e_old : error := std_error CommandError.
Definition e_new : error := ext_error DataOutOfRange (bs "ch 2").
Definition d0 : dev := set_queue dev_init [e_old].

(* "*ESE 32;*ESE?;<a unit failing with -222>;*ESE 1" *)
Example C13_fail_queues_once_nonvacuous :
  let us := [SWrEse 32; SRdEse; SFail e_new; SWrEse 1] in
  let d' := push_error (set_ese d0 32) e_new in
  let out := [[RNum 7]; [RNum 32]] in
  msg_run false d0 us [[RNum 7]] = (d', out, Some e_new) /\
  (exists pre post d1, us = pre ++ post /\ msg_run false d0 pre [[RNum 7]] = (d1, out, None)
    /\ (exists o, hd_error post = Some o /\ snd (sop_step false d1 o) = Some e_new
          /\ let d2 := fst (fst (sop_step false d1 o)) in
             queue d' = queue d2 ++ [e_new] /\ esr d' = N.lor (esr d2) (class_bit (ecode e_new))
             /\ ese d' = ese d2 /\ sre d' = sre d2 /\ oper d' = oper d2 /\ ques d' = ques d2)) /\
  queue d' = [e_old; e_new] /\ esr d' = 16.
Proof.
  intros us d' out.
  exact (conj eq_refl (conj (C13_fail_queues_once false us d0 [[RNum 7]] d' out e_new eq_refl) (conj eq_refl eq_refl))).
Qed.

(* ":SYST:ERR?;*ESR?;*SRE 4;*STB?" on a device with two queued errors and ESR = 48 *)
Example C13_ok_queues_nothing_nonvacuous :
  let d := set_esr (set_queue dev_init [e_old; e_new]) 48 in
  let us := [SErrNext; SRdEsr; SWrSre 4; SRdStb] in
  let d' := set_sre (set_esr (set_queue d [e_new]) 0) 4 in
  let out := [[RErr e_old]; [RNum 48]; [RNum 84]] in
  forallb quiet us = true /\ msg_run true d us [] = (d', out, None) /\
  (is_suffix (queue d') (queue d) /\ (forall i, N.testbit (esr d') i = true -> N.testbit (esr d) i = true)).
Proof.
  intros d us d' out.
  exact (conj eq_refl (conj eq_refl (C13_ok_queues_nothing true us d [] d' out eq_refl eq_refl))).
Qed.

(* the full stack (bytes -> lexer -> dispatcher -> handlers -> formatter -> error hook) on the session of CommonDev.v *)
Example C13_full_stack_refines_nonvacuous :
  forallb (fun m => forallb renderable (snd m)) ex_msgs = true /\ forallb renderable ex_us = true /\
  dev_message (session_ops dev_init ex_msgs) true (units_text ex_us)
  = Val (op_message (session_ops dev_init ex_msgs) true ex_us) /\
  op_message (session_ops dev_init ex_msgs) true ex_us = (ex_final, bs "32;5;0;80", Some (std_error DataOutOfRange)).
Proof.
  exact (conj ex_msgs_renderable (conj ex_us_renderable
    (conj (C13_full_stack_refines ex_msgs true ex_us ex_msgs_renderable ex_us_renderable) ex_op_message))).
Qed.

(* the equivalence: it holds in the final state of the session (one standard error queued), and fails in a state whose
   queue holds a custom error with a non-ASCII message and no extended text *)
Example C13_full_stack_refines_iff_nonvacuous :
  let d_bad := set_queue dev_init [mkError 101%Z (Some [233]) None] in
  queue_printable ex_final = true /\
  (forall mav us, forallb renderable us = true -> dev_message ex_final mav (units_text us) = Val (op_message ex_final mav us)) /\
  queue_printable d_bad = false /\
  ~ (forall mav us, forallb renderable us = true -> dev_message d_bad mav (units_text us) = Val (op_message d_bad mav us)).
Proof.
  intro d_bad.
  split; [reflexivity|]. split; [exact (proj2 (C13_full_stack_refines_iff ex_final) eq_refl)|].
  split; [reflexivity|]. intro H. apply (proj1 (C13_full_stack_refines_iff d_bad)) in H. discriminate H.
Qed.

Print Assumptions C13_fail_queues_once_nonvacuous.
Print Assumptions C13_ok_queues_nothing_nonvacuous.
Print Assumptions C13_full_stack_refines_nonvacuous.

(* ------------------------------------------------------------------ *)
(* the refinement for ALL well-formed messages, on the session of ASTs of CommonDev.v *)
(* ------------------------------------------------------------------ *)
(* after "*ESE 32;*ERR -113;*ESR?" and ":SYST:ERR:COUN?;*STB?;*SRE 16<NL>" from power-on, the message
   "stat:oper:enab 5;ptr 3;:syst:err?;*ese 300;*ese?" (short forms in lower case, a relative header, a default node
   omitted, an argument out of range): the full stack computes what the operation list says *)
Example C13_full_stack_all_messages_nonvacuous :
  wf_msg dm3 = true /\ message_ops dm3 = Some ex_us3 /\
  render_msg dm3 = bs "stat:oper:enab 5;ptr 3;:syst:err?;*ese 300;*ese?" /\
  ex_us3 = [SReg Oper (RWrEnable 5); SReg Oper (RWrPtr 3); SErrNext; SFail (std_error DataOutOfRange)] /\
  dev_message (session_msgs dev_init ex_session) true (render_msg dm3)
  = Val (with_stray dm3 (op_message (session_msgs dev_init ex_session) true ex_us3)) /\
  session_msgs dev_init ex_session = ex_mid /\
  with_stray dm3 (op_message ex_mid true ex_us3)
  = (ex_final3, bs "-113,""Undefined header""", Some (std_error DataOutOfRange)) /\
  esr ex_final3 = 48 /\ length (queue ex_final3) = 1%nat /\ queue ex_final3 = [std_error DataOutOfRange] /\
  enable (oper ex_final3) = 5 /\ ptr_filter (oper ex_final3) = 3 /\ ese ex_final3 = 32.
Proof.
  assert (h : with_stray dm3 (op_message ex_mid true ex_us3)
              = (ex_final3, bs "-113,""Undefined header""", Some (std_error DataOutOfRange)))
    by (unfold with_stray; rewrite ex_op_message3, dm3_not_stray; vm_compute; reflexivity).
  exact (conj dm3_wf (conj dm3_ops (conj (proj1 (proj2 (proj2 dm_texts))) (conj eq_refl
    (conj (C13_full_stack_all_messages ex_session dm3 true ex_us3 dm3_wf dm3_ops)
    (conj ex_session_mid (conj h (conj eq_refl (conj eq_refl (conj eq_refl (conj eq_refl (conj eq_refl eq_refl)))))))))))).
Qed.

(* in the same state, "*ESE?;*CLS?": the operation-level result, plus exactly the unit separator that the dispatcher
   wrote before it invoked the (non-existent) query form of *CLS *)
Example C13_full_stack_all_messages_nonvacuous_stray :
  wf_msg dm_stray = true /\ message_ops dm_stray = Some ex_us_stray /\
  render_msg dm_stray = bs "*ESE?;*CLS?" /\ ex_us_stray = [SRdEse; SFail (std_error UndefinedHeader)] /\
  dev_message (session_msgs dev_init ex_session) true (render_msg dm_stray)
  = Val (with_stray dm_stray (op_message (session_msgs dev_init ex_session) true ex_us_stray)) /\
  session_msgs dev_init ex_session = ex_mid /\
  op_message ex_mid true ex_us_stray = (ex_final_stray, bs "32", Some (std_error UndefinedHeader)) /\
  with_stray dm_stray (op_message ex_mid true ex_us_stray) = (ex_final_stray, bs "32;", Some (std_error UndefinedHeader)) /\
  esr ex_final_stray = 32 /\ length (queue ex_final_stray) = 2%nat.
Proof.
  assert (h : with_stray dm_stray (op_message ex_mid true ex_us_stray)
              = (ex_final_stray, bs "32;", Some (std_error UndefinedHeader)))
    by (unfold with_stray; rewrite ex_op_message_stray, dm_stray_stray; vm_compute; reflexivity).
  exact (conj dm_stray_wf (conj dm_stray_ops (conj (proj2 (proj2 (proj2 dm_texts))) (conj eq_refl
    (conj (C13_full_stack_all_messages ex_session dm_stray true ex_us_stray dm_stray_wf dm_stray_ops)
    (conj ex_session_mid (conj ex_op_message_stray (conj h (conj eq_refl eq_refl))))))))).
Qed.

(* the exact characterisation, [stray_separator m = true]: the two sides differ, and exactly by the `;` *)
Example C13_full_stack_all_messages_exact_nonvacuous :
  wf_msg dm_stray = true /\ queue_printable ex_mid = true /\ message_ops dm_stray = Some ex_us_stray /\
  (dev_message ex_mid true (render_msg dm_stray) = Val (op_message ex_mid true ex_us_stray) <-> stray_separator dm_stray = false) /\
  stray_separator dm_stray = true /\
  dev_message ex_mid true (render_msg dm_stray) <> Val (op_message ex_mid true ex_us_stray) /\
  dev_message ex_mid true (render_msg dm_stray) = Val (ex_final_stray, bs "32" ++ [59], Some (std_error UndefinedHeader)) /\
  op_message ex_mid true ex_us_stray = (ex_final_stray, bs "32", Some (std_error UndefinedHeader)).
Proof.
  pose proof (C13_full_stack_all_messages_exact dm_stray true ex_mid ex_us_stray dm_stray_wf ex_mid_printable dm_stray_ops) as E.
  assert (hne : dev_message ex_mid true (render_msg dm_stray) <> Val (op_message ex_mid true ex_us_stray)).
  { intro H. apply (proj1 E) in H. rewrite dm_stray_stray in H. discriminate H. }
  exact (conj dm_stray_wf (conj ex_mid_printable (conj dm_stray_ops (conj E (conj dm_stray_stray (conj hne
    (conj ex_dev_message_stray ex_op_message_stray))))))).
Qed.

(* ... and [stray_separator m = false] (the five-unit message above, which also fails, but in a command form): equal *)
Example C13_full_stack_all_messages_exact_nonvacuous_equal :
  wf_msg dm3 = true /\ queue_printable ex_mid = true /\ message_ops dm3 = Some ex_us3 /\
  (dev_message ex_mid true (render_msg dm3) = Val (op_message ex_mid true ex_us3) <-> stray_separator dm3 = false) /\
  stray_separator dm3 = false /\
  dev_message ex_mid true (render_msg dm3) = Val (op_message ex_mid true ex_us3) /\
  op_message ex_mid true ex_us3 = (ex_final3, bs "-113,""Undefined header""", Some (std_error DataOutOfRange)).
Proof.
  pose proof (C13_full_stack_all_messages_exact dm3 true ex_mid ex_us3 dm3_wf ex_mid_printable dm3_ops) as E.
  exact (conj dm3_wf (conj ex_mid_printable (conj dm3_ops (conj E (conj dm3_not_stray (conj (proj2 E dm3_not_stray)
    ex_op_message3)))))).
Qed.

Print Assumptions C13_full_stack_all_messages_nonvacuous.
Print Assumptions C13_full_stack_all_messages_nonvacuous_stray.
Print Assumptions C13_full_stack_all_messages_exact_nonvacuous.
Print Assumptions C13_full_stack_all_messages_exact_nonvacuous_equal.
