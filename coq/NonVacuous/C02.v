(* NonVacuous/C02.v — every C02 theorem with a hypothesis, instantiated on the example tree of Common.v.
   Each example has the form  hypotheses /\ instantiated conclusion ; the conclusion is obtained by applying
   the theorem to the proofs of the hypotheses.
   C02_message_semantics is instantiated on the messages of CommonMsg.v (end of the file).
   Skipped (no hypothesis): C02_message_starts_at_root. *)
From VF Require Import Base Gen_Errors Lexer Mnemonic Grammar Response Tree HeaderSpec Header_proofs Scripted Tree_proofs MessageSpec.
From VF.NonVacuous Require Import Common CommonMsg.
From VF.Properties Require C02.
Import C02.
Open Scope N_scope.

Definition tr0 : list (N * bool * list byte) := [(1, true, bs "ACME,42")].

(* "VOLT 5" read from the root: SOURce (default branch) and LEVel (default leaf) are omitted *)
Example C02_resolve_sound_nonvacuous :
  let tail := [IOk THeaderSeparator; IOk (TDec (bs "5"))] in
  header_end tail /\
  resolve ex_tree ex_tree (hdr_toks [bs "VOLT"] ++ tail) = RFound c_lev false t_sour [IOk (TDec (bs "5"))] /\
  (In (c_lev, t_sour) (desig ex_tree ex_tree [bs "VOLT"]) /\ false = is_query_tail tail
   /\ [IOk (TDec (bs "5"))] = after_header tail).
Proof.
  intro tail.
  assert (h1 : header_end tail) by (right; eexists _, _; split; [reflexivity|auto]).
  assert (h2 : resolve ex_tree ex_tree (hdr_toks [bs "VOLT"] ++ tail) = RFound c_lev false t_sour [IOk (TDec (bs "5"))])
    by (ccompute; reflexivity).
  exact (conj h1 (conj h2 (C02_resolve_sound _ _ _ _ _ _ _ _ h1 h2))).
Qed.

(* "SYST:BOGUS?" designates nothing *)
Example C02_resolve_undefined_nonvacuous :
  let ms := [bs "SYST"; bs "BOGUS"] in
  let tail := [IOk THeaderQuerySuffix] in
  header_end tail /\ desig ex_tree ex_tree ms = [] /\
  exists toks', resolve ex_tree ex_tree (hdr_toks ms ++ tail) = RFail UndefinedHeader toks'.
Proof.
  intros ms tail.
  assert (h1 : header_end tail) by (right; eexists _, _; split; [reflexivity|auto]).
  assert (h2 : desig ex_tree ex_tree ms = []) by (ccompute; reflexivity).
  exact (conj h1 (conj h2 (C02_resolve_undefined _ _ _ _ h1 h2))).
Qed.

Example C02_exec_undefined_invokes_nothing_nonvacuous :
  let s := mkX (hdr_toks [bs "SYST"; bs "BOGUS"] ++ [IOk THeaderQuerySuffix]) ([] : slog) f0 tr0 in
  let toks' := [IOk (TMnemonic (bs "BOGUS")); IOk THeaderQuerySuffix] in
  resolve ex_tree ex_tree (x_toks s) = RFail UndefinedHeader toks' /\
  (exec ex_tree ex_tree s = XErr (std_error UndefinedHeader) (with_toks s toks')
   /\ x_trace (with_toks s toks') = x_trace s).
Proof.
  intros s toks'.
  assert (h1 : resolve ex_tree ex_tree (x_toks s) = RFail UndefinedHeader toks') by (ccompute; reflexivity).
  exact (conj h1 (C02_exec_undefined_invokes_nothing _ _ _ _ _ h1)).
Qed.

(* "sour:volt:rang?;..." : the fully spelled path *)
Example C02_resolve_complete_nonvacuous :
  let ms := [bs "sour"; bs "volt"; bs "rang"] in
  let tail := [IOk THeaderQuerySuffix; IOk TUnitSeparator; IOk (TMnemonic (bs "LEV"))] in
  wf_tree ex_tree /\ header_end tail /\ In (c_rng, t_volt) (desig ex_tree ex_tree ms) /\
  resolve ex_tree ex_tree (hdr_toks ms ++ tail) = RFound c_rng (is_query_tail tail) t_volt (after_header tail).
Proof.
  intros ms tail.
  assert (h1 : header_end tail) by (right; eexists _, _; split; [reflexivity|auto]).
  assert (h2 : In (c_rng, t_volt) (desig ex_tree ex_tree ms)) by (ccompute; auto).
  exact (conj ex_tree_wf (conj h1 (conj h2 (C02_resolve_complete _ _ _ _ _ _ ex_tree_wf h1 h2)))).
Qed.
Example C02_resolve_complete_nonvacuous_value :
  is_query_tail [IOk THeaderQuerySuffix; IOk TUnitSeparator; IOk (TMnemonic (bs "LEV"))] = true /\
  after_header [IOk THeaderQuerySuffix; IOk TUnitSeparator; IOk (TMnemonic (bs "LEV"))]
  = [IOk TUnitSeparator; IOk (TMnemonic (bs "LEV"))].
Proof. split; reflexivity. Qed.

Example C02_designation_unique_nonvacuous :
  let ms := [bs "VOLT"] in
  wf_tree ex_tree /\ In (c_lev, t_sour) (desig ex_tree ex_tree ms) /\ desig ex_tree ex_tree ms = [(c_lev, t_sour)].
Proof.
  intro ms.
  assert (h : desig ex_tree ex_tree ms = [(c_lev, t_sour)]) by (ccompute; reflexivity).
  assert (h2 : In (c_lev, t_sour) (desig ex_tree ex_tree ms)) by (rewrite h; left; reflexivity).
  pose proof (C02_designation_unique ex_tree ex_tree ms (c_lev, t_sour) (c_lev, t_sour) ex_tree_wf h2 h2) as _.
  exact (conj ex_tree_wf (conj h2 h)).
Qed.

(* FREQ below the default branch SOURce is also designated from the root *)
Example C02_default_branch_omitted_nonvacuous :
  let sub := [Leaf (bs "*IDN") false c_idn; t_sour; t_syst] in
  let ms := [bs "FREQ"] in
  In t_sour sub /\ is_default t_sour = true /\ is_branch t_sour = true /\
  In (c_freq, t_sour) (desig t_sour ex_tree ms) /\
  In (c_freq, t_sour) (desig (Branch [] false sub) ex_tree ms).
Proof.
  intros sub ms.
  assert (h1 : In t_sour sub) by (right; left; reflexivity).
  assert (h2 : is_default t_sour = true) by reflexivity.
  assert (h3 : is_branch t_sour = true) by reflexivity.
  assert (h4 : In (c_freq, t_sour) (desig t_sour ex_tree ms)) by (ccompute; auto).
  exact (conj h1 (conj h2 (conj h3 (conj h4 (C02_default_branch_omitted [] false sub t_sour ex_tree ms _ h1 h2 h3 h4))))).
Qed.

Example C02_default_leaf_omitted_nonvacuous :
  let sub := [Leaf (bs "LEVel") true c_lev; Leaf (bs "RANGe") false c_rng] in
  In (Leaf (bs "LEVel") true c_lev) sub /\
  In (c_lev, t_sour) (desig (Branch (bs "VOLTage") false sub) t_sour []).
Proof.
  intro sub.
  assert (h1 : In (Leaf (bs "LEVel") true c_lev) sub) by (left; reflexivity).
  exact (conj h1 (C02_default_leaf_omitted (bs "VOLTage") false sub (bs "LEVel") c_lev t_sour h1)).
Qed.

Example C02_node_spelled_out_nonvacuous :
  let sub := [Leaf (bs "*IDN") false c_idn; t_sour; t_syst] in
  In t_syst sub /\ mnemonic_match (node_name t_syst) (bs "syst") = true /\
  In (c_ver, t_syst) (desig t_syst (Branch [] false sub) [bs "vers"]) /\
  In (c_ver, t_syst) (desig (Branch [] false sub) t_volt [bs "syst"; bs "vers"]).
Proof.
  intro sub.
  assert (h1 : In t_syst sub) by (right; right; left; reflexivity).
  assert (h2 : mnemonic_match (node_name t_syst) (bs "syst") = true) by (ccompute; reflexivity).
  assert (h3 : In (c_ver, t_syst) (desig t_syst (Branch [] false sub) [bs "vers"])) by (ccompute; auto).
  exact (conj h1 (conj h2 (conj h3 (C02_node_spelled_out [] false sub t_syst t_volt (bs "syst") [bs "vers"] _ h1 h2 h3)))).
Qed.

(* ";:SYST:VERS?" while the context is VOLTage: resolved from the root *)
Example C02_unit_absolute_nonvacuous :
  let rest := hdr_toks [bs "SYST"; bs "VERS"] ++ [IOk THeaderQuerySuffix] in
  let s := mkX (IOk THeaderMnemonicSeparator :: rest) ([] : slog) f0 tr0 in
  x_toks s = IOk THeaderMnemonicSeparator :: rest /\
  unit_body ex_tree t_volt s = UExec (exec ex_tree ex_tree (with_toks s rest)).
Proof.
  intros rest s.
  exact (conj eq_refl (C02_unit_absolute ex_tree t_volt s rest eq_refl)).
Qed.

(* ";*IDN?" while the context is VOLTage: executed from the root, the context stays VOLTage *)
Example C02_unit_common_keeps_context_nonvacuous :
  let m := bs "*IDN" in
  let rest := [IOk THeaderQuerySuffix; IOk TUnitSeparator; IOk (TMnemonic (bs "RANG"))] in
  let s := mkX (IOk (TMnemonic m) :: rest) ([] : slog) f0 [] in
  let s' := xres_state (exec ex_tree ex_tree s) in
  x_toks s = IOk (TMnemonic m) :: rest /\ starts_with_star m = true /\
  exec ex_tree ex_tree s = XOk ex_tree s' /\
  x_trace s' = [(1, true, bs "ACME,42")] /\
  unit_body ex_tree t_volt s = UExec (XOk t_volt s').
Proof.
  intros m rest s s'.
  assert (h3 : exec ex_tree ex_tree s = XOk ex_tree s') by reflexivity.
  assert (h4 : x_trace s' = [(1, true, bs "ACME,42")]) by (vm_compute; reflexivity).
  exact (conj eq_refl (conj eq_refl (conj h3 (conj h4
    (C02_unit_common_keeps_context ex_tree t_volt s m rest ex_tree s' eq_refl eq_refl h3))))).
Qed.

(* ";RANG 3" while the context is VOLTage: resolved relative to VOLTage *)
Example C02_unit_relative_nonvacuous :
  let m := bs "RANG" in
  let rest := [IOk THeaderSeparator; IOk (TDec (bs "3"))] in
  let s := mkX (IOk (TMnemonic m) :: rest) ([] : slog) f0 tr0 in
  x_toks s = IOk (TMnemonic m) :: rest /\ starts_with_star m = false /\
  unit_body ex_tree t_volt s = UExec (exec t_volt t_volt s) /\
  x_trace (xres_state (exec t_volt t_volt s)) = tr0 ++ [(3, false, [])].
Proof.
  intros m rest s.
  assert (h : x_trace (xres_state (exec t_volt t_volt s)) = tr0 ++ [(3, false, [])]) by (vm_compute; reflexivity).
  exact (conj eq_refl (conj eq_refl (conj (C02_unit_relative ex_tree t_volt s m rest eq_refl eq_refl) h))).
Qed.

Print Assumptions C02_resolve_sound_nonvacuous.
Print Assumptions C02_resolve_complete_nonvacuous.
Print Assumptions C02_designation_unique_nonvacuous.
Print Assumptions C02_unit_common_keeps_context_nonvacuous.

(* ------------------------------------------------------------------ *)
(* C02_message_semantics, on the messages of CommonMsg.v               *)
(* ------------------------------------------------------------------ *)
(* " :SOURce:VOLT:RANG 7 ;lev?;*IDN? ; RANG?;LEV #H5;:sour:FREQ  -1.50E+3 ; :syst:version?<NL>": seven units; the
   absolute header of the first leaves the context VOLTage, in which `lev?`, `RANG?` and `LEV` are read (the common
   command in between does not move it); `:sour:FREQ` and `:syst:version?` start again at the root.  All seven handlers
   run, in order; the four answers are framed by `;` and one NL. *)
Example C02_message_semantics_nonvacuous :
  wf_tree ex_tree /\ wf_msg m_ok = true /\
  run ex_tree (render_msg m_ok) [] f0 = Val (spec_message ex_tree m_ok [] f0) /\
  render_msg m_ok = bs " :SOURce:VOLT:RANG 7 ;lev?;*IDN? ; RANG?;LEV #H5;:sour:FREQ  -1.50E+3 ; :syst:version?" ++ [10] /\
  spec_message ex_tree m_ok [] f0 = m_ok_result /\
  r_err m_ok_result = None /\ r_out m_ok_result = bs "5;ACME,42;""AUTO"";VERS 1999.0" ++ [10] /\
  map (fun x => fst (fst x)) (r_trace m_ok_result) = [3; 2; 1; 3; 2; 4; 5] /\ length (r_trace m_ok_result) = 7%nat.
Proof.
  exact (conj ex_tree_wf (conj m_ok_wf (conj (C02_message_semantics ex_tree m_ok [] f0 ex_tree_wf m_ok_wf)
    (conj m_ok_text (conj m_ok_spec (conj eq_refl (conj eq_refl (conj eq_refl eq_refl)))))))).
Qed.

(* ":VOLT:RANG?;FREQ 1;*IDN?": the header of the SECOND unit is read in the context VOLTage left by the first and
   designates nothing there: -113, no handler is invoked for it, the third unit is never reached (one trace entry) *)
Example C02_message_semantics_nonvacuous_undefined :
  wf_tree ex_tree /\ wf_msg m_113 = true /\
  run ex_tree (render_msg m_113) [] f0 = Val (spec_message ex_tree m_113 [] f0) /\
  render_msg m_113 = bs ":VOLT:RANG?;FREQ 1;*IDN?" /\
  spec_message ex_tree m_113 [] f0 = m_113_result /\
  r_err m_113_result = Some (std_error UndefinedHeader) /\ r_out m_113_result = bs """AUTO""" /\
  r_trace m_113_result = [(3, true, bs """AUTO""")] /\ r_hook m_113_result = [std_error UndefinedHeader].
Proof.
  exact (conj ex_tree_wf (conj m_113_wf (conj (C02_message_semantics ex_tree m_113 [] f0 ex_tree_wf m_113_wf)
    (conj m_113_text (conj m_113_spec (conj eq_refl (conj eq_refl (conj eq_refl eq_refl)))))))).
Qed.

(* "*IDN?;:SOUR:VOLT:RANG 5 , #B101;LEV?": the second unit carries two data elements, RANGe takes one: -108 after
   the handler has run (two trace entries), LEV? is never run *)
Example C02_message_semantics_nonvacuous_leftover :
  wf_tree ex_tree /\ wf_msg m_108 = true /\
  run ex_tree (render_msg m_108) [] f0 = Val (spec_message ex_tree m_108 [] f0) /\
  render_msg m_108 = bs "*IDN?;:SOUR:VOLT:RANG 5 , #B101;LEV?" /\
  spec_message ex_tree m_108 [] f0 = m_108_result /\
  r_err m_108_result = Some (std_error ParameterNotAllowed) /\ r_out m_108_result = bs "ACME,42" /\
  length (r_trace m_108_result) = 2%nat /\ r_dev m_108_result = [LCall 1 true; LCall 3 false; LTyped].
Proof.
  exact (conj ex_tree_wf (conj m_108_wf (conj (C02_message_semantics ex_tree m_108 [] f0 ex_tree_wf m_108_wf)
    (conj m_108_text (conj m_108_spec (conj eq_refl (conj eq_refl (conj eq_refl eq_refl)))))))).
Qed.

Print Assumptions C02_message_semantics_nonvacuous.
Print Assumptions C02_message_semantics_nonvacuous_undefined.
Print Assumptions C02_message_semantics_nonvacuous_leftover.
