(* NonVacuous/C11.v — every C11 theorem with a hypothesis, on the example runs of Common.v (growable buffer,
   20-byte buffer, 40-byte buffer) and on concrete formatters.
   Each example: hypotheses /\ instantiated conclusion (by applying the theorem).
   Skipped (no hypothesis): C11_run_total. *)
From Coq Require Import Lia.
From VF Require Import Base Gen_Errors Gen_Consts Fmt Lexer Response Tree Resp_proofs Tree_proofs Scripted.
From VF.NonVacuous Require Import Common.
From VF.Properties Require C11.
Import C11.
Open Scope N_scope.

Example C11_run_never_exceeds_capacity_nonvacuous :
  run ex_tree ex_input_ok [] (mkFmt (Some 20%nat) []) = Val ex_run_cap20 /\ length (r_out ex_run_cap20) = 19%nat /\
  (length (r_out ex_run_cap20) <= 20)%nat.
Proof. exact (conj ex_run_cap20_eq (conj eq_refl (C11_run_never_exceeds_capacity _ _ _ _ _ ex_run_cap20_eq))). Qed.

(* the 27-byte response fits a 40-byte buffer: same result as with the growable buffer *)
Example C11_cap_fits_nonvacuous :
  run ex_tree ex_input_ok [] (mkFmt None []) = Val ex_run_ok /\ (length (r_out ex_run_ok) <= 40)%nat /\
  run ex_tree ex_input_ok [] (mkFmt (Some 40%nat) []) = Val ex_run_ok.
Proof.
  assert (h : (length (r_out ex_run_ok) <= 40)%nat) by (vm_compute; lia).
  exact (conj ex_run_ok_eq (conj h (C11_cap_fits ex_tree ex_input_ok [] 40%nat ex_run_ok ex_run_ok_eq h))).
Qed.

Example C11_cap_prefix_nonvacuous :
  wb_tree ex_tree /\ run ex_tree ex_input_ok [] (mkFmt (Some 20%nat) []) = Val ex_run_cap20 /\
  run ex_tree ex_input_ok [] (mkFmt None []) = Val ex_run_ok /\
  is_prefix (r_out ex_run_cap20) (r_out ex_run_ok).
Proof.
  exact (conj ex_tree_wb (conj ex_run_cap20_eq (conj ex_run_ok_eq
    (C11_cap_prefix ex_tree ex_input_ok [] 20%nat _ _ ex_tree_wb ex_run_cap20_eq ex_run_ok_eq)))).
Qed.

Example C11_cap_overflow_nonvacuous :
  wb_tree ex_tree /\ run ex_tree ex_input_ok [] (mkFmt (Some 20%nat) []) = Val ex_run_cap20 /\
  run ex_tree ex_input_ok [] (mkFmt None []) = Val ex_run_ok /\
  r_err ex_run_ok = None /\ (20 < length (r_out ex_run_ok))%nat /\
  r_err ex_run_cap20 = Some (std_error OutOfMemory).
Proof.
  assert (h : (20 < length (r_out ex_run_ok))%nat) by (vm_compute; lia).
  exact (conj ex_tree_wb (conj ex_run_cap20_eq (conj ex_run_ok_eq (conj eq_refl (conj h
    (C11_cap_overflow ex_tree ex_input_ok [] 20%nat _ _ ex_tree_wb ex_run_cap20_eq ex_run_ok_eq eq_refl h)))))).
Qed.

Example C11_push_fits_nonvacuous :
  let f := mkFmt (Some 5%nat) (bs "abc") in let f' := mkFmt (Some 5%nat) (bs "abcde") in
  fits f /\ push f (bs "de") = Ok f' /\ fits f'.
Proof.
  intros f f'.
  assert (h1 : fits f) by (cbn; lia).
  exact (conj h1 (conj eq_refl (C11_push_fits f (bs "de") f' h1 eq_refl))).
Qed.

Example C11_push_error_is_225_nonvacuous :
  let f := mkFmt (Some 5%nat) (bs "abc") in
  push f (bs "def") = Err OutOfMemory /\ OutOfMemory = OutOfMemory.
Proof. intro f. exact (conj eq_refl (C11_push_error_is_225 f (bs "def") _ eq_refl)). Qed.

Example C11_push_appends_nonvacuous :
  let f := mkFmt (Some 5%nat) (bs "abc") in let f' := mkFmt (Some 5%nat) (bs "abcde") in
  push f (bs "de") = Ok f' /\ (buf f' = buf f ++ bs "de" /\ cap f' = cap f).
Proof. intros f f'. exact (conj eq_refl (C11_push_appends f (bs "de") f' eq_refl)). Qed.

Print Assumptions C11_run_never_exceeds_capacity_nonvacuous.
Print Assumptions C11_cap_prefix_nonvacuous.
Print Assumptions C11_cap_overflow_nonvacuous.
