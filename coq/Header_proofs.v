(* Header_proofs.v — the dispatcher (Tree.resolve / exec / unit_body / run_tokens) resolves
   headers to exactly the handler designated by HeaderSpec.desig. *)
From VF Require Import Base Gen_Errors Lexer Mnemonic Grammar Response Tree HeaderSpec.
From Coq Require Import Lia.
Open Scope N_scope.

Section HeaderProofs.
Context {D : Type}.

Definition hdr_toks (ms : list (list byte)) : list titem := map IOk (tokens_path ms).
(* what may follow a header: end of stream, the header separator, a unit separator or the query mark *)
Definition header_end (tail : list titem) : Prop :=
  tail = [] \/ exists t r, tail = IOk t :: r /\ (t = THeaderSeparator \/ t = TUnitSeparator \/ t = THeaderQuerySuffix).
Definition is_query_tail (tail : list titem) : bool := match tail with IOk THeaderQuerySuffix :: _ => true | _ => false end.
Definition after_header (tail : list titem) : list titem :=
  match tail with IOk THeaderQuerySuffix :: r => skip_header_sep r | _ => skip_header_sep tail end.

(* ------------------------------------------------------------------ *)
(* induction principle for the nested inductive                        *)
(* ------------------------------------------------------------------ *)
Section TreeInd.
Variable P : tree D -> Prop.
Hypothesis HL : forall n d c, P (Leaf n d c).
Hypothesis HB : forall n d sub, (forall ch, In ch sub -> P ch) -> P (Branch n d sub).
Fixpoint tree_ind' (t : tree D) : P t :=
  match t with
  | Leaf n d c => HL n d c
  | Branch n d sub =>
    HB n d sub
      ((fix go (l : list (tree D)) : forall ch, In ch l -> P ch :=
          match l with
          | [] => fun ch H => match H with end
          | a :: l' => fun ch H =>
            match H with
            | or_introl e => eq_rect a P (tree_ind' a) ch e
            | or_intror h => go l' ch h
            end
          end) sub)
  end.
End TreeInd.

(* ------------------------------------------------------------------ *)
(* the inner loops as stand-alone functions                            *)
(* ------------------------------------------------------------------ *)
Definition find_dbranch (tk : list titem) (lf : tree D) : list (tree D) -> option (@rres D) :=
  fix find (l : list (tree D)) : option rres :=
    match l with
    | [] => None
    | (Branch _ true _ as ch) :: _ => Some (resolve ch lf tk)
    | _ :: l' => find l'
    end.
Definition find_dleaf (tk : list titem) (lf : tree D) : list (tree D) -> option (@rres D) :=
  fix find (l : list (tree D)) : option rres :=
    match l with
    | [] => None
    | (Leaf _ true _ as ch) :: _ => Some (resolve ch lf tk)
    | _ :: l' => find l'
    end.
Definition first_match (self : tree D) (m : list byte) (toks2 : list titem) : list (tree D) -> option (@rres D) :=
  fix first_match (l : list (tree D)) : option rres :=
    match l with
    | [] => None
    | ch :: l' => if mnemonic_match (node_name ch) m then Some (resolve ch self toks2)
                  else first_match l'
    end.

Definition dn_go (ctx : tree D) : list (tree D) -> list (command D * tree D) :=
  fix go (l : list (tree D)) : list (command D * tree D) :=
    match l with
    | [] => []
    | ch :: l' => (if is_default ch then desig ch ctx [] else []) ++ go l'
    end.
Definition dc_go (self ctx : tree D) (m : list byte) (ms' : list (list byte)) : list (tree D) -> list (command D * tree D) :=
  fix go (l : list (tree D)) : list (command D * tree D) :=
    match l with
    | [] => []
    | ch :: l' =>
      (if mnemonic_match (node_name ch) m then desig ch self ms' else [])
      ++ (if is_default ch && is_branch ch then desig ch ctx (m :: ms') else [])
      ++ go l'
    end.
Definition lk_go : list (tree D) -> list (tree D) :=
  fix go (l : list (tree D)) : list (tree D) :=
    match l with
    | [] => []
    | ch :: l' => ch :: (if is_default ch && is_branch ch then lookup_nodes ch else []) ++ go l'
    end.
Definition el_go : list (tree D) -> list (tree D) :=
  fix go (l : list (tree D)) : list (tree D) :=
    match l with
    | [] => []
    | ch :: l' => (if is_default ch then (if is_branch ch then end_leaves ch else [ch]) else []) ++ go l'
    end.
Definition as_go : list (tree D) -> list (tree D) :=
  fix go (l : list (tree D)) := match l with [] => [] | ch :: l' => all_subtrees ch ++ go l' end.

Lemma desig_branch_nil : forall n d sub ctx, desig (Branch n d sub) ctx [] = dn_go ctx sub.
Proof. reflexivity. Qed.
Lemma desig_branch_cons : forall n d sub ctx m ms',
  desig (Branch n d sub) ctx (m :: ms') = dc_go (Branch n d sub) ctx m ms' sub.
Proof. reflexivity. Qed.
Lemma lookup_nodes_branch : forall n d sub, lookup_nodes (Branch n d sub) = lk_go sub.
Proof. reflexivity. Qed.
Lemma end_leaves_branch : forall n d sub, end_leaves (Branch n d sub) = el_go sub.
Proof. reflexivity. Qed.
Lemma all_subtrees_branch : forall n d sub, all_subtrees (Branch n d sub) = Branch n d sub :: as_go sub.
Proof. reflexivity. Qed.

(* generalised header stream: an optional leading `:` before a non-empty path *)
Definition gstream (sep : bool) (ms : list (list byte)) (tail : list titem) : list titem :=
  match ms with
  | [] => tail
  | _ :: _ => (if sep then [IOk THeaderMnemonicSeparator] else []) ++ hdr_toks ms ++ tail
  end.

Lemma hdr_cons : forall m ms tail, hdr_toks (m :: ms) ++ tail = IOk (TMnemonic m) :: gstream true ms tail.
Proof. intros m ms tail. destruct ms; reflexivity. Qed.

Lemma gstream_false : forall ms tail, gstream false ms tail = hdr_toks ms ++ tail.
Proof. intros [|m ms] tail; reflexivity. Qed.

Lemma resolve_branch_cons : forall n d sub (ctx : tree D) sep m ms' tail,
  resolve (Branch n d sub) ctx (gstream sep (m :: ms') tail) =
  match first_match (Branch n d sub) m (gstream true ms' tail) sub with
  | Some r => r
  | None => match find_dbranch (gstream false (m :: ms') tail) (Branch n d sub) sub with
            | Some r => r
            | None => RFail UndefinedHeader (gstream false (m :: ms') tail)
            end
  end.
Proof.
  intros n d sub ctx sep m ms' tail. unfold gstream at 1 3 4. cbn [app].
  rewrite hdr_cons. destruct sep; reflexivity.
Qed.

Lemma resolve_branch_nil : forall n d sub (ctx : tree D) tail, header_end tail ->
  resolve (Branch n d sub) ctx tail =
  match find_dleaf tail ctx sub with
  | Some r => r
  | None => match find_dbranch tail ctx sub with
            | Some r => r
            | None => RFail UndefinedHeader tail
            end
  end.
Proof.
  intros n d sub ctx tail [->|[t [r [-> [->|[->| ->]]]]]]; reflexivity.
Qed.

Lemma resolve_leaf_nil : forall n d c (ctx : tree D) tail, header_end tail ->
  resolve (Leaf n d c) ctx tail = RFound c (is_query_tail tail) ctx (after_header tail).
Proof.
  intros n d c ctx tail [->|[t [r [-> [->|[->| ->]]]]]]; reflexivity.
Qed.

Lemma resolve_leaf_cons : forall n d c (ctx : tree D) sep m ms' tail,
  resolve (Leaf n d c) ctx (gstream sep (m :: ms') tail) = RFail UndefinedHeader (gstream sep (m :: ms') tail).
Proof.
  intros. unfold gstream. rewrite hdr_cons. destruct sep; reflexivity.
Qed.

(* ------------------------------------------------------------------ *)
(* unit-level rules                                                    *)
(* ------------------------------------------------------------------ *)
Theorem unit_absolute : forall (root leaf : tree D) s rest, x_toks s = IOk THeaderMnemonicSeparator :: rest ->
  unit_body root leaf s = UExec (exec root root (with_toks s rest)).
Proof. intros root leaf s rest H. unfold unit_body. rewrite H. reflexivity. Qed.

Theorem unit_common_keeps_context : forall (root leaf : tree D) s m rest leaf' s', x_toks s = IOk (TMnemonic m) :: rest ->
  starts_with_star m = true -> exec root root s = XOk leaf' s' -> unit_body root leaf s = UExec (XOk leaf s').
Proof. intros root leaf s m rest leaf' s' H Hs He. unfold unit_body. rewrite H, Hs, He. reflexivity. Qed.

Theorem unit_relative : forall (root leaf : tree D) s m rest, x_toks s = IOk (TMnemonic m) :: rest ->
  starts_with_star m = false -> unit_body root leaf s = UExec (exec leaf leaf s).
Proof. intros root leaf s m rest H Hs. unfold unit_body. rewrite H, Hs. reflexivity. Qed.

Theorem message_starts_at_root : forall (root : tree D) toks d f,
  run_tokens root toks d f = unit_loop (S (length toks)) root root (mkX toks d f []).
Proof. reflexivity. Qed.

(* ------------------------------------------------------------------ *)
(* membership in the designation of a branch                           *)
(* ------------------------------------------------------------------ *)
Lemma dn_go_in : forall ctx l ch x, In ch l -> is_default ch = true -> In x (desig ch ctx []) -> In x (dn_go ctx l).
Proof.
  intros ctx l ch x. induction l as [|a l IH]; intros Hin Hd Hx; [destruct Hin|].
  cbn [dn_go]. fold (dn_go ctx). apply in_or_app. destruct Hin as [->|Hin].
  - left. rewrite Hd. exact Hx.
  - right. auto.
Qed.

Lemma dn_go_inv : forall ctx l x, In x (dn_go ctx l) ->
  exists ch, In ch l /\ is_default ch = true /\ In x (desig ch ctx []).
Proof.
  intros ctx l x. induction l as [|a l IH]; intros Hx; [destruct Hx|].
  cbn [dn_go] in Hx. fold (dn_go ctx) in Hx. apply in_app_or in Hx. destruct Hx as [Hx|Hx].
  - destruct (is_default a) eqn:Hd; [|destruct Hx]. exists a. split; [left; reflexivity|auto].
  - destruct (IH Hx) as [ch [H1 H2]]. exists ch. split; [right; exact H1|exact H2].
Qed.

Lemma dc_go_in_match : forall self ctx m ms' l ch x, In ch l -> mnemonic_match (node_name ch) m = true ->
  In x (desig ch self ms') -> In x (dc_go self ctx m ms' l).
Proof.
  intros self ctx m ms' l ch x. induction l as [|a l IH]; intros Hin Hm Hx; [destruct Hin|].
  cbn [dc_go]. fold (dc_go self ctx m ms'). destruct Hin as [->|Hin].
  - apply in_or_app. left. rewrite Hm. exact Hx.
  - apply in_or_app. right. apply in_or_app. right. auto.
Qed.

Lemma dc_go_in_dflt : forall self ctx m ms' l ch x, In ch l -> is_default ch = true -> is_branch ch = true ->
  In x (desig ch ctx (m :: ms')) -> In x (dc_go self ctx m ms' l).
Proof.
  intros self ctx m ms' l ch x. induction l as [|a l IH]; intros Hin Hd Hb Hx; [destruct Hin|].
  cbn [dc_go]. fold (dc_go self ctx m ms'). destruct Hin as [->|Hin].
  - apply in_or_app. right. apply in_or_app. left. rewrite Hd, Hb. exact Hx.
  - apply in_or_app. right. apply in_or_app. right. auto.
Qed.

Lemma dc_go_inv : forall self ctx m ms' l x, In x (dc_go self ctx m ms' l) ->
  exists ch, In ch l /\
    ((mnemonic_match (node_name ch) m = true /\ In x (desig ch self ms')) \/
     (is_default ch = true /\ is_branch ch = true /\ In x (desig ch ctx (m :: ms')))).
Proof.
  intros self ctx m ms' l x. induction l as [|a l IH]; intros Hx; [destruct Hx|].
  cbn [dc_go] in Hx. fold (dc_go self ctx m ms') in Hx.
  apply in_app_or in Hx. destruct Hx as [Hx|Hx].
  - destruct (mnemonic_match (node_name a) m) eqn:Hm; [|destruct Hx].
    exists a. split; [left; reflexivity|]. left. auto.
  - apply in_app_or in Hx. destruct Hx as [Hx|Hx].
    + destruct (is_default a) eqn:Hd; [|destruct Hx]. destruct (is_branch a) eqn:Hb; [|destruct Hx].
      exists a. split; [left; reflexivity|]. right. auto.
    + destruct (IH Hx) as [ch [H1 H2]]. exists ch. split; [right; exact H1|exact H2].
Qed.

Theorem default_branch_omitted : forall name dflt sub (ch ctx : tree D) ms x, In ch sub -> is_default ch = true -> is_branch ch = true ->
  In x (desig ch ctx ms) -> In x (desig (Branch name dflt sub) ctx ms).
Proof.
  intros name dflt sub ch ctx ms x Hin Hd Hb Hx. destruct ms as [|m ms'].
  - rewrite desig_branch_nil. eapply dn_go_in; eauto.
  - rewrite desig_branch_cons. eapply dc_go_in_dflt; eauto.
Qed.

Theorem default_leaf_omitted : forall name dflt sub n c (ctx : tree D), In (Leaf n true c) sub ->
  In (c, ctx) (desig (Branch name dflt sub) ctx []).
Proof.
  intros name dflt sub n c ctx Hin. rewrite desig_branch_nil.
  eapply dn_go_in; [exact Hin|reflexivity|]. left. reflexivity.
Qed.

Theorem node_spelled_out : forall name dflt sub (ch ctx : tree D) m ms x, In ch sub -> mnemonic_match (node_name ch) m = true ->
  In x (desig ch (Branch name dflt sub) ms) -> In x (desig (Branch name dflt sub) ctx (m :: ms)).
Proof.
  intros name dflt sub ch ctx m ms x Hin Hm Hx. rewrite desig_branch_cons.
  eapply dc_go_in_match; eauto.
Qed.

(* ------------------------------------------------------------------ *)
(* the loops of resolve                                                *)
(* ------------------------------------------------------------------ *)
Lemma find_dleaf_some : forall tk lf l r, find_dleaf tk lf l = Some r ->
  exists n c, In (Leaf n true c) l /\ r = resolve (Leaf n true c) lf tk.
Proof.
  intros tk lf l r. induction l as [|a l IH]; intros H; [discriminate|].
  cbn [find_dleaf] in H. fold (find_dleaf tk lf) in H.
  destruct a as [n [|] c|n d sub].
  - injection H as <-. exists n, c. split; [left; reflexivity|reflexivity].
  - destruct (IH H) as [n' [c' [H1 H2]]]. exists n', c'. split; [right; exact H1|exact H2].
  - destruct (IH H) as [n' [c' [H1 H2]]]. exists n', c'. split; [right; exact H1|exact H2].
Qed.

Lemma find_dbranch_some : forall tk lf l r, find_dbranch tk lf l = Some r ->
  exists n sub, In (Branch n true sub) l /\ r = resolve (Branch n true sub) lf tk.
Proof.
  intros tk lf l r. induction l as [|a l IH]; intros H; [discriminate|].
  cbn [find_dbranch] in H. fold (find_dbranch tk lf) in H.
  destruct a as [n d c|n [|] sub].
  - destruct (IH H) as [n' [c' [H1 H2]]]. exists n', c'. split; [right; exact H1|exact H2].
  - injection H as <-. exists n, sub. split; [left; reflexivity|reflexivity].
  - destruct (IH H) as [n' [c' [H1 H2]]]. exists n', c'. split; [right; exact H1|exact H2].
Qed.

Lemma first_match_some : forall self m toks2 l r, first_match self m toks2 l = Some r ->
  exists ch, In ch l /\ mnemonic_match (node_name ch) m = true /\ r = resolve ch self toks2.
Proof.
  intros self m toks2 l r. induction l as [|a l IH]; intros H; [discriminate|].
  cbn [first_match] in H. fold (first_match self m toks2) in H.
  destruct (mnemonic_match (node_name a) m) eqn:Hm.
  - injection H as <-. exists a. split; [left; reflexivity|auto].
  - destruct (IH H) as [ch [H1 H2]]. exists ch. split; [right; exact H1|exact H2].
Qed.

Lemma find_dleaf_none : forall tk lf l, find_dleaf tk lf l = None ->
  forall n c, ~ In (Leaf n true c) l.
Proof.
  intros tk lf l. induction l as [|a l IH]; intros H n c Hin; [destruct Hin|].
  cbn [find_dleaf] in H. fold (find_dleaf tk lf) in H.
  destruct a as [n' [|] c'|n' d sub]; try discriminate;
    (destruct Hin as [Hin|Hin]; [discriminate Hin|exact (IH H n c Hin)]).
Qed.

Lemma find_dbranch_none : forall tk lf l, find_dbranch tk lf l = None ->
  forall n sub, ~ In (Branch n true sub) l.
Proof.
  intros tk lf l. induction l as [|a l IH]; intros H n sub Hin; [destruct Hin|].
  cbn [find_dbranch] in H. fold (find_dbranch tk lf) in H.
  destruct a as [n' d c'|n' [|] sub']; try discriminate;
    (destruct Hin as [Hin|Hin]; [discriminate Hin|exact (IH H n sub Hin)]).
Qed.

Lemma first_match_none : forall self m toks2 l, first_match self m toks2 l = None ->
  forall ch, In ch l -> mnemonic_match (node_name ch) m = false.
Proof.
  intros self m toks2 l. induction l as [|a l IH]; intros H ch Hin; [destruct Hin|].
  cbn [first_match] in H. fold (first_match self m toks2) in H.
  destruct (mnemonic_match (node_name a) m) eqn:Hm; [discriminate|].
  destruct Hin as [<-|Hin]; [exact Hm|exact (IH H ch Hin)].
Qed.

(* with mnemonics left, the designation does not depend on the incoming context *)
Lemma dc_go_ctx_indep : forall self ctx ctx' m ms' l,
  (forall ch, In ch l -> desig ch ctx (m :: ms') = desig ch ctx' (m :: ms')) ->
  dc_go self ctx m ms' l = dc_go self ctx' m ms' l.
Proof.
  intros self ctx ctx' m ms' l. induction l as [|a l IH]; intros H; [reflexivity|].
  cbn [dc_go]. fold (dc_go self ctx m ms'). fold (dc_go self ctx' m ms').
  rewrite IH by (intros ch Hc; apply H; right; exact Hc).
  rewrite (H a) by (left; reflexivity). reflexivity.
Qed.

Lemma desig_ctx_indep : forall (self ctx ctx' : tree D) m ms',
  desig self ctx (m :: ms') = desig self ctx' (m :: ms').
Proof.
  intros self. induction self as [n d c|n d sub IH] using tree_ind'; intros ctx ctx' m ms'.
  - reflexivity.
  - rewrite !desig_branch_cons. apply dc_go_ctx_indep. intros ch Hc. apply IH. exact Hc.
Qed.

(* ------------------------------------------------------------------ *)
(* soundness                                                           *)
(* ------------------------------------------------------------------ *)
Lemma resolve_sound_gen : forall (self ctx : tree D) sep ms tail c q ctx' toks', header_end tail ->
  resolve self ctx (gstream sep ms tail) = RFound c q ctx' toks' ->
  In (c, ctx') (desig self ctx ms) /\ q = is_query_tail tail /\ toks' = after_header tail.
Proof.
  intros self. induction self as [n d c0|n d sub IH] using tree_ind';
    intros ctx sep ms tail c q ctx' toks' Hend Hres.
  - destruct ms as [|m ms'].
    + cbn [gstream] in Hres. rewrite resolve_leaf_nil in Hres by exact Hend.
      injection Hres as <- <- <- <-. split; [left; reflexivity|split; reflexivity].
    + rewrite resolve_leaf_cons in Hres. discriminate.
  - destruct ms as [|m ms'].
    + cbn [gstream] in Hres. rewrite resolve_branch_nil in Hres by exact Hend.
      rewrite desig_branch_nil.
      destruct (find_dleaf tail ctx sub) as [r|] eqn:Hl.
      * destruct (find_dleaf_some _ _ _ _ Hl) as [n' [c' [Hin ->]]].
        destruct (IH _ Hin ctx false [] tail c q ctx' toks' Hend Hres) as [H1 H2].
        split; [|exact H2]. eapply dn_go_in; [exact Hin|reflexivity|exact H1].
      * destruct (find_dbranch tail ctx sub) as [r|] eqn:Hb; [|discriminate].
        destruct (find_dbranch_some _ _ _ _ Hb) as [n' [sub' [Hin ->]]].
        destruct (IH _ Hin ctx false [] tail c q ctx' toks' Hend Hres) as [H1 H2].
        split; [|exact H2]. eapply dn_go_in; [exact Hin|reflexivity|exact H1].
    + rewrite resolve_branch_cons in Hres. rewrite desig_branch_cons.
      destruct (first_match (Branch n d sub) m (gstream true ms' tail) sub) as [r|] eqn:Hf.
      * destruct (first_match_some _ _ _ _ _ Hf) as [ch [Hin [Hm ->]]].
        destruct (IH _ Hin _ true ms' tail c q ctx' toks' Hend Hres) as [H1 H2].
        split; [|exact H2]. eapply dc_go_in_match; eauto.
      * destruct (find_dbranch (gstream false (m :: ms') tail) (Branch n d sub) sub) as [r|] eqn:Hb; [|discriminate].
        destruct (find_dbranch_some _ _ _ _ Hb) as [n' [sub' [Hin ->]]].
        destruct (IH _ Hin _ false (m :: ms') tail c q ctx' toks' Hend Hres) as [H1 H2].
        split; [|exact H2]. eapply dc_go_in_dflt; [exact Hin|reflexivity|reflexivity|].
        rewrite (desig_ctx_indep _ ctx (Branch n d sub)). exact H1.
Qed.

(* soundness, for EVERY tree (well-formed or not): whatever the dispatcher resolves is a designation *)
Theorem resolve_sound : forall (self ctx : tree D) ms tail c q ctx' toks', header_end tail ->
  resolve self ctx (hdr_toks ms ++ tail) = RFound c q ctx' toks' ->
  In (c, ctx') (desig self ctx ms) /\ q = is_query_tail tail /\ toks' = after_header tail.
Proof.
  intros self ctx ms tail c q ctx' toks' Hend Hres. rewrite <- gstream_false in Hres.
  eapply resolve_sound_gen; eauto.
Qed.

(* ------------------------------------------------------------------ *)
(* nothing designated                                                  *)
(* ------------------------------------------------------------------ *)
Lemma dn_go_nil : forall ctx l ch, dn_go ctx l = [] -> In ch l -> is_default ch = true -> desig ch ctx [] = [].
Proof.
  intros ctx l ch Hnil Hin Hd. destruct (desig ch ctx []) as [|x xs] eqn:E; [reflexivity|].
  assert (Hx : In x (dn_go ctx l)) by (eapply dn_go_in; eauto; rewrite E; left; reflexivity).
  rewrite Hnil in Hx. destruct Hx.
Qed.

Lemma dc_go_nil_match : forall self ctx m ms' l ch, dc_go self ctx m ms' l = [] -> In ch l ->
  mnemonic_match (node_name ch) m = true -> desig ch self ms' = [].
Proof.
  intros self ctx m ms' l ch Hnil Hin Hm. destruct (desig ch self ms') as [|x xs] eqn:E; [reflexivity|].
  assert (Hx : In x (dc_go self ctx m ms' l)) by (eapply dc_go_in_match; eauto; rewrite E; left; reflexivity).
  rewrite Hnil in Hx. destruct Hx.
Qed.

Lemma dc_go_nil_dflt : forall self ctx m ms' l ch, dc_go self ctx m ms' l = [] -> In ch l ->
  is_default ch = true -> is_branch ch = true -> desig ch ctx (m :: ms') = [].
Proof.
  intros self ctx m ms' l ch Hnil Hin Hd Hb. destruct (desig ch ctx (m :: ms')) as [|x xs] eqn:E; [reflexivity|].
  assert (Hx : In x (dc_go self ctx m ms' l)) by (eapply dc_go_in_dflt; eauto; rewrite E; left; reflexivity).
  rewrite Hnil in Hx. destruct Hx.
Qed.

Lemma resolve_undefined_gen : forall (self ctx : tree D) sep ms tail, header_end tail -> desig self ctx ms = [] ->
  exists toks', resolve self ctx (gstream sep ms tail) = RFail UndefinedHeader toks'.
Proof.
  intros self. induction self as [n d c0|n d sub IH] using tree_ind';
    intros ctx sep ms tail Hend Hnil.
  - destruct ms as [|m ms']; [discriminate Hnil|].
    rewrite resolve_leaf_cons. eexists. reflexivity.
  - destruct ms as [|m ms'].
    + cbn [gstream]. rewrite resolve_branch_nil by exact Hend. rewrite desig_branch_nil in Hnil.
      destruct (find_dleaf tail ctx sub) as [r|] eqn:Hl.
      * destruct (find_dleaf_some _ _ _ _ Hl) as [n' [c' [Hin ->]]].
        assert (E : desig (Leaf n' true c') ctx [] = []) by (eapply dn_go_nil; eauto).
        discriminate E.
      * destruct (find_dbranch tail ctx sub) as [r|] eqn:Hb; [|eexists; reflexivity].
        destruct (find_dbranch_some _ _ _ _ Hb) as [n' [sub' [Hin ->]]].
        apply (IH _ Hin ctx false [] tail Hend). eapply dn_go_nil; eauto.
    + rewrite resolve_branch_cons. rewrite desig_branch_cons in Hnil.
      destruct (first_match (Branch n d sub) m (gstream true ms' tail) sub) as [r|] eqn:Hf.
      * destruct (first_match_some _ _ _ _ _ Hf) as [ch [Hin [Hm ->]]].
        apply (IH _ Hin _ true ms' tail Hend). eapply dc_go_nil_match; eauto.
      * destruct (find_dbranch (gstream false (m :: ms') tail) (Branch n d sub) sub) as [r|] eqn:Hb; [|eexists; reflexivity].
        destruct (find_dbranch_some _ _ _ _ Hb) as [n' [sub' [Hin ->]]].
        apply (IH _ Hin _ false (m :: ms') tail Hend).
        rewrite (desig_ctx_indep _ _ ctx). eapply dc_go_nil_dflt; eauto.
Qed.

(* nothing designated: -113, and (by definition of exec) no handler is invoked *)
Theorem resolve_undefined : forall (self ctx : tree D) ms tail, header_end tail -> desig self ctx ms = [] ->
  exists toks', resolve self ctx (hdr_toks ms ++ tail) = RFail UndefinedHeader toks'.
Proof.
  intros self ctx ms tail Hend Hnil. rewrite <- gstream_false. apply resolve_undefined_gen; assumption.
Qed.

Theorem exec_undefined_invokes_nothing : forall (self ctx : tree D) s e toks', resolve self ctx (x_toks s) = RFail e toks' ->
  exec self ctx s = XErr (std_error e) (with_toks s toks') /\ x_trace (with_toks s toks') = x_trace s.
Proof.
  intros self ctx s e toks' H. unfold exec. rewrite H. split; reflexivity.
Qed.

(* ------------------------------------------------------------------ *)
(* well-formedness is inherited                                        *)
(* ------------------------------------------------------------------ *)
Lemma all_subtrees_self : forall t : tree D, In t (all_subtrees t).
Proof. intros [n d c|n d sub]; left; reflexivity. Qed.

Lemma as_go_in : forall l (ch b : tree D), In ch l -> In b (all_subtrees ch) -> In b (as_go l).
Proof.
  intros l ch b. induction l as [|a l IH]; intros Hin Hb; [destruct Hin|].
  cbn [as_go]. fold as_go. apply in_or_app. destruct Hin as [->|Hin]; [left; exact Hb|right; auto].
Qed.

Lemma wf_child : forall n d sub (ch : tree D), wf_tree (Branch n d sub) -> In ch sub -> wf_tree ch.
Proof.
  intros n d sub ch Hwf Hin b Hb. apply Hwf. rewrite all_subtrees_branch. right.
  eapply as_go_in; eauto.
Qed.

Definition dfb (ch : tree D) : bool := is_default ch && is_branch ch.

Lemma wf_self : forall n d sub, wf_tree (Branch n d sub) ->
  unambiguous_lookup (lk_go sub) /\ (length (el_go sub) <= 1)%nat /\ (length (filter dfb sub) <= 1)%nat.
Proof.
  intros n d sub Hwf. exact (Hwf _ (all_subtrees_self _)).
Qed.

(* ------------------------------------------------------------------ *)
(* unambiguous lookups                                                 *)
(* ------------------------------------------------------------------ *)
Lemma ua_app_disjoint : forall (l1 l2 : list (tree D)) a b m, unambiguous_lookup (l1 ++ l2) ->
  In a l1 -> In b l2 -> mnemonic_match (node_name a) m = true -> mnemonic_match (node_name b) m = true -> False.
Proof.
  intros l1 l2 a b m Hua Ha Hb Hma Hmb.
  destruct (In_nth_error _ _ Ha) as [i Hi]. destruct (In_nth_error _ _ Hb) as [j Hj].
  assert (Hlt : (i < length l1)%nat) by (apply nth_error_Some; rewrite Hi; discriminate).
  assert (H1 : nth_error (l1 ++ l2) i = Some a) by (rewrite nth_error_app1 by exact Hlt; exact Hi).
  assert (H2 : nth_error (l1 ++ l2) (length l1 + j)%nat = Some b).
  { rewrite nth_error_app2 by lia. replace (length l1 + j - length l1)%nat with j by lia. exact Hj. }
  pose proof (Hua _ _ _ _ _ H1 H2 Hma Hmb). lia.
Qed.

Lemma ua_app_r : forall (l1 l2 : list (tree D)), unambiguous_lookup (l1 ++ l2) -> unambiguous_lookup l2.
Proof.
  intros l1 l2 Hua i j m a b Hi Hj Hma Hmb.
  assert (H1 : nth_error (l1 ++ l2) (length l1 + i)%nat = Some a).
  { rewrite nth_error_app2 by lia. replace (length l1 + i - length l1)%nat with i by lia. exact Hi. }
  assert (H2 : nth_error (l1 ++ l2) (length l1 + j)%nat = Some b).
  { rewrite nth_error_app2 by lia. replace (length l1 + j - length l1)%nat with j by lia. exact Hj. }
  pose proof (Hua _ _ _ _ _ H1 H2 Hma Hmb). lia.
Qed.

Lemma lk_go_cons : forall (a : tree D) l,
  lk_go (a :: l) = (a :: (if dfb a then lookup_nodes a else [])) ++ lk_go l.
Proof. reflexivity. Qed.

Lemma lk_go_child : forall l (ch : tree D), In ch l -> In ch (lk_go l).
Proof.
  intros l ch. induction l as [|a l IH]; intros Hin; [destruct Hin|].
  rewrite lk_go_cons. destruct Hin as [->|Hin].
  - left. reflexivity.
  - apply in_or_app. right. auto.
Qed.

Lemma lk_go_dflt : forall l (ch nd : tree D), In ch l -> dfb ch = true -> In nd (lookup_nodes ch) -> In nd (lk_go l).
Proof.
  intros l ch nd. induction l as [|a l IH]; intros Hin Hd Hnd; [destruct Hin|].
  rewrite lk_go_cons. destruct Hin as [->|Hin].
  - right. apply in_or_app. left. rewrite Hd. exact Hnd.
  - apply in_or_app. right. auto.
Qed.

(* a non-empty designation of m :: _ means some node of the lookup matches m *)
Lemma desig_cons_lookup : forall (t ctx : tree D) m ms' x, In x (desig t ctx (m :: ms')) ->
  exists nd, In nd (lookup_nodes t) /\ mnemonic_match (node_name nd) m = true.
Proof.
  intros t. induction t as [n d c|n d sub IH] using tree_ind'; intros ctx m ms' x Hx.
  - destruct Hx.
  - rewrite desig_branch_cons in Hx. rewrite lookup_nodes_branch.
    destruct (dc_go_inv _ _ _ _ _ _ Hx) as [ch [Hin [[Hm _]|[Hd [Hb Hx']]]]].
    + exists ch. split; [apply lk_go_child; exact Hin|exact Hm].
    + destruct (IH _ Hin _ _ _ _ Hx') as [nd [Hnd Hm]]. exists nd. split; [|exact Hm].
      eapply lk_go_dflt; [exact Hin| |exact Hnd]. unfold dfb. rewrite Hd, Hb. reflexivity.
Qed.

Lemma dc_go_lookup : forall (self ctx : tree D) m ms' l x, In x (dc_go self ctx m ms' l) ->
  exists nd, In nd (lk_go l) /\ mnemonic_match (node_name nd) m = true.
Proof.
  intros self ctx m ms' l x Hx.
  destruct (dc_go_inv _ _ _ _ _ _ Hx) as [ch [Hin [[Hm _]|[Hd [Hb Hx']]]]].
  - exists ch. split; [apply lk_go_child; exact Hin|exact Hm].
  - destruct (desig_cons_lookup _ _ _ _ _ Hx') as [nd [Hnd Hm]]. exists nd. split; [|exact Hm].
    eapply lk_go_dflt; [exact Hin| |exact Hnd]. unfold dfb. rewrite Hd, Hb. reflexivity.
Qed.

(* a non-empty designation of the empty path means an end leaf is reachable *)
Lemma el_go_cons : forall (a : tree D) l,
  el_go (a :: l) = (if is_default a then (if is_branch a then end_leaves a else [a]) else []) ++ el_go l.
Proof. reflexivity. Qed.

Lemma el_go_in : forall l (ch y : tree D), In ch l -> is_default ch = true ->
  In y (if is_branch ch then end_leaves ch else [ch]) -> In y (el_go l).
Proof.
  intros l ch y. induction l as [|a l IH]; intros Hin Hd Hy; [destruct Hin|].
  rewrite el_go_cons. apply in_or_app. destruct Hin as [->|Hin].
  - left. rewrite Hd. exact Hy.
  - right. auto.
Qed.

Lemma desig_nil_el : forall (t ctx : tree D) x, In x (desig t ctx []) -> is_branch t = true ->
  exists y, In y (end_leaves t).
Proof.
  intros t. induction t as [n d c|n d sub IH] using tree_ind'; intros ctx x Hx Hb.
  - discriminate Hb.
  - rewrite desig_branch_nil in Hx. rewrite end_leaves_branch.
    destruct (dn_go_inv _ _ _ Hx) as [ch [Hin [Hd Hx']]].
    destruct (is_branch ch) eqn:Hbc.
    + destruct (IH _ Hin _ _ Hx' Hbc) as [y Hy]. exists y.
      eapply el_go_in; [exact Hin|exact Hd|]. rewrite Hbc. exact Hy.
    + exists ch. eapply el_go_in; [exact Hin|exact Hd|]. rewrite Hbc. left. reflexivity.
Qed.

Lemma dn_go_el : forall (ctx : tree D) l x, In x (dn_go ctx l) -> exists y, In y (el_go l).
Proof.
  intros ctx l x Hx. destruct (dn_go_inv _ _ _ Hx) as [ch [Hin [Hd Hx']]].
  destruct (is_branch ch) eqn:Hbc.
  - destruct (desig_nil_el _ _ _ Hx' Hbc) as [y Hy]. exists y.
    eapply el_go_in; [exact Hin|exact Hd|]. rewrite Hbc. exact Hy.
  - exists ch. eapply el_go_in; [exact Hin|exact Hd|]. rewrite Hbc. left. reflexivity.
Qed.

Lemma in_length_pos : forall (A : Type) (l : list A) y, In y l -> (1 <= length l)%nat.
Proof. intros A [|a l] y H; [destruct H|cbn; lia]. Qed.

Lemma filter_in_len : forall (f : tree D -> bool) l ch, In ch l -> f ch = true -> (1 <= length (filter f l))%nat.
Proof.
  intros f l ch Hin Hf. apply (in_length_pos _ _ ch). apply filter_In. split; assumption.
Qed.

(* ------------------------------------------------------------------ *)
(* completeness on unambiguous trees                                   *)
(* ------------------------------------------------------------------ *)
Lemma complete_nil_list : forall (ctx : tree D) tail c ctx' l,
  (length (el_go l) <= 1)%nat -> (length (filter dfb l) <= 1)%nat ->
  (forall ch, In ch l -> In (c, ctx') (desig ch ctx []) ->
     resolve ch ctx tail = RFound c (is_query_tail tail) ctx' (after_header tail)) ->
  In (c, ctx') (dn_go ctx l) ->
  match find_dleaf tail ctx l with
  | Some r => r
  | None => match find_dbranch tail ctx l with
            | Some r => r
            | None => RFail UndefinedHeader tail
            end
  end = RFound c (is_query_tail tail) ctx' (after_header tail).
Proof.
  intros ctx tail c ctx' l. induction l as [|a l IH]; intros Hel Hdf Hch Hx; [destruct Hx|].
  cbn [dn_go] in Hx. fold (dn_go ctx) in Hx. rewrite el_go_cons in Hel. rewrite app_length in Hel.
  apply in_app_or in Hx. destruct Hx as [Hx|Hx].
  - (* designated through the head *)
    destruct a as [n dd c0|n dd sub']; cbn [is_default] in Hx; destruct dd; try (destruct Hx; fail).
    + cbn [find_dleaf]. apply Hch; [left; reflexivity|exact Hx].
    + cbn [find_dleaf find_dbranch]. fold (find_dleaf tail ctx).
      destruct (desig_nil_el _ _ _ Hx eq_refl) as [y Hy].
      cbn [is_default is_branch] in Hel. pose proof (in_length_pos _ _ _ Hy) as Hpos.
      destruct (find_dleaf tail ctx l) as [r|] eqn:Hl.
      * exfalso. destruct (find_dleaf_some _ _ _ _ Hl) as [n' [c' [Hin _]]].
        assert (Hy' : In (Leaf n' true c') (el_go l)).
        { eapply el_go_in; [exact Hin|reflexivity|]. left. reflexivity. }
        pose proof (in_length_pos _ _ _ Hy'). lia.
      * apply Hch; [left; reflexivity|exact Hx].
  - (* designated through the tail *)
    destruct (dn_go_el _ _ _ Hx) as [y Hy]. pose proof (in_length_pos _ _ _ Hy) as Hpos.
    assert (Hdf' : (length (filter dfb l) <= 1)%nat).
    { cbn [filter] in Hdf. destruct (dfb a); cbn [length] in Hdf; lia. }
    assert (IH' := IH ltac:(lia) Hdf' (fun ch Hin => Hch ch (or_intror Hin)) Hx).
    destruct a as [n dd c0|n dd sub']; destruct dd.
    + cbn [is_default is_branch length] in Hel. lia.
    + cbn [find_dleaf find_dbranch]. exact IH'.
    + cbn [find_dleaf find_dbranch]. fold (find_dleaf tail ctx).
      destruct (find_dleaf tail ctx l) as [r|] eqn:Hl; [exact IH'|].
      exfalso. destruct (find_dbranch tail ctx l) as [r|] eqn:Hb; [|discriminate IH'].
      destruct (find_dbranch_some _ _ _ _ Hb) as [n' [sub'' [Hin _]]].
      pose proof (filter_in_len dfb l _ Hin eq_refl) as Hge.
      cbn [filter dfb is_default is_branch andb length] in Hdf. lia.
    + cbn [find_dleaf find_dbranch]. exact IH'.
Qed.

Lemma complete_cons_list : forall (self ctx : tree D) m ms' tail c ctx' l,
  unambiguous_lookup (lk_go l) -> (length (filter dfb l) <= 1)%nat ->
  (forall ch, In ch l -> In (c, ctx') (desig ch self ms') ->
     resolve ch self (gstream true ms' tail) = RFound c (is_query_tail tail) ctx' (after_header tail)) ->
  (forall ch, In ch l -> In (c, ctx') (desig ch self (m :: ms')) ->
     resolve ch self (gstream false (m :: ms') tail) = RFound c (is_query_tail tail) ctx' (after_header tail)) ->
  In (c, ctx') (dc_go self ctx m ms' l) ->
  match first_match self m (gstream true ms' tail) l with
  | Some r => r
  | None => match find_dbranch (gstream false (m :: ms') tail) self l with
            | Some r => r
            | None => RFail UndefinedHeader (gstream false (m :: ms') tail)
            end
  end = RFound c (is_query_tail tail) ctx' (after_header tail).
Proof.
  intros self ctx m ms' tail c ctx' l. induction l as [|a l IH]; intros Hua Hdf H1 H2 Hx; [destruct Hx|].
  cbn [dc_go] in Hx. fold (dc_go self ctx m ms') in Hx. rewrite lk_go_cons in Hua.
  cbn [first_match]. fold (first_match self m (gstream true ms' tail)).
  apply in_app_or in Hx. destruct Hx as [Hx|Hx].
  - (* the head is spelled out *)
    destruct (mnemonic_match (node_name a) m) eqn:Hm; [|destruct Hx].
    apply H1; [left; reflexivity|exact Hx].
  - apply in_app_or in Hx. destruct Hx as [Hx|Hx].
    + (* through the head, a default branch *)
      destruct (is_default a) eqn:Hd; [|destruct Hx]. destruct (is_branch a) eqn:Hb; [|destruct Hx].
      cbn [andb] in Hx.
      assert (Hdfb : dfb a = true) by (unfold dfb; rewrite Hd, Hb; reflexivity).
      rewrite Hdfb in Hua.
      destruct (desig_cons_lookup _ _ _ _ _ Hx) as [nd [Hnd Hmnd]].
      destruct (mnemonic_match (node_name a) m) eqn:Hm.
      { exfalso. change (a :: lookup_nodes a) with ([a] ++ lookup_nodes a) in Hua. rewrite <- app_assoc in Hua.
        eapply (ua_app_disjoint [a] _ a nd m Hua); [left; reflexivity| |exact Hm|exact Hmnd].
        apply in_or_app. left. exact Hnd. }
      destruct (first_match self m (gstream true ms' tail) l) as [r|] eqn:Hf.
      { exfalso. destruct (first_match_some _ _ _ _ _ Hf) as [ch [Hin [Hmc _]]].
        eapply (ua_app_disjoint _ _ nd ch m Hua); [right; exact Hnd|apply lk_go_child; exact Hin|exact Hmnd|exact Hmc]. }
      destruct a as [n dd c0|n dd sub']; [discriminate Hb|]. cbn [is_default] in Hd. subst dd.
      cbn [find_dbranch]. apply H2; [left; reflexivity|].
      rewrite (desig_ctx_indep _ self ctx). exact Hx.
    + (* through the tail *)
      destruct (dc_go_lookup _ _ _ _ _ _ Hx) as [nd [Hnd Hmnd]].
      destruct (mnemonic_match (node_name a) m) eqn:Hm.
      { exfalso. eapply (ua_app_disjoint _ _ a nd m Hua); [left; reflexivity|exact Hnd|exact Hm|exact Hmnd]. }
      assert (Hdf' : (length (filter dfb l) <= 1)%nat).
      { cbn [filter] in Hdf. destruct (dfb a); cbn [length] in Hdf; lia. }
      assert (IH' := IH (ua_app_r _ _ Hua) Hdf' (fun ch Hin => H1 ch (or_intror Hin))
                        (fun ch Hin => H2 ch (or_intror Hin)) Hx).
      destruct (first_match self m (gstream true ms' tail) l) as [r|] eqn:Hf; [exact IH'|].
      destruct a as [n dd c0|n dd sub']; [cbn [find_dbranch]; exact IH'|]. destruct dd; [|cbn [find_dbranch]; exact IH'].
      exfalso. destruct (find_dbranch (gstream false (m :: ms') tail) self l) as [r|] eqn:Hbr; [|discriminate IH'].
      destruct (find_dbranch_some _ _ _ _ Hbr) as [n' [sub'' [Hin _]]].
      pose proof (filter_in_len dfb l _ Hin eq_refl) as Hge.
      cbn [filter dfb is_default is_branch andb length] in Hdf. lia.
Qed.

Lemma resolve_complete_gen : forall (self : tree D), wf_tree self ->
  forall (ctx : tree D) sep ms tail c ctx', header_end tail -> In (c, ctx') (desig self ctx ms) ->
  resolve self ctx (gstream sep ms tail) = RFound c (is_query_tail tail) ctx' (after_header tail).
Proof.
  intros self. induction self as [n d c0|n d sub IH] using tree_ind';
    intros Hwf ctx sep ms tail c ctx' Hend Hx.
  - destruct ms as [|m ms']; [|destruct Hx].
    cbn [gstream]. rewrite resolve_leaf_nil by exact Hend.
    destruct Hx as [Hx|[]]. injection Hx as <- <-. reflexivity.
  - destruct (wf_self _ _ _ Hwf) as [Hua [Hel Hdf]].
    destruct ms as [|m ms'].
    + cbn [gstream]. rewrite resolve_branch_nil by exact Hend. rewrite desig_branch_nil in Hx.
      apply complete_nil_list; [exact Hel|exact Hdf| |exact Hx].
      intros ch Hin Hc. apply (IH _ Hin (wf_child _ _ _ _ Hwf Hin) ctx false [] tail c ctx' Hend Hc).
    + rewrite resolve_branch_cons. rewrite desig_branch_cons in Hx.
      apply (complete_cons_list _ ctx); [exact Hua|exact Hdf| | |exact Hx].
      * intros ch Hin Hc. apply (IH _ Hin (wf_child _ _ _ _ Hwf Hin) _ true ms' tail c ctx' Hend Hc).
      * intros ch Hin Hc. apply (IH _ Hin (wf_child _ _ _ _ Hwf Hin) _ false (m :: ms') tail c ctx' Hend Hc).
Qed.

(* completeness and uniqueness on unambiguous trees *)
Theorem resolve_complete : forall (self ctx : tree D) ms tail c ctx', wf_tree self -> header_end tail ->
  In (c, ctx') (desig self ctx ms) ->
  resolve self ctx (hdr_toks ms ++ tail) = RFound c (is_query_tail tail) ctx' (after_header tail).
Proof.
  intros self ctx ms tail c ctx' Hwf Hend Hx. rewrite <- gstream_false.
  apply resolve_complete_gen; assumption.
Qed.

Theorem designation_unique : forall (self ctx : tree D) ms x y, wf_tree self ->
  In x (desig self ctx ms) -> In y (desig self ctx ms) -> x = y.
Proof.
  intros self ctx ms [c1 ctx1] [c2 ctx2] Hwf Hx Hy.
  assert (Hend : header_end []) by (left; reflexivity).
  pose proof (resolve_complete self ctx ms [] c1 ctx1 Hwf Hend Hx) as E1.
  pose proof (resolve_complete self ctx ms [] c2 ctx2 Hwf Hend Hy) as E2.
  rewrite E1 in E2. injection E2 as <- <-. reflexivity.
Qed.

End HeaderProofs.

Print Assumptions resolve_sound.
Print Assumptions resolve_undefined.
Print Assumptions exec_undefined_invokes_nothing.
Print Assumptions resolve_complete.
Print Assumptions designation_unique.
