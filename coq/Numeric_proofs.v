(* Numeric_proofs.v — proofs about Numeric.v (C17), for an arbitrary carrier T. *)
From VF Require Import Base Gen_Errors Lexer Mnemonic MnemonicSpec Mnemonic_proofs Numeric.
From Coq Require Import Lia.

Section NumericProofs.
Context {T : Type}.
Variable leb : T -> T -> bool.
Variable convT : token -> outcome (res T).
Variables tmax tmin : T.
Notation nvT := (@nv T).
Notation try_from := (nv_try_from convT).
Notation fin := (finish leb).
Notation bld := (build tmax tmin).

(* ---- keywords: exactly the short and the long form, any letter case ---- *)
Definition is_keyword (U L s : list byte) : bool := bytes_eq_nocase (U ++ L) s || bytes_eq_nocase U s.

Lemma kw_split_max : kw_MAXimum = [77; 65; 88]%N ++ [105; 109; 117; 109]%N. Proof. reflexivity. Qed.
Lemma kw_split_min : kw_MINimum = [77; 73; 78]%N ++ [105; 109; 117; 109]%N. Proof. reflexivity. Qed.
Lemma kw_split_def : kw_DEFault = [68; 69; 70]%N ++ [97; 117; 108; 116]%N. Proof. reflexivity. Qed.
Lemma kw_split_up : kw_UP = [85; 80]%N ++ []. Proof. reflexivity. Qed.
Lemma kw_split_down : kw_DOWN = [68; 79; 87; 78]%N ++ []. Proof. reflexivity. Qed.

Lemma shape_max : keyword_shape [77; 65; 88]%N [105; 109; 117; 109]%N. Proof. repeat split; try reflexivity; discriminate. Qed.
Lemma shape_min : keyword_shape [77; 73; 78]%N [105; 109; 117; 109]%N. Proof. repeat split; try reflexivity; discriminate. Qed.
Lemma shape_def : keyword_shape [68; 69; 70]%N [97; 117; 108; 116]%N. Proof. repeat split; try reflexivity; discriminate. Qed.
Lemma shape_up : keyword_shape [85; 80]%N []. Proof. repeat split; try reflexivity; discriminate. Qed.
Lemma shape_down : keyword_shape [68; 79; 87; 78]%N []. Proof. repeat split; try reflexivity; discriminate. Qed.

(* the five keyword tests are exactly "equals the short form or the long form, ignoring case" *)
Theorem keyword_tests : forall s,
  mnemonic_compare kw_MAXimum s = is_keyword [77; 65; 88]%N [105; 109; 117; 109]%N s /\
  mnemonic_compare kw_MINimum s = is_keyword [77; 73; 78]%N [105; 109; 117; 109]%N s /\
  mnemonic_compare kw_DEFault s = is_keyword [68; 69; 70]%N [97; 117; 108; 116]%N s /\
  mnemonic_compare kw_UP s = is_keyword [85; 80]%N [] s /\
  mnemonic_compare kw_DOWN s = is_keyword [68; 79; 87; 78]%N [] s.
Proof.
  intro s. unfold is_keyword.
  rewrite kw_split_max, kw_split_min, kw_split_def, kw_split_up, kw_split_down.
  repeat split; apply compare_keyword;
    [apply shape_max | apply shape_min | apply shape_def | apply shape_up | apply shape_down].
Qed.

(* character data: the first matching keyword wins, anything else converts as the underlying type *)
Theorem nv_keywords : forall s,
  try_from (TChar s) =
  if mnemonic_compare kw_MAXimum s then Val (Ok NMax)
  else if mnemonic_compare kw_MINimum s then Val (Ok NMin)
  else if mnemonic_compare kw_DEFault s then Val (Ok NDef)
  else if mnemonic_compare kw_UP s then Val (Ok NUp)
  else if mnemonic_compare kw_DOWN s then Val (Ok NDown)
  else nv_value convT (TChar s).
Proof. reflexivity. Qed.

Theorem nv_other_elements : forall tok, (forall s, tok <> TChar s) -> try_from tok = nv_value convT tok.
Proof. intros tok H. destruct tok; try reflexivity. exfalso. eapply H. reflexivity. Qed.

(* a plain value is whatever the underlying conversion returns, errors included *)
Theorem nv_value_spec : forall tok,
  nv_value convT tok = match convT tok with
                       | Val (Ok t) => Val (Ok (NVal t)) | Val (Err e) => Val (Err e) | Panic s => Panic s end.
Proof. intro tok. unfold nv_value, obind. destruct (convT tok) as [[t|e]|s]; reflexivity. Qed.

(* ---- the builder: the LAST call of each kind wins, whatever the order of the calls ---- *)
Definition last_max (ops : list (@bop T)) : T := fold_left (fun a o => match o with BMax t => t | _ => a end) ops tmax.
Definition last_min (ops : list (@bop T)) : T := fold_left (fun a o => match o with BMin t => t | _ => a end) ops tmin.
Definition last_default (ops : list (@bop T)) : option T :=
  fold_left (fun (a : option T) o => match o with BDefault t => Some t | _ => a end) ops None.

Lemma build_fields_gen : forall (ops : list (@bop T)) (b : @builder T),
  let b' := fold_left b_apply ops b in
  b_value b' = b_value b
  /\ b_max b' = fold_left (fun a o => match o with BMax t => t | _ => a end) ops (b_max b)
  /\ b_min b' = fold_left (fun a o => match o with BMin t => t | _ => a end) ops (b_min b)
  /\ b_default b' = fold_left (fun a o => match o with BDefault t => Some t | _ => a end) ops (b_default b).
Proof.
  induction ops as [|o ops IH]; intro b; cbn [fold_left].
  - repeat split.
  - specialize (IH (b_apply b o)). cbv zeta in IH. destruct IH as (Hv & Hx & Hn & Hd).
    destruct o; cbn [b_apply b_value b_max b_min b_default] in *; repeat split; assumption.
Qed.

Theorem build_fields : forall v ops,
  b_value (bld v ops) = v /\ b_max (bld v ops) = last_max ops
  /\ b_min (bld v ops) = last_min ops /\ b_default (bld v ops) = last_default ops.
Proof. intros v ops. unfold build. apply (build_fields_gen ops (mkBuilder v tmax tmin None)). Qed.

(* ---- resolution: the five cases of the statement ---- *)
Theorem finish_max : forall b, b_value b = NMax -> fin b = Ok (b_max b).
Proof. intros b H. unfold finish. rewrite H. reflexivity. Qed.
Theorem finish_min : forall b, b_value b = NMin -> fin b = Ok (b_min b).
Proof. intros b H. unfold finish. rewrite H. reflexivity. Qed.
Theorem finish_default : forall b, b_value b = NDef ->
  fin b = match b_default b with Some d => Ok d | None => Err IllegalParameterValue end.
Proof. intros b H. unfold finish. rewrite H. reflexivity. Qed.
Theorem finish_up_down : forall b, b_value b = NUp \/ b_value b = NDown -> fin b = Err IllegalParameterValue.
Proof. intros b [H|H]; unfold finish; rewrite H; reflexivity. Qed.
Theorem finish_value : forall b t, b_value b = NVal t ->
  fin b = if leb t (b_max b) && leb (b_min b) t then Ok t else Err DataOutOfRange.
Proof. intros b t H. unfold finish. rewrite H. reflexivity. Qed.

(* a successfully resolved plain value lies within [min, max], for ANY order (also a partial one: NaN never passes) *)
Theorem value_in_range : forall b t v, b_value b = NVal t -> fin b = Ok v ->
  v = t /\ leb v (b_max b) = true /\ leb (b_min b) v = true.
Proof.
  intros b t v H F. rewrite (finish_value b t H) in F.
  destruct (leb t (b_max b)) eqn:E1; destruct (leb (b_min b) t) eqn:E2; cbn in F; try discriminate.
  inversion F; subst. auto.
Qed.

(* with a sane configuration (min <= max, both comparable with themselves, default inside) EVERY successful
   resolution lies within [min, max] *)
Theorem resolved_in_range : forall b v,
  leb (b_min b) (b_max b) = true -> leb (b_max b) (b_max b) = true -> leb (b_min b) (b_min b) = true ->
  (forall d, b_default b = Some d -> leb d (b_max b) = true /\ leb (b_min b) d = true) ->
  fin b = Ok v -> leb v (b_max b) = true /\ leb (b_min b) v = true.
Proof.
  intros b v Hmm Hxx Hnn Hd F. unfold finish in F.
  destruct (b_value b) as [t| | | | |] eqn:V.
  - destruct (leb t (b_max b)) eqn:E1; destruct (leb (b_min b) t) eqn:E2; cbn in F; try discriminate.
    inversion F; subst; auto.
  - inversion F; subst; auto.
  - inversion F; subst; auto.
  - destruct (b_default b) as [d|] eqn:D; try discriminate. inversion F; subst. apply Hd. reflexivity.
  - discriminate.
  - discriminate.
Qed.

(* out of range is -222, and only a plain value can produce it *)
Theorem out_of_range_only_for_values : forall b, fin b = Err DataOutOfRange ->
  exists t, b_value b = NVal t /\ leb t (b_max b) && leb (b_min b) t = false.
Proof.
  intros b F. unfold finish in F. destruct (b_value b) as [t| | | | |] eqn:V; try discriminate.
  - exists t. split; [reflexivity|]. destruct (leb t (b_max b) && leb (b_min b) t); [discriminate|reflexivity].
  - destruct (b_default b); discriminate.
Qed.
End NumericProofs.

(* non-vacuity on a NaN-like carrier: an order in which one element is incomparable with everything *)
Example nan_never_resolves :
  let leb (a b : option nat) := match a, b with Some x, Some y => Nat.leb x y | _, _ => false end in
  finish leb (mkBuilder (NVal None) (Some 10%nat) (Some 0%nat) None) = Err DataOutOfRange
  /\ finish leb (mkBuilder (NVal (Some 5%nat)) (Some 10%nat) (Some 0%nat) None) = Ok (Some 5%nat).
Proof. split; reflexivity. Qed.
