(* Proofs for C15, C16 and the device-level part of C13. *)
From Coq Require Import Lia.
From VF Require Import Base Gen_Errors Gen_Esr ErrTable ErrSpec ErrTable_proofs Queue Status StatusSpec.
Open Scope N_scope.

(* ================= C15 ================= *)
Lemma m16_bits : forall i, i < 16 -> N.testbit m16 i = true.
Proof. intros i H. change m16 with (N.ones 16). apply N.ones_spec_low. assumption. Qed.

Lemma fold_snoc : forall {A B} (f : A -> B -> A) l x a, fold_left f (l ++ [x]) a = f (fold_left f l a) x.
Proof. intros. rewrite fold_left_app. reflexivity. Qed.

Lemma reg_run_snoc : forall h o, reg_run (h ++ [o]) = fst (reg_step (reg_run h) o).
Proof. intros. unfold reg_run. rewrite fold_left_app. reflexivity. Qed.

(* the stored condition and filters are the last-write-wins views *)
Lemma reg_fields : forall h,
  condition (reg_run h) = cond_of h /\ ptr_filter (reg_run h) = ptr_of h
  /\ ntr_filter (reg_run h) = ntr_of h /\ enable (reg_run h) = enable_of h.
Proof.
  induction h as [|o h IH] using rev_ind; [repeat split|].
  rewrite reg_run_snoc. unfold cond_of, ptr_of, ntr_of, enable_of. rewrite !fold_snoc.
  destruct IH as (Hc & Hp & Hn & He). fold (cond_of h) (ptr_of h) (ntr_of h) (enable_of h).
  rewrite <- Hc, <- Hp, <- Hn, <- He. destruct o; repeat split.
Qed.

Lemma set_condition_bit : forall r c i, i < 16 ->
  N.testbit (event (reg_set_condition r c)) i =
  N.testbit (event r) i
  || (xorb (N.testbit (condition r) i) (N.testbit c i)
      && ((N.testbit c i && N.testbit (ptr_filter r) i) || (negb (N.testbit c i) && N.testbit (ntr_filter r) i))).
Proof.
  intros r c i Hi. unfold reg_set_condition, not16. cbn [event].
  rewrite N.lor_spec, N.land_spec, N.lxor_spec, N.lor_spec, !N.land_spec, N.lxor_spec, (m16_bits i Hi).
  destruct (N.testbit c i); reflexivity.
Qed.

Lemma latched_nil : forall i, ~ latched i [].
Proof. intros i (h1 & c & h2 & E & _). destruct h1; discriminate. Qed.

Lemma latched_snoc : forall i h o,
  latched i (h ++ [o]) <->
  (clears o = false /\ latched i h)
  \/ (exists c, o = RSet c /\ N.testbit (cond_of h) i <> N.testbit c i
        /\ ((N.testbit c i = true /\ N.testbit (ptr_of h) i = true)
            \/ (N.testbit c i = false /\ N.testbit (ntr_of h) i = true))).
Proof.
  intros i h o. split.
  - intros (h1 & c & h2 & E & Hcl & Hne & Hf).
    destruct h2 as [|x h2] using rev_ind.
    + right. change (h1 ++ [RSet c]) with (h1 ++ [RSet c]) in E. apply app_inj_tail in E. destruct E as [-> ->].
      exists c. auto.
    + clear IHh2. left.
      replace (h1 ++ RSet c :: h2 ++ [x]) with ((h1 ++ RSet c :: h2) ++ [x]) in E by (rewrite <- app_assoc; reflexivity).
      apply app_inj_tail in E. destruct E as [-> ->].
      rewrite forallb_app in Hcl. apply andb_prop in Hcl. destruct Hcl as [Hcl Hx]. cbn in Hx.
      split; [destruct (clears x); [discriminate|reflexivity]|]. exists h1, c, h2. auto.
  - intros [[Hc (h1 & c & h2 & -> & Hcl & Hne & Hf)]|(c & -> & Hne & Hf)].
    + exists h1, c, (h2 ++ [o]). split; [rewrite <- app_assoc; reflexivity|]. split; [|auto].
      rewrite forallb_app, Hcl. cbn. rewrite Hc. reflexivity.
    + exists h, c, []. auto.
Qed.

Lemma xorb_neq : forall a b, xorb a b = true <-> a <> b.
Proof. destruct a, b; cbn; split; congruence. Qed.

Theorem event_latched : forall h i, i < 16 ->
  (N.testbit (event (reg_run h)) i = true <-> latched i h).
Proof.
  induction h as [|o h IH] using rev_ind; intros i Hi.
  - change (event (reg_run [])) with 0. rewrite N.bits_0. split; [discriminate|]. intro H. exfalso. eapply latched_nil; eassumption.
  - rewrite reg_run_snoc, latched_snoc. specialize (IH i Hi).
    destruct (reg_fields h) as (Hc & Hp & Hn & _).
    destruct o; cbn [reg_step fst clears];
      try (cbn [event reg_clear_event]; rewrite N.bits_0; split; [discriminate|];
           intros [[? _]|(? & ? & _)]; discriminate);
      try (match goal with |- N.testbit (event ?r) i = true <-> _ =>
             change (event r) with (event (reg_run h)) end;
           rewrite IH; split; [intro; left; auto|intros [[_ ?]|(? & ? & _)]; [assumption|discriminate]]).
    (* RSet c *)
    rewrite set_condition_bit by assumption. rewrite Hc, Hp, Hn. rewrite orb_true_iff, IH. split.
    + intros [H|H]; [left; auto|]. right. exists c. split; [reflexivity|].
      apply andb_prop in H. destruct H as [Hx Hf]. apply xorb_neq in Hx. split; [assumption|].
      apply orb_prop in Hf. destruct Hf as [Hf|Hf]; apply andb_prop in Hf; destruct Hf as [H1 H2].
      * left. auto.
      * right. apply negb_true_iff in H1. auto.
    + intros [[_ H]|(c' & E & Hne & Hf)]; [left; assumption|]. inversion E; subst c'. right.
      apply andb_true_intro. split; [apply xorb_neq; assumption|].
      destruct Hf as [[H1 H2]|[H1 H2]]; rewrite H1, H2; reflexivity.
Qed.

(* every reported value has bit 15 clear *)
Lemma land_m15_bit15 : forall x, N.testbit (N.land x m15) 15 = false.
Proof. intro. rewrite N.land_spec. change (N.testbit m15 15) with false. apply andb_false_r. Qed.

Theorem reg_outputs_bit15_clear : forall r o n, snd (reg_step r o) = Some n -> N.testbit n 15 = false.
Proof. intros r o n H. destruct o; cbn in H; inversion H; apply land_m15_bit15. Qed.

(* the low 15 bits are reported faithfully *)
Lemma land_m15_low : forall x i, i < 15 -> N.testbit (N.land x m15) i = N.testbit x i.
Proof. intros. rewrite N.land_spec. change m15 with (N.ones 15). rewrite N.ones_spec_low by assumption. apply andb_true_r. Qed.

(* reads *)
Theorem event_read_clears : forall r,
  reg_step r RRdEvent = (mkReg (condition r) 0 (enable r) (ntr_filter r) (ptr_filter r), Some (N.land (event r) m15)).
Proof. reflexivity. Qed.
Theorem other_reads_pure : forall r o, In o [RRdCondition; RRdEnable; RRdPtr; RRdNtr] -> fst (reg_step r o) = r.
Proof. intros r o [<-|[<-|[<-|[<-|[]]]]]; reflexivity. Qed.

(* enable and filters read back what was last written (masked to 15 bits) *)
Theorem readback : forall h,
  snd (reg_step (reg_run h) RRdEnable) = Some (N.land (enable_of h) m15)
  /\ snd (reg_step (reg_run h) RRdPtr) = Some (N.land (ptr_of h) m15)
  /\ snd (reg_step (reg_run h) RRdNtr) = Some (N.land (ntr_of h) m15)
  /\ snd (reg_step (reg_run h) RRdCondition) = Some (N.land (cond_of h) m15).
Proof. intro h. destruct (reg_fields h) as (Hc & Hp & Hn & He). cbn [reg_step snd]. rewrite Hc, Hp, Hn, He. auto. Qed.

Theorem preset_values : forall r,
  enable (reg_preset r) = 0 /\ ptr_filter (reg_preset r) = m16 /\ ntr_filter (reg_preset r) = 0
  /\ event (reg_preset r) = event r.
Proof. intro. repeat split. Qed.

(* the two register sets do not interfere *)
Theorem reg_frame : forall mav d o, fst (fst (sop_step mav d (SReg Oper o))) = put_reg d Oper (get_reg (fst (fst (sop_step mav d (SReg Oper o)))) Oper)
  /\ ques (fst (fst (sop_step mav d (SReg Oper o)))) = ques d
  /\ oper (fst (fst (sop_step mav d (SReg Ques o)))) = oper d.
Proof. intros mav d o. destruct d, o; cbn; repeat split. Qed.

(* ================= C16 ================= *)
Lemma land_pow2 : forall k s, N.land (2 ^ k) s = if N.testbit s k then 2 ^ k else 0.
Proof.
  intros k s. apply N.bits_inj. intro j. rewrite N.land_spec, N.pow2_bits_eqb.
  destruct (N.testbit s k) eqn:E.
  - rewrite N.pow2_bits_eqb. destruct (N.eqb_spec k j); [subst; rewrite E; reflexivity|reflexivity].
  - rewrite N.bits_0. destruct (N.eqb_spec k j); [subst; rewrite E; reflexivity|reflexivity].
Qed.

Lemma bit_land : forall b k s, N.land (bit b (2 ^ k)) s =? 0 = negb (b && N.testbit s k).
Proof.
  intros b k s. destruct b; cbn [bit andb negb]; [|reflexivity].
  rewrite land_pow2. destruct (N.testbit s k); cbn [negb]; [|reflexivity].
  apply N.eqb_neq. apply N.pow_nonzero. discriminate.
Qed.

Lemma lor_eqb0 : forall a b, (N.lor a b =? 0) = (a =? 0) && (b =? 0).
Proof.
  intros a b. apply eq_true_iff_eq. rewrite andb_true_iff, !N.eqb_eq. apply N.lor_eq_0_iff.
Qed.

Definition stb_reported (d : dev) (mav : bool) (k : N) : bool :=
  if k =? 2 then negb (match queue d with [] => true | _ => false end)
  else if k =? 3 then reg_summary (ques d)
  else if k =? 4 then mav
  else if k =? 5 then negb (N.land (esr d) (ese d) =? 0)
  else if k =? 7 then reg_summary (oper d)
  else false.

Definition mss (d : dev) (mav : bool) : bool :=
  existsb (fun k => stb_reported d mav k && N.testbit (sre d) k) [2; 3; 4; 5; 7].

Lemma stb_generic : forall b2 b3 b7 b5 b4 s,
  negb (N.land (N.lor (N.lor (N.lor (N.lor (bit b2 (2 ^ 2)) (bit b3 (2 ^ 3))) (bit b7 (2 ^ 7))) (bit b5 (2 ^ 5))) (bit b4 (2 ^ 4))) s =? 0)
  = (b2 && N.testbit s 2) || ((b3 && N.testbit s 3) || ((b4 && N.testbit s 4) || ((b5 && N.testbit s 5) || ((b7 && N.testbit s 7) || false)))).
Proof.
  intros. rewrite !N.land_lor_distr_l, !lor_eqb0, !bit_land.
  destruct (b2 && N.testbit s 2), (b3 && N.testbit s 3), (b7 && N.testbit s 7), (b5 && N.testbit s 5), (b4 && N.testbit s 4); reflexivity.
Qed.

Lemma stb_answer_form : forall d mav,
  stb_answer d mav =
  N.lor (N.lor (N.lor (N.lor (N.lor
    (bit (stb_reported d mav 2) (2 ^ 2)) (bit (stb_reported d mav 3) (2 ^ 3)))
    (bit (stb_reported d mav 7) (2 ^ 7))) (bit (stb_reported d mav 5) (2 ^ 5)))
    (bit (stb_reported d mav 4) (2 ^ 4))) (bit (mss d mav) (2 ^ 6)).
Proof.
  intros d mav.
  pose proof (stb_generic (stb_reported d mav 2) (stb_reported d mav 3) (stb_reported d mav 7)
                          (stb_reported d mav 5) (stb_reported d mav 4) (sre d)) as H.
  unfold mss. cbn [existsb]. rewrite <- H. reflexivity.
Qed.

Lemma bit_testbit : forall b k j, N.testbit (bit b (2 ^ k)) j = b && (k =? j).
Proof. intros b k j. destruct b; cbn [bit andb]; [apply N.pow2_bits_eqb|apply N.bits_0]. Qed.

Ltac fin := cbn; rewrite ?andb_false_r, ?andb_true_r, ?orb_false_r; cbn; rewrite ?orb_false_r; reflexivity.

(* bit k of the STB answer, for every bit position *)
Theorem stb_bits : forall d mav k,
  N.testbit (stb_answer d mav) k =
  if k =? 6 then mss d mav else stb_reported d mav k.
Proof.
  intros d mav k. rewrite stb_answer_form. rewrite !N.lor_spec, !bit_testbit.
  unfold stb_reported at 6.
  destruct (N.eqb_spec k 6) as [->|N6]; [fin|].
  replace (6 =? k) with false by (symmetry; apply N.eqb_neq; congruence). rewrite andb_false_r, orb_false_r.
  destruct (N.eqb_spec k 2) as [->|N2]; [fin|].
  replace (2 =? k) with false by (symmetry; apply N.eqb_neq; congruence).
  destruct (N.eqb_spec k 3) as [->|N3]; [fin|].
  replace (3 =? k) with false by (symmetry; apply N.eqb_neq; congruence).
  destruct (N.eqb_spec k 4) as [->|N4]; [fin|].
  replace (4 =? k) with false by (symmetry; apply N.eqb_neq; congruence).
  destruct (N.eqb_spec k 5) as [->|N5]; [fin|].
  replace (5 =? k) with false by (symmetry; apply N.eqb_neq; congruence).
  destruct (N.eqb_spec k 7) as [->|N7]; [fin|].
  replace (7 =? k) with false by (symmetry; apply N.eqb_neq; congruence).
  rewrite !andb_false_r. reflexivity.
Qed.

(* the register summary: some bit 0..14 set in both condition and enable (DESIGN 7.4) *)
Theorem summary_iff : forall r, reg_summary r = true <->
  exists i, i < 15 /\ N.testbit (condition r) i = true /\ N.testbit (enable r) i = true.
Proof.
  intro r. unfold reg_summary. rewrite negb_true_iff, N.eqb_neq. split.
  - intro H. exists (N.log2 (N.land (N.land (condition r) (enable r)) m15)).
    pose proof (N.bit_log2 _ H) as Hb. rewrite !N.land_spec in Hb.
    apply andb_prop in Hb. destruct Hb as [Hb Hm]. apply andb_prop in Hb. destruct Hb as [H1 H2].
    split; [|auto]. destruct (N.lt_ge_cases (N.log2 (N.land (N.land (condition r) (enable r)) m15)) 15) as [Hlt|Hge]; [assumption|].
    change m15 with (N.ones 15) in Hm. rewrite N.ones_spec_high in Hm by assumption. discriminate.
  - intros (i & Hi & H1 & H2) E.
    assert (N.testbit (N.land (N.land (condition r) (enable r)) m15) i = true) as Hb.
    { rewrite !N.land_spec, H1, H2. change m15 with (N.ones 15). rewrite N.ones_spec_low by assumption. reflexivity. }
    rewrite E, N.bits_0 in Hb. discriminate.
Qed.

(* reading the status byte changes nothing *)
Theorem stb_pure : forall mav d, fst (fst (sop_step mav d SRdStb)) = d.
Proof. reflexivity. Qed.

(* *ESE / *SRE read back what was written *)
Theorem ese_sre_readback : forall mav d v,
  snd (fst (sop_step mav (fst (fst (sop_step mav d (SWrEse v)))) SRdEse)) = Some [RNum v]
  /\ snd (fst (sop_step mav (fst (fst (sop_step mav d (SWrSre v)))) SRdSre)) = Some [RNum v].
Proof. intros. split; reflexivity. Qed.

(* *CLS: ESR, both event registers and the queue are cleared; nothing else moves *)
Theorem cls_effect : forall d,
  let d' := scpi_cls d in
  esr d' = 0 /\ queue d' = [] /\ event (oper d') = 0 /\ event (ques d') = 0
  /\ ese d' = ese d /\ sre d' = sre d
  /\ enable (oper d') = enable (oper d) /\ enable (ques d') = enable (ques d)
  /\ ptr_filter (oper d') = ptr_filter (oper d) /\ ntr_filter (oper d') = ntr_filter (oper d)
  /\ ptr_filter (ques d') = ptr_filter (ques d) /\ ntr_filter (ques d') = ntr_filter (ques d)
  /\ condition (oper d') = condition (oper d) /\ condition (ques d') = condition (ques d).
Proof. intro d. cbn. repeat split. Qed.

Theorem opc_sets_bit0 : forall d, esr (scpi_opc d) = N.lor (esr d) 1
  /\ queue (scpi_opc d) = queue d ++ [std_error OperationComplete].
Proof. intro d. split; reflexivity. Qed.

Theorem opcq_tst_answers : forall mav d,
  snd (fst (sop_step mav d SOpcQ)) = Some [RNum 1]
  /\ snd (fst (sop_step mav d STstQ)) = Some [RInt (match tst_result d with None => 0%Z | Some c => c end)]
  /\ fst (fst (sop_step mav d SOpcQ)) = d /\ fst (fst (sop_step mav d STstQ)) = d.
Proof. intros. repeat split. Qed.

Theorem rst_wai_frame : forall mav d, fst (fst (sop_step mav d SRst)) = d /\ fst (fst (sop_step mav d SWai)) = d.
Proof. intros. split; reflexivity. Qed.

(* ================= C13 (device level) ================= *)
(* a failing message appends exactly its error to the state left by the executed
   prefix, and sets exactly its class bit *)
Theorem fail_queues_once : forall mav us d acc d' out e,
  msg_run mav d us acc = (d', out, Some e) ->
  exists pre post d1, us = pre ++ post /\ msg_run mav d pre acc = (d1, out, None)
    /\ (exists o, hd_error post = Some o /\ snd (sop_step mav d1 o) = Some e
          /\ let d2 := fst (fst (sop_step mav d1 o)) in
             queue d' = queue d2 ++ [e] /\ esr d' = N.lor (esr d2) (class_bit (ecode e))
             /\ ese d' = ese d2 /\ sre d' = sre d2 /\ oper d' = oper d2 /\ ques d' = ques d2).
Proof.
  intros mav us. induction us as [|o us IH]; intros d acc d' out e H.
  - cbn in H. inversion H.
  - cbn [msg_run] in H. destruct (sop_step mav d o) as [[d1 items] err] eqn:E.
    destruct err as [e1|].
    + assert (H' : (push_error d1 e1, acc, Some e1) = (d', out, Some e)) by (destruct items; exact H).
      inversion H'; subst. exists [], (o :: us), d. split; [reflexivity|]. split; [reflexivity|].
      exists o. rewrite E. cbn [hd_error snd fst]. split; [reflexivity|]. split; [reflexivity|].
      unfold push_error, error_esr_mask. rewrite esr_mask_class_bit. destruct d1; cbn. repeat split.
    + assert (Hrec : exists acc', msg_run mav d1 us acc' = (d', out, Some e) /\
                      forall pre dd, msg_run mav d1 pre acc' = (dd, out, None) -> msg_run mav d (o :: pre) acc = (dd, out, None)).
      { destruct items as [items|].
        - exists (acc ++ [items]). split; [assumption|]. intros pre dd Hp. cbn [msg_run]. rewrite E. assumption.
        - exists acc. split; [assumption|]. intros pre dd Hp. cbn [msg_run]. rewrite E. assumption. }
      destruct Hrec as (acc' & Hrun & Hlift).
      destruct (IH _ _ _ _ _ Hrun) as (pre & post & dd & -> & Hpre & Hrest).
      exists (o :: pre), post, dd. split; [reflexivity|]. split; [apply Hlift; assumption|assumption].
Qed.

(* every unit other than a failure and *OPC leaves the queue a suffix of what it was and
   sets no ESR bit *)
Definition quiet (o : sop) : bool :=
  match o with SOpc | SFail _ => false | _ => true end.
Definition is_suffix {A} (s l : list A) : Prop := exists pre, l = pre ++ s.

Lemma sop_quiet : forall mav d o, quiet o = true ->
  let '(d', _, err) := sop_step mav d o in
  err = None /\ is_suffix (queue d') (queue d) /\ (forall i, N.testbit (esr d') i = true -> N.testbit (esr d) i = true).
Proof.
  intros mav d o Hq. destruct o as [r ro| | | | | | | | | | | | | | | | | |]; try discriminate; cbn [sop_step].
  - destruct ro; cbn; (split; [reflexivity|]); (split; [exists []; destruct r; reflexivity|]);
      destruct r; cbn; auto.
  - cbn. split; [reflexivity|]. split; [exists (queue d); rewrite app_nil_r; reflexivity|]. intros i H; first [discriminate H|rewrite N.bits_0 in H; discriminate H].
  - cbn. split; [reflexivity|]. split; [exists []; reflexivity|auto].
  - cbn. split; [reflexivity|]. split; [exists []; reflexivity|auto].
  - cbn. split; [reflexivity|]. split; [exists []; reflexivity|auto].
  - cbn. split; [reflexivity|]. split; [exists []; reflexivity|auto].
  - cbn. split; [reflexivity|]. split; [exists []; reflexivity|auto].
  - cbn. split; [reflexivity|]. split; [exists []; reflexivity|]. intros i H; first [discriminate H|rewrite N.bits_0 in H; discriminate H].
  - cbn. split; [reflexivity|]. split; [exists []; reflexivity|auto].
  - cbn. split; [reflexivity|]. split; [exists []; reflexivity|auto].
  - cbn. split; [reflexivity|]. split; [exists []; reflexivity|auto].
  - cbn. split; [reflexivity|]. split; [exists []; reflexivity|auto].
  - cbn. split; [reflexivity|]. split; [exists []; reflexivity|auto].
  - destruct (queue d) as [|e q] eqn:Eq; cbn.
    + split; [reflexivity|]. split; [exists []; rewrite Eq; reflexivity|auto].
    + split; [reflexivity|]. split; [exists [e]; reflexivity|auto].
  - cbn. split; [reflexivity|]. split; [exists []; reflexivity|auto].
  - destruct (queue d) as [|e q] eqn:Eq; cbn.
    + split; [reflexivity|]. split; [exists []; rewrite Eq; reflexivity|auto].
    + split; [reflexivity|]. split; [exists (e :: q); rewrite app_nil_r; reflexivity|auto].
  - cbn. split; [reflexivity|]. split; [exists []; reflexivity|auto].
Qed.

Theorem ok_queues_nothing : forall mav us d acc d' out,
  forallb quiet us = true -> msg_run mav d us acc = (d', out, None) ->
  is_suffix (queue d') (queue d) /\ (forall i, N.testbit (esr d') i = true -> N.testbit (esr d) i = true).
Proof.
  intros mav us. induction us as [|o us IH]; intros d acc d' out Hq H.
  - cbn in H. inversion H; subst. split; [exists []; reflexivity|auto].
  - cbn [forallb] in Hq. apply andb_prop in Hq. destruct Hq as [Ho Hq].
    cbn [msg_run] in H. pose proof (sop_quiet mav d o Ho) as Hs.
    destruct (sop_step mav d o) as [[d1 items] err]. destruct Hs as (-> & Hsuf & Hesr).
    assert (Hrest : is_suffix (queue d') (queue d1) /\ (forall i, N.testbit (esr d') i = true -> N.testbit (esr d1) i = true)).
    { destruct items; eapply IH; eassumption. }
    destruct Hrest as [[p2 E2] Hesr2]. destruct Hsuf as [p1 E1]. split.
    + exists (p1 ++ p2). rewrite E1, E2, app_assoc. reflexivity.
    + auto.
Qed.

(* the error-queue queries *)
Theorem syst_err_next : forall mav d,
  sop_step mav d SErrNext =
  match queue d with
  | [] => (d, Some [RErr (std_error 0%Z)], None)
  | e :: q => (set_queue d q, Some [RErr e], None)
  end.
Proof. reflexivity. Qed.
Theorem syst_err_count : forall mav d,
  sop_step mav d SErrCount = (d, Some [RNum (N.of_nat (length (queue d)))], None).
Proof. reflexivity. Qed.
Theorem syst_err_all : forall mav d,
  sop_step mav d SErrAll =
  match queue d with
  | [] => (d, Some [RErr (std_error 0%Z)], None)
  | q => (set_queue d [], Some (map RErr q), None)
  end.
Proof. reflexivity. Qed.
Theorem esr_read_clears : forall mav d,
  sop_step mav d SRdEsr = (set_esr d 0, Some [RNum (esr d)], None).
Proof. reflexivity. Qed.
