(* Grammar.v — the IEEE 488.2 section 7 program-message grammar as an AST with a
   renderer and the token sequence the standard assigns to it.  This is the
   SPECIFICATION side of C04: nothing here mentions the lexer's algorithm.
   Model/spec file: no proofs. *)
From VF Require Import Base Fmt Lexer.
Open Scope N_scope.

(* layout white space inside a message: SP, HT, CR, FF (DESIGN 7.1; NL is the terminator) *)
Definition is_layout (b : byte) : bool := (b =? 32) || (b =? 9) || (b =? 13) || (b =? 12).
Definition wf_ws (w : list byte) : bool := forallb is_layout w.

(* <program mnemonic>: a letter followed by letters, digits, underscores; at most 12 characters *)
Definition wf_mnemonic (m : list byte) : bool :=
  match m with
  | x :: m' => is_alpha x && forallb is_mnemonic_char m' && Nat.leb (length m) 12
  | [] => false
  end.

(* <DECIMAL NUMERIC PROGRAM DATA> (NRf) *)
Record number := mkNumber {
  n_sign : option byte;                         (* + or - *)
  n_int : list byte;                            (* digits before the point *)
  n_frac : option (list byte);                  (* Some ds: a point followed by ds *)
  n_exp : option (byte * option byte * list byte)  (* E|e, sign, digits *)
}.
Definition opt_byte (o : option byte) : list byte := match o with Some b => [b] | None => [] end.
Definition render_number (n : number) : list byte :=
  opt_byte (n_sign n) ++ n_int n
  ++ match n_frac n with Some ds => 46 :: ds | None => [] end
  ++ match n_exp n with Some (e, s, ds) => e :: opt_byte s ++ ds | None => [] end.
Definition wf_sign (o : option byte) : bool := match o with Some b => is_sign b | None => true end.
Definition wf_number (n : number) : bool :=
  wf_sign (n_sign n) && forallb is_digit (n_int n)
  && match n_frac n with Some ds => forallb is_digit ds | None => true end
  && (* at least one mantissa digit *)
     (negb (Nat.eqb (length (n_int n)) 0)
      || match n_frac n with Some ds => negb (Nat.eqb (length ds) 0) | None => false end)
  && match n_exp n with
     | Some (e, s, ds) => ((e =? 69) || (e =? 101)) && wf_sign s && forallb is_digit ds && negb (Nat.eqb (length ds) 0)
     | None => true
     end.

Inductive datum :=
| DChar (m : list byte)
| DDec (n : number)
| DDecSuffix (n : number) (w : list byte) (suf : list byte)
| DNonDec (letter : byte) (digits : list byte)
| DString (q : byte) (body : list byte)
| DBlock (pad : nat) (payload : list byte)
| DExpr (body : list byte).

(* exact value of a digit string in a radix *)
Definition digit_value (d : byte) : N :=
  if is_digit d then d - 48 else if is_upper d then d - 55 else d - 87.
Definition value_of_digits (radix : N) (ds : list byte) : N :=
  fold_left (fun acc d => acc * radix + digit_value d) ds 0.
Definition radix_of_letter (l : byte) : option N :=
  if (l =? 72) || (l =? 104) then Some 16
  else if (l =? 81) || (l =? 113) then Some 8
  else if (l =? 66) || (l =? 98) then Some 2 else None.
Definition is_radix_digit (radix : N) (d : byte) : bool :=
  (is_digit d || ((65 <=? d) && (d <=? 70)) || ((97 <=? d) && (d <=? 102))) && (digit_value d <? radix).

Fixpoint double_q (q : byte) (s : list byte) : list byte :=
  match s with
  | [] => []
  | c :: s' => if c =? q then q :: q :: double_q q s' else c :: double_q q s'
  end.

Definition zeros (n : nat) : list byte := repeat 48 n.
Definition block_len_field (pad : nat) (payload : list byte) : list byte :=
  zeros pad ++ fmt_N (N.of_nat (length payload)).

Definition render_datum (d : datum) : list byte :=
  match d with
  | DChar m => m
  | DDec n => render_number n
  | DDecSuffix n w suf => render_number n ++ w ++ suf
  | DNonDec l ds => 35 :: l :: ds
  | DString q body => q :: double_q q body ++ [q]
  | DBlock pad payload =>
    let f := block_len_field pad payload in
    35 :: (48 + N.of_nat (length f)) :: f ++ payload
  | DExpr body => 40 :: body ++ [41]
  end.

Definition token_of_datum (d : datum) : token :=
  match d with
  | DChar m => TChar m
  | DDec n => TDec (render_number n)
  | DDecSuffix n _ suf => TDecSuffix (render_number n) suf
  | DNonDec l ds => TNonDec (value_of_digits (match radix_of_letter l with Some r => r | None => 0 end) ds)
  | DString q body => TString (double_q q body)        (* zero-copy: the exact input bytes between the quotes *)
  | DBlock _ payload => TBlock payload
  | DExpr body => TExpr body
  end.

Definition wf_suffix (suf : list byte) : bool :=
  match suf with
  | x :: s' => (is_alpha x || (x =? 47)) && forallb is_suffix_char s' && Nat.leb (length suf) 12
  | [] => false
  end.
Definition expr_char_ok (b : byte) : bool := negb (expr_illegal b).

Definition wf_datum (d : datum) : bool :=
  match d with
  | DChar m => wf_mnemonic m
  | DDec n => wf_number n
  | DDecSuffix n w suf =>
    wf_number n && wf_ws w && wf_suffix suf
    && (* glued to a number without exponent the suffix cannot start like an exponent *)
       match w, n_exp n, suf with
       | [], None, x :: _ => negb ((x =? 69) || (x =? 101))
       | _, _, _ => true
       end
  | DNonDec l ds =>
    match radix_of_letter l with
    | Some r => negb (Nat.eqb (length ds) 0) && forallb (is_radix_digit r) ds && (value_of_digits r ds <=? u64_max)
    | None => false
    end
  | DString q body => ((q =? 34) || (q =? 39)) && forallb is_ascii body
  | DBlock pad payload =>
    let n := length (block_len_field pad payload) in Nat.leb 1 n && Nat.leb n 9
  | DExpr body => forallb expr_char_ok body
  end.

Record header := mkHeader { h_absolute : bool; h_common : bool; h_mnems : list (list byte); h_query : bool }.

Fixpoint render_path (ms : list (list byte)) : list byte :=
  match ms with
  | [] => []
  | [m] => m
  | m :: ms' => m ++ 58 :: render_path ms'
  end.
Fixpoint tokens_path (ms : list (list byte)) : list token :=
  match ms with
  | [] => []
  | [m] => [TMnemonic m]
  | m :: ms' => TMnemonic m :: THeaderMnemonicSeparator :: tokens_path ms'
  end.
Definition render_header (h : header) : list byte :=
  (if h_common h then match h_mnems h with m :: _ => 42 :: m | [] => [] end
   else (if h_absolute h then [58] else []) ++ render_path (h_mnems h))
  ++ (if h_query h then [63] else []).
Definition tokens_header (h : header) : list token :=
  (if h_common h then match h_mnems h with m :: _ => [TMnemonic (42 :: m)] | [] => [] end
   else (if h_absolute h then [THeaderMnemonicSeparator] else []) ++ tokens_path (h_mnems h))
  ++ (if h_query h then [THeaderQuerySuffix] else []).
Definition wf_header (h : header) : bool :=
  forallb wf_mnemonic (h_mnems h)
  && if h_common h then Nat.eqb (length (h_mnems h)) 1 && negb (h_absolute h)
     else negb (Nat.eqb (length (h_mnems h)) 0).

(* data elements: datum, white space after it, (for all but the last) white space after the comma *)
Fixpoint render_args (args : list (datum * list byte * list byte)) : list byte :=
  match args with
  | [] => []
  | [(d, w1, _)] => render_datum d ++ w1
  | (d, w1, w2) :: args' => render_datum d ++ w1 ++ 44 :: w2 ++ render_args args'
  end.
Fixpoint tokens_args (args : list (datum * list byte * list byte)) : list token :=
  match args with
  | [] => []
  | [(d, _, _)] => [token_of_datum d]
  | (d, _, _) :: args' => token_of_datum d :: TDataSeparator :: tokens_args args'
  end.

Record munit := mkUnit { u_header : header; u_hsep : list byte; u_args : list (datum * list byte * list byte) }.
Definition render_unit (u : munit) : list byte := render_header (u_header u) ++ u_hsep u ++ render_args (u_args u).
Definition tokens_unit (u : munit) : list token :=
  tokens_header (u_header u)
  ++ (match u_hsep u with [] => [] | _ => [THeaderSeparator] end)
  ++ tokens_args (u_args u).
Definition wf_unit (u : munit) : bool :=
  wf_header (u_header u) && wf_ws (u_hsep u)
  && (match u_args u, u_hsep u with _ :: _, [] => false | _, _ => true end)
  && forallb (fun a => match a with (d, w1, w2) => wf_datum d && wf_ws w1 && wf_ws w2 end) (u_args u).

(* a message: white space, units separated by `;` white space, optional NL *)
Record msg := mkMsg { m_lead : list byte; m_units : list (munit * list byte); m_nl : bool }.
Fixpoint render_units (us : list (munit * list byte)) : list byte :=
  match us with
  | [] => []
  | [(u, _)] => render_unit u
  | (u, w) :: us' => render_unit u ++ 59 :: w ++ render_units us'
  end.
Fixpoint tokens_units (us : list (munit * list byte)) : list token :=
  match us with
  | [] => []
  | [(u, _)] => tokens_unit u
  | (u, _) :: us' => tokens_unit u ++ TUnitSeparator :: tokens_units us'
  end.
Definition render_msg (m : msg) : list byte :=
  m_lead m ++ render_units (m_units m) ++ (if m_nl m then [10] else []).
Definition tokens_of (m : msg) : list token := tokens_units (m_units m).
Definition wf_msg (m : msg) : bool :=
  wf_ws (m_lead m) && negb (Nat.eqb (length (m_units m)) 0)
  && forallb (fun uw => wf_unit (fst uw) && wf_ws (snd uw)) (m_units m).
