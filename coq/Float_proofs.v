(* Float_proofs.v — the decimal->binary reference [Conv.dec2sf_core] is the IEEE-754
   correctly rounded (round-to-nearest-even) value of the exact decimal number, in the
   sense of Flocq: [round radix2 (FLT_exp emin prec) ZnearestE].
   Proof file: no definitions used by the executable model. *)
From Coq Require Import ZArith Reals List Lia Lra ZifyBool ZifyN ZifyNat Floats.SpecFloat.
From Flocq Require Import Core.Core IEEE754.BinarySingleNaN.
From VF Require Import Base Fmt Conv.
Open Scope Z_scope.

(* ---------------------------------------------------------------------- *)
(* Bridges: the stdlib SpecFloat operations (round-to-nearest-even only)   *)
(* coincide with Flocq's mode-parametric ones at [mode_NE].                *)
(* ---------------------------------------------------------------------- *)

Lemma choice_mode_NE : forall s m l,
  choice_mode mode_NE s m l = round_nearest_even m l.
Proof.
  intros s m l. unfold choice_mode, round_nearest_even, Round.round_N.
  destruct l as [|[| |]]; try reflexivity.
  destruct (Z.even m); reflexivity.
Qed.

Lemma binary_round_aux_bridge : forall prec emax s m e l,
  BinarySingleNaN.binary_round_aux prec emax mode_NE s m e l
  = SpecFloat.binary_round_aux prec emax s m e l.
Proof.
  intros. unfold BinarySingleNaN.binary_round_aux, SpecFloat.binary_round_aux.
  destruct (shr_fexp prec emax m e l) as [mrs' e'] eqn:E1.
  rewrite choice_mode_NE.
  destruct (shr_fexp prec emax (round_nearest_even (shr_m mrs') (loc_of_shr_record mrs')) e' loc_Exact)
    as [mrs'' e''].
  destruct (shr_m mrs''); reflexivity.
Qed.

Lemma binary_round_bridge : forall prec emax s m e,
  BinarySingleNaN.binary_round prec emax mode_NE s m e
  = SpecFloat.binary_round prec emax s m e.
Proof.
  intros. unfold BinarySingleNaN.binary_round, SpecFloat.binary_round, shl_align_fexp.
  destruct (shl_align m e (fexp prec emax (Z.pos (digits2_pos m) + e))) as [mz ez].
  apply binary_round_aux_bridge.
Qed.

Lemma binary_overflow_NE : forall prec emax s,
  binary_overflow prec emax mode_NE s = S754_infinity s.
Proof. reflexivity. Qed.

(* ---------------------------------------------------------------------- *)

Definition radix10 : radix := Build_radix 10 eq_refl.

(* the exact real value of the decimal literal (-1)^neg * m * 10^e10 *)
Definition dec_value (neg : bool) (m : positive) (e10 : Z) : R :=
  if 0 <=? e10 then IZR (cond_Zopp neg (Zpos m * 10 ^ e10))
  else (IZR (cond_Zopp neg (Zpos m)) / IZR (10 ^ (- e10)))%R.

(* the same value, as a radix-10 floating-point number m * 10^e10 *)
Lemma dec_value_F2R : forall neg m e10,
  dec_value neg m e10 = F2R (Float radix10 (cond_Zopp neg (Zpos m)) e10).
Proof.
  intros neg m e10. unfold dec_value, F2R; cbn [Fnum Fexp].
  destruct (0 <=? e10) eqn:He.
  - apply Z.leb_le in He.
    rewrite <- (IZR_Zpower radix10) by exact He.
    rewrite <- mult_IZR. f_equal.
    change (radix10 ^ e10) with (10 ^ e10).
    destruct neg; cbn [cond_Zopp]; lia.
  - apply Z.leb_gt in He.
    replace e10 with (- (- e10)) at 2 by lia.
    rewrite bpow_opp. rewrite (IZR_Zpower radix10) by lia.
    reflexivity.
Qed.

Lemma dec_value_sign : forall neg m e10,
  dec_value neg m e10 = ((if neg then -1 else 1) * (IZR (Zpos m) * bpow radix10 e10))%R.
Proof.
  intros neg m e10. rewrite dec_value_F2R. unfold F2R; cbn [Fnum Fexp].
  destruct neg; cbn [cond_Zopp].
  - change (- Z.pos m) with (Z.opp (Z.pos m)). rewrite opp_IZR. ring.
  - ring.
Qed.

Lemma pos_pow10 : forall e, 0 < e -> Zpos (Pos.pow 10 (Z.to_pos e)) = 10 ^ e.
Proof.
  intros e He. rewrite Pos2Z.inj_pow. rewrite Z2Pos.id by exact He. reflexivity.
Qed.

Lemma dec_value_abs : forall neg m e10,
  Rabs (dec_value neg m e10) = (IZR (Zpos m) * bpow radix10 e10)%R.
Proof.
  intros neg m e10. rewrite dec_value_F2R, <- F2R_Zabs, abs_cond_Zopp. reflexivity.
Qed.

Section Fmt.
Variables prec emax : Z.
Context (prec_gt_0_ : Prec_gt_0 prec) (Hmax : prec < emax).
Let emin := 3 - emax - prec.
Let fexp := FLT_exp emin prec.

Local Instance Hmax_ : Prec_lt_emax prec emax := Hmax.

(* the result type of all statements below, with the sign of the result included *)
Definition rounds_to (neg : bool) (x : R) (z : spec_float) : Prop :=
  let r := round radix2 fexp ZnearestE x in
  if Rlt_bool (Rabs r) (bpow radix2 emax)
  then SF2R radix2 z = r /\ is_finite_SF z = true /\ sign_SF z = neg
  else z = S754_infinity neg.

(* an integer mantissa at exponent 0 through [SpecFloat.binary_round] *)
Lemma binary_round_int_correct : forall neg mx,
  rounds_to neg (IZR (cond_Zopp neg (Zpos mx))) (SpecFloat.binary_round prec emax neg mx 0).
Proof.
  intros neg mx. unfold rounds_to.
  rewrite <- binary_round_bridge.
  pose proof (@binary_round_correct prec emax _ _ mode_NE neg mx 0) as [_ H].
  cbv zeta in H.
  assert (Hx : F2R (Float radix2 (cond_Zopp neg (Z.pos mx)) 0) = IZR (cond_Zopp neg (Zpos mx))).
  { unfold F2R; cbn [Fnum Fexp]. cbn [bpow]. apply Rmult_1_r. }
  rewrite Hx in H. change (SpecFloat.fexp prec emax) with fexp in H.
  cbn [round_mode] in H. exact H.
Qed.

(* COUNTEREXAMPLE to the unguarded statement: at e10 = 0 the model computes
   [Pos.pow 10 (Z.to_pos 0)] = 10^1, so [dec2sf_core _ _ neg m 0] is the rounding of
   m * 10, not of m.  ([Conv.dec2sf] never calls [dec2sf_core] with e10 = 0.) *)
Lemma dec2sf_core_exp0 : forall neg m,
  dec2sf_core prec emax neg m 0 = dec2sf_core prec emax neg m 1.
Proof. reflexivity. Qed.

(* e10 > 0 : m * 10^e10 is an integer, [binary_round] of it at exponent 0 *)
Lemma dec2sf_core_rounds_pos : forall neg m e10, 0 < e10 ->
  rounds_to neg (dec_value neg m e10) (dec2sf_core prec emax neg m e10).
Proof.
  intros neg m e10 He.
  assert (Hle : (0 <=? e10) = true) by (apply Z.leb_le; lia).
  unfold dec2sf_core, dec_value. rewrite Hle.
  replace (Z.pos m * 10 ^ e10) with (Z.pos (m * Pos.pow 10 (Z.to_pos e10))).
  - apply binary_round_int_correct.
  - rewrite Pos2Z.inj_mul. rewrite pos_pow10 by lia. reflexivity.
Qed.

(* e10 < 0 : m / 10^(-e10), the division kernel followed by [binary_round_aux] *)
Lemma dec2sf_core_rounds_neg : forall neg m e10, e10 < 0 ->
  rounds_to neg (dec_value neg m e10) (dec2sf_core prec emax neg m e10).
Proof.
  intros neg m e10 He. unfold rounds_to.
  assert (Hle : (0 <=? e10) = false) by (apply Z.leb_gt; lia).
  set (d := Pos.pow 10 (Z.to_pos (- e10))).
  pose proof (@Bdiv_correct_aux prec emax _ _ mode_NE neg m 0 false d 0) as [_ H].
  cbv zeta in H.
  assert (Hd : dec2sf_core prec emax neg m e10
               = (let '(mz, ez, lz) := SFdiv_core_binary prec emax (Z.pos m) 0 (Z.pos d) 0 in
                  BinarySingleNaN.binary_round_aux prec emax mode_NE (xorb neg false) mz ez lz)).
  { unfold dec2sf_core. rewrite Hle. fold d.
    destruct (SFdiv_core_binary prec emax (Z.pos m) 0 (Z.pos d) 0) as [[mz ez] lz].
    rewrite Bool.xorb_false_r. symmetry. apply binary_round_aux_bridge. }
  rewrite Hd.
  assert (Hx : (F2R (Float radix2 (cond_Zopp neg (Z.pos m)) 0)
                / F2R (Float radix2 (cond_Zopp false (Z.pos d)) 0))%R = dec_value neg m e10).
  { unfold dec_value. rewrite Hle.
    unfold F2R; cbn [Fnum Fexp cond_Zopp]. cbn [bpow]. rewrite !Rmult_1_r.
    unfold d. rewrite pos_pow10 by lia. reflexivity. }
  rewrite Hx in H. change (SpecFloat.fexp prec emax) with fexp in H.
  cbn [round_mode] in H.
  rewrite Bool.xorb_false_r in H |- *.
  exact H.
Qed.

Theorem dec2sf_core_rounds : forall neg m e10, e10 <> 0 ->
  rounds_to neg (dec_value neg m e10) (dec2sf_core prec emax neg m e10).
Proof.
  intros neg m e10 Hne.
  destruct (Z_lt_le_dec e10 0) as [Hlt|Hge].
  - apply dec2sf_core_rounds_neg; exact Hlt.
  - apply dec2sf_core_rounds_pos; lia.
Qed.

(* MAIN THEOREM, in the requested form.
   The hypothesis [e10 <> 0] is necessary (see [dec2sf_core_exp0]). *)
Theorem dec2sf_core_correct : forall neg m e10, e10 <> 0 ->
  let x := dec_value neg m e10 in
  let r := round radix2 fexp ZnearestE x in
  if Rlt_bool (Rabs r) (bpow radix2 emax)
  then SF2R radix2 (dec2sf_core prec emax neg m e10) = r
       /\ is_finite_SF (dec2sf_core prec emax neg m e10) = true
  else dec2sf_core prec emax neg m e10 = S754_infinity neg.
Proof.
  intros neg m e10 Hne x r.
  pose proof (dec2sf_core_rounds neg m e10 Hne) as H. unfold rounds_to in H. cbv zeta in H.
  fold x in H. fold r in H.
  destruct (Rlt_bool (Rabs r) (bpow radix2 emax)).
  - destruct H as (H1 & H2 & _). split; assumption.
  - exact H.
Qed.

(* same, with the sign of the result (relevant for results that round to -0) *)
Theorem dec2sf_core_correct_sign : forall neg m e10, e10 <> 0 ->
  let x := dec_value neg m e10 in
  let r := round radix2 fexp ZnearestE x in
  if Rlt_bool (Rabs r) (bpow radix2 emax)
  then SF2R radix2 (dec2sf_core prec emax neg m e10) = r
       /\ is_finite_SF (dec2sf_core prec emax neg m e10) = true
       /\ sign_SF (dec2sf_core prec emax neg m e10) = neg
  else dec2sf_core prec emax neg m e10 = S754_infinity neg.
Proof. intros neg m e10 Hne. exact (dec2sf_core_rounds neg m e10 Hne). Qed.

End Fmt.

Corollary dec2sf_core_correct_f64 : forall neg m e10, e10 <> 0 ->
  let x := dec_value neg m e10 in
  let r := round radix2 (FLT_exp (-1074) 53) ZnearestE x in
  if Rlt_bool (Rabs r) (bpow radix2 1024)
  then SF2R radix2 (dec2sf_core 53 1024 neg m e10) = r
       /\ is_finite_SF (dec2sf_core 53 1024 neg m e10) = true
  else dec2sf_core 53 1024 neg m e10 = S754_infinity neg.
Proof. exact (dec2sf_core_correct 53 1024 (eq_refl : Prec_gt_0 53) eq_refl). Qed.

Corollary dec2sf_core_correct_f32 : forall neg m e10, e10 <> 0 ->
  let x := dec_value neg m e10 in
  let r := round radix2 (FLT_exp (-149) 24) ZnearestE x in
  if Rlt_bool (Rabs r) (bpow radix2 128)
  then SF2R radix2 (dec2sf_core 24 128 neg m e10) = r
       /\ is_finite_SF (dec2sf_core 24 128 neg m e10) = true
  else dec2sf_core 24 128 neg m e10 = S754_infinity neg.
Proof. exact (dec2sf_core_correct 24 128 (eq_refl : Prec_gt_0 24) eq_refl). Qed.

(* ---------------------------------------------------------------------- *)
(* The entry point [Conv.dec2sf]: zero mantissa, e10 = 0, and the far-out-of-range *)
(* shortcuts (|exponent| >= 400) that avoid computing the power of ten.            *)
(* ---------------------------------------------------------------------- *)

Lemma digits_aux_len : forall fuel n acc, (0 < n)%N -> (n < 10 ^ N.of_nat fuel)%N ->
  exists k : nat, length (digits_aux fuel n acc) = (length acc + S k)%nat
                  /\ (10 ^ N.of_nat k <= n < 10 ^ N.of_nat (S k))%N.
Proof.
  induction fuel as [|fuel IH]; intros n acc Hn Hlt.
  - change (10 ^ N.of_nat 0)%N with 1%N in Hlt. lia.
  - cbn [digits_aux]. destruct (n / 10 =? 0)%N eqn:E.
    + exists 0%nat. cbn [length]. split; [lia|].
      apply N.eqb_eq in E. apply N.div_small_iff in E; [|lia].
      change (10 ^ N.of_nat 0)%N with 1%N. change (10 ^ N.of_nat 1)%N with 10%N. lia.
    + apply N.eqb_neq in E.
      rewrite Nat2N.inj_succ, N.pow_succ_r' in Hlt.
      assert (Hq : (n / 10 < 10 ^ N.of_nat fuel)%N) by (apply N.div_lt_upper_bound; lia).
      destruct (IH (n / 10)%N ((48 + n mod 10)%N :: acc) ltac:(lia) Hq) as (k & Hlen & Hlo & Hhi).
      exists (S k). split.
      * rewrite Hlen. cbn [length]. lia.
      * rewrite !Nat2N.inj_succ, !N.pow_succ_r' in *.
        pose proof (N.div_mod n 10 ltac:(lia)) as Hdm.
        pose proof (N.mod_lt n 10 ltac:(lia)) as Hm.
        lia.
Qed.

Lemma dec_digits_bounds : forall p,
  1 <= dec_digits (Npos p) /\
  10 ^ (dec_digits (Npos p) - 1) <= Zpos p < 10 ^ dec_digits (Npos p).
Proof.
  intros p. unfold dec_digits, fmt_N.
  assert (Hf : (N.pos p < 10 ^ N.of_nat (S (N.to_nat (N.size (N.pos p)))))%N).
  { rewrite Nat2N.inj_succ, N2Nat.id, N.pow_succ_r'.
    pose proof (N.size_gt (N.pos p)) as H1.
    assert (H2 : (2 ^ N.size (N.pos p) <= 10 ^ N.size (N.pos p))%N) by (apply N.pow_le_mono_l; lia).
    lia. }
  destruct (digits_aux_len _ (N.pos p) [] ltac:(lia) Hf) as (k & Hlen & Hlo & Hhi).
  rewrite Hlen. cbn [length Nat.add].
  replace (Z.of_nat (S k) - 1) with (Z.of_nat k) by lia.
  assert (Hk : forall j : nat, Z.of_N (10 ^ N.of_nat j) = 10 ^ Z.of_nat j).
  { intros j. rewrite N2Z.inj_pow, nat_N_Z. reflexivity. }
  rewrite <- !Hk. lia.
Qed.

Lemma pow_bound_hi : (bpow radix2 1024 <= bpow radix10 400)%R.
Proof.
  rewrite <- (IZR_Zpower radix2 1024), <- (IZR_Zpower radix10 400) by lia.
  apply IZR_le. apply Zle_bool_imp_le. vm_compute. reflexivity.
Qed.

Lemma pow_bound_lo : (bpow radix10 (-400) <= bpow radix2 (-1086))%R.
Proof.
  replace (-400) with (Z.opp 400) by reflexivity.
  replace (-1086) with (Z.opp 1086) by reflexivity.
  rewrite 2!bpow_opp.
  apply Rinv_le; [apply bpow_gt_0|].
  rewrite <- (IZR_Zpower radix2 1086), <- (IZR_Zpower radix10 400) by lia.
  apply IZR_le. apply Zle_bool_imp_le. vm_compute. reflexivity.
Qed.

Definition dec_valueN (neg : bool) (m : N) (e10 : Z) : R :=
  match m with N0 => 0%R | Npos p => dec_value neg p e10 end.

Section Entry.
Variables prec emax : Z.
Context (prec_gt_0_ : Prec_gt_0 prec) (Hmax : prec < emax).
(* the shortcuts at +-400 are sound for every format up to binary64's range *)
Context (Hemax : emax <= 1024) (Hprec : prec <= 64).
Let emin := 3 - emax - prec.
Let fexp := FLT_exp emin prec.

Local Instance Hmax__ : Prec_lt_emax prec emax := Hmax.
Local Instance fexp_valid_ : Valid_exp fexp := FLT_exp_valid emin prec.

Lemma rounds_to_inf : forall neg x,
  (bpow radix10 400 <= Rabs x)%R -> rounds_to prec emax neg x (S754_infinity neg).
Proof.
  intros neg x Hx. unfold rounds_to. cbv zeta. fold emin. fold fexp.
  rewrite Rlt_bool_false; [reflexivity|].
  apply abs_round_ge_generic; try typeclasses eauto.
  - apply generic_format_FLT_bpow; [exact prec_gt_0_|]. unfold emin.
    unfold Prec_gt_0 in prec_gt_0_. lia.
  - apply Rle_trans with (2 := Hx). apply Rle_trans with (2 := pow_bound_hi).
    apply bpow_le. exact Hemax.
Qed.

Lemma rounds_to_zero : forall neg x,
  (Rabs x < bpow radix10 (-400))%R -> rounds_to prec emax neg x (S754_zero neg).
Proof.
  intros neg x Hx. unfold rounds_to. cbv zeta. fold emin. fold fexp.
  assert (Hr : round radix2 fexp ZnearestE x = 0%R).
  { destruct (Req_dec x 0) as [->|Hnz]; [apply round_0; typeclasses eauto|].
    assert (Hsmall : (Rabs x < bpow radix2 (emin - 1))%R).
    { apply Rlt_le_trans with (1 := Hx). apply Rle_trans with (1 := pow_bound_lo).
      apply bpow_le. unfold emin. lia. }
    apply round_N_small with (ex := mag radix2 x).
    - split; [apply bpow_mag_le; exact Hnz | apply bpow_mag_gt].
    - pose proof (mag_le_bpow radix2 x (emin - 1) Hnz Hsmall) as Hm.
      unfold fexp, FLT_exp. lia. }
  rewrite Hr, Rabs_R0. rewrite Rlt_bool_true by apply bpow_gt_0.
  repeat split.
Qed.

Theorem dec2sf_rounds : forall neg m e10,
  rounds_to prec emax neg (dec_valueN neg m e10) (dec2sf prec emax neg m e10).
Proof.
  intros neg [|p] e10; unfold dec2sf, dec_valueN.
  - (* zero mantissa *)
    unfold rounds_to. cbv zeta. fold emin. fold fexp.
    rewrite round_0 by typeclasses eauto. rewrite Rabs_R0.
    rewrite Rlt_bool_true by apply bpow_gt_0. repeat split.
  - destruct (e10 =? 0) eqn:E0.
    { apply Z.eqb_eq in E0. subst e10. unfold dec_value. cbn [Z.leb Z.compare].
      change (10 ^ 0) with 1. rewrite Z.mul_1_r. apply binary_round_int_correct; assumption. }
    apply Z.eqb_neq in E0.
    destruct (dec_digits_bounds p) as (Hk1 & Hlo & Hhi).
    set (k := dec_digits (N.pos p)) in *.
    destruct (400 <=? k - 1 + e10) eqn:E1.
    { apply Z.leb_le in E1. apply rounds_to_inf.
      rewrite dec_value_abs.
      apply Rle_trans with (bpow radix10 (k - 1 + e10)); [apply bpow_le; exact E1|].
      rewrite bpow_plus. apply Rmult_le_compat_r; [apply bpow_ge_0|].
      rewrite <- IZR_Zpower by lia. apply IZR_le. exact Hlo. }
    destruct (k + e10 <=? -400) eqn:E2.
    { apply Z.leb_le in E2. apply rounds_to_zero.
      rewrite dec_value_abs.
      apply Rlt_le_trans with (bpow radix10 (k + e10)); [|apply bpow_le; exact E2].
      rewrite bpow_plus. apply Rmult_lt_compat_r; [apply bpow_gt_0|].
      rewrite <- IZR_Zpower by lia. apply IZR_lt. exact Hhi. }
    apply dec2sf_core_rounds; assumption.
Qed.

(* [Conv.dec2sf] in the form requested for [dec2sf_core] (no side condition on e10) *)
Theorem dec2sf_correct : forall neg m e10,
  let x := dec_valueN neg m e10 in
  let r := round radix2 fexp ZnearestE x in
  if Rlt_bool (Rabs r) (bpow radix2 emax)
  then SF2R radix2 (dec2sf prec emax neg m e10) = r
       /\ is_finite_SF (dec2sf prec emax neg m e10) = true
       /\ sign_SF (dec2sf prec emax neg m e10) = neg
  else dec2sf prec emax neg m e10 = S754_infinity neg.
Proof. intros neg m e10. exact (dec2sf_rounds neg m e10). Qed.

End Entry.

Corollary dec2sf_correct_f64 : forall neg m e10,
  let x := dec_valueN neg m e10 in
  let r := round radix2 (FLT_exp (-1074) 53) ZnearestE x in
  if Rlt_bool (Rabs r) (bpow radix2 1024)
  then SF2R radix2 (dec2sf 53 1024 neg m e10) = r
       /\ is_finite_SF (dec2sf 53 1024 neg m e10) = true
       /\ sign_SF (dec2sf 53 1024 neg m e10) = neg
  else dec2sf 53 1024 neg m e10 = S754_infinity neg.
Proof.
  exact (dec2sf_correct 53 1024 (eq_refl : Prec_gt_0 53) eq_refl
           (fun H => ltac:(discriminate H)) (fun H => ltac:(discriminate H))).
Qed.

Corollary dec2sf_correct_f32 : forall neg m e10,
  let x := dec_valueN neg m e10 in
  let r := round radix2 (FLT_exp (-149) 24) ZnearestE x in
  if Rlt_bool (Rabs r) (bpow radix2 128)
  then SF2R radix2 (dec2sf 24 128 neg m e10) = r
       /\ is_finite_SF (dec2sf 24 128 neg m e10) = true
       /\ sign_SF (dec2sf 24 128 neg m e10) = neg
  else dec2sf 24 128 neg m e10 = S754_infinity neg.
Proof.
  exact (dec2sf_correct 24 128 (eq_refl : Prec_gt_0 24) eq_refl
           (fun H => ltac:(discriminate H)) (fun H => ltac:(discriminate H))).
Qed.

Print Assumptions dec2sf_core_correct.
Print Assumptions dec2sf_core_correct_f64.
Print Assumptions dec2sf_core_correct_f32.
Print Assumptions dec2sf_correct_f64.
Print Assumptions dec2sf_correct_f32.
