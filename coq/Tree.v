(* Tree.v — model of scpi/src/parser/parameters.rs (Parameters) and
   scpi/src/tree/mod.rs (Node::run, run_tokens, exec) over the token stream of
   Lexer.v, for ARBITRARY command trees and ARBITRARY terminating handlers
   (interaction trees, DESIGN 3.4).  Model file: no proofs. *)
From VF Require Import Base Gen_Errors Lexer Mnemonic Response.
Open Scope N_scope.

(* ---- Parameters::next_optional_token / next_token over Peekable<Tokenizer> ---- *)
Inductive pull_result := Got (t : token) | Absent | Failed (e : error).

Fixpoint next_optional_token (toks : list titem) : pull_result * list titem :=
  match toks with
  | [] => (Absent, [])
  | IErr e :: _ => (Failed (std_error e), toks)            (* the `?` on the peeked item: the Err stays in the peek slot *)
  | IOk t :: rest =>
    if is_data t then (Got t, rest)
    else match t with
         | TDataSeparator =>                                (* consume, then next_token() *)
           match next_optional_token rest with
           | (Absent, r) => (Failed (std_error MissingParameter), r)
           | x => x
           end
         | _ => (Absent, toks)
         end
  end.
Definition next_token (toks : list titem) : pull_result * list titem :=
  match next_optional_token toks with
  | (Absent, r) => (Failed (std_error MissingParameter), r)
  | x => x
  end.

(* ---- handlers ---- *)
Inductive hret := RetOk | RetErr (e : error) | RetFinish.     (* Ok(()) / Err(e) / response.finish() *)

Inductive hprog (D : Type) : Type :=
| Pull (required : bool) (k : pull_result -> hprog D)        (* next_token / next_optional_token *)
| Hdr (h : list byte) (k : hprog D)                          (* ResponseUnit::header (queries) *)
| Emit (d : rdata) (k : hprog D)                             (* ResponseUnit::data   (queries) *)
| Done (d : D) (r : hret).
Arguments Pull {D}. Arguments Hdr {D}. Arguments Emit {D}. Arguments Done {D}.

Record command (D : Type) := mkCommand { cid : N; ev : D -> hprog D; qu : D -> hprog D }.
Arguments cid {D}. Arguments ev {D}. Arguments qu {D}. Arguments mkCommand {D}.

Inductive tree (D : Type) : Type :=
| Leaf (name : list byte) (dflt : bool) (c : command D)
| Branch (name : list byte) (dflt : bool) (sub : list (tree D)).
Arguments Leaf {D}. Arguments Branch {D}.

Definition node_name {D} (t : tree D) : list byte :=
  match t with Leaf n _ _ => n | Branch n _ _ => n end.

Section Run.
Context {D : Type}.

(* execution state threaded through a message *)
Record xstate := mkX {
  x_toks : list titem;          (* Peekable<Tokenizer>: remaining stream *)
  x_dev : D;
  x_fmt : fmt;
  x_trace : list (N * bool * list byte)   (* handler invocations so far: (command id, is query, bytes it wrote) *)
}.

(* run a handler program; [u] is the response unit of a query, None for an event *)
Fixpoint run_prog (p : hprog D) (toks : list titem) (f : fmt) (u : option runit)
  : list titem * D * fmt * option error :=
  match p with
  | Pull required k =>
    let '(r, toks') := if required then next_token toks else next_optional_token toks in
    run_prog (k r) toks' f u
  | Hdr h k =>
    match u with
    | Some ru => let '(f', ru') := ru_header f ru h in run_prog k toks f' (Some ru')
    | None => run_prog k toks f u
    end
  | Emit d k =>
    match u with
    | Some ru => let '(f', ru') := ru_data f ru d in run_prog k toks f' (Some ru')
    | None => run_prog k toks f u
    end
  | Done d r =>
    (toks, d, f,
     match r with
     | RetOk => None
     | RetErr e => Some e
     | RetFinish => match u with
                    | Some ru => option_map std_error (ru_result ru)   (* formatter / ResponseData errors are plain codes *)
                    | None => None
                    end
     end)
  end.

Definition skip_header_sep (toks : list titem) : list titem :=
  match toks with IOk THeaderSeparator :: r => r | _ => toks end.

Inductive xres := XOk (leaf : tree D) (s : xstate) | XErr (e : error) (s : xstate).

Definition run_handler (c : command D) (query : bool) (leaf : tree D) (s : xstate) (toks : list titem) : xres :=
  let tr (f0 f' : fmt) := x_trace s ++ [(cid c, query, skipn (length (buf f0)) (buf f'))] in
  if query then
    match response_unit (x_fmt s) with
    | Err e => XErr (std_error e) (mkX toks (x_dev s) (x_fmt s) (x_trace s))     (* handler not invoked *)
    | Ok f0 =>
      let '(toks', d', f', r) := run_prog (qu c (x_dev s)) toks f0 (Some runit_new) in
      match r with
      | None => XOk leaf (mkX toks' d' f' (tr f0 f'))
      | Some e => XErr e (mkX toks' d' f' (tr f0 f'))
      end
    end
  else
    let '(toks', d', f', r) := run_prog (ev c (x_dev s)) toks (x_fmt s) None in
    match r with
    | None => XOk leaf (mkX toks' d' f' (tr (x_fmt s) f'))
    | Some e => XErr e (mkX toks' d' f' (tr (x_fmt s) f'))
    end.

Definition with_toks (s : xstate) (toks : list titem) : xstate := mkX toks (x_dev s) (x_fmt s) (x_trace s).

(* Node::exec, header half: which command the header designates, in which form, the
   header-path context handed to the next unit, and the stream after the header (the `?`
   and the header separator consumed).  Depends on the tree and the tokens only. *)
Inductive rres := RFound (c : command D) (query : bool) (leaf : tree D) (toks : list titem)
                | RFail (e : Z) (toks : list titem).

Fixpoint resolve (self : tree D) (leaf : tree D) (toks : list titem) {struct self} : rres :=
  match self with
  | Leaf _ _ c =>
    match toks with
    | IErr e :: _ => RFail e toks
    | [] => RFound c false leaf []
    | IOk THeaderSeparator :: _ | IOk TUnitSeparator :: _ => RFound c false leaf (skip_header_sep toks)
    | IOk THeaderQuerySuffix :: rest => RFound c true leaf (skip_header_sep rest)
    | IOk THeaderMnemonicSeparator :: _ | IOk (TMnemonic _) :: _ => RFail UndefinedHeader toks
    | IOk _ :: _ => RFail SyntaxError toks
    end
  | Branch _ _ sub =>
    let default_branch (tk : list titem) (lf : tree D) : option rres :=
      (fix find (l : list (tree D)) : option rres :=
         match l with
         | [] => None
         | (Branch _ true _ as ch) :: _ => Some (resolve ch lf tk)
         | _ :: l' => find l'
         end) sub in
    let default_leaf (tk : list titem) (lf : tree D) : option rres :=
      (fix find (l : list (tree D)) : option rres :=
         match l with
         | [] => None
         | (Leaf _ true _ as ch) :: _ => Some (resolve ch lf tk)
         | _ :: l' => find l'
         end) sub in
    match toks with
    | IErr e :: _ => RFail e toks
    | IOk THeaderMnemonicSeparator :: _ | IOk (TMnemonic _) :: _ =>
      let toks1 := match toks with IOk THeaderMnemonicSeparator :: r => r | t => t end in
      match toks1 with
      | IOk (TMnemonic m) :: toks2 =>
        (* the context becomes this branch; the first child whose name matches wins *)
        match (fix first_match (l : list (tree D)) : option rres :=
                 match l with
                 | [] => None
                 | ch :: l' => if mnemonic_match (node_name ch) m then Some (resolve ch self toks2)
                               else first_match l'
                 end) sub with
        | Some r => r
        | None => match default_branch toks1 self with
                  | Some r => r
                  | None => RFail UndefinedHeader toks1
                  end
        end
      | IErr e :: _ => RFail e toks1
      | _ => RFail CommandHeaderError toks1
      end
    | [] | IOk THeaderSeparator :: _ | IOk TUnitSeparator :: _ | IOk THeaderQuerySuffix :: _ =>
      match default_leaf toks leaf with
      | Some r => r
      | None => match default_branch toks leaf with
                | Some r => r
                | None => RFail UndefinedHeader toks
                end
      end
    | IOk _ :: _ => RFail SyntaxError toks
    end
  end.

(* Node::exec = resolve the header, then invoke the handler *)
Definition exec (self : tree D) (leaf : tree D) (s : xstate) : xres :=
  match resolve self leaf (x_toks s) with
  | RFound c query leaf' toks' => run_handler c query leaf' s toks'
  | RFail e toks' => XErr (std_error e) (with_toks s toks')
  end.

Definition starts_with_star (m : list byte) : bool := match m with 42 :: _ => true | _ => false end.

(* message_end when something was written *)
Definition finish_message (s : xstate) : xstate * res unit :=
  match buf (x_fmt s) with
  | [] => (s, Ok tt)
  | _ => match message_end (x_fmt s) with
         | Ok f => (mkX (x_toks s) (x_dev s) f (x_trace s), Ok tt)
         | Err e => (s, Err e)
         end
  end.

(* one iteration of the loop in Node::run_tokens, first half: dispatch the unit's header.
   UDone: the stream is exhausted (or unusable) before a header was seen. *)
Inductive ubody := UExec (r : xres) | UDone (s : xstate) (e : option error).
Definition unit_body (root leaf : tree D) (s : xstate) : ubody :=
  match x_toks s with
  | IOk THeaderMnemonicSeparator :: rest => UExec (exec root root (with_toks s rest))
  | IOk (TMnemonic m) :: _ =>
    if starts_with_star m then
      match exec root root s with
      | XOk _ s' => UExec (XOk leaf s')          (* throw-away path: the context does not move *)
      | XErr e s' => UExec (XErr e s')
      end
    else UExec (exec leaf leaf s)
  | [] => let '(s', r) := finish_message s in
          UDone s' (match r with Ok _ => None | Err e => Some (std_error e) end)
  | IErr e :: _ => UDone s (Some (std_error e))
  | IOk _ :: _ => UDone s (Some (std_error SyntaxError))
  end.

(* second half: what follows the unit.  UNext: a unit separator, the loop continues. *)
Inductive uafter := UNext (leaf : tree D) (s : xstate) | UStop (s : xstate) (e : option error).
Definition unit_after (leaf' : tree D) (s' : xstate) : uafter :=
  match x_toks s' with
  | [] => let '(s'', r) := finish_message s' in
          UStop s'' (match r with Ok _ => None | Err e => Some (std_error e) end)
  | IOk TUnitSeparator :: rest => UNext leaf' (with_toks s' rest)
  | IOk tok :: rest =>
    if is_data tok || match tok with TDataSeparator => true | _ => false end
    then UStop (with_toks s' rest) (Some (std_error ParameterNotAllowed))
    else UStop (with_toks s' rest) (Some (std_error SyntaxError))
  | IErr e :: rest => UStop (with_toks s' rest) (Some (std_error e))
  end.

(* Node::run_tokens: the unit loop.  Fuel = S (length tokens) always suffices
   (every iteration consumes at least one token; Tree_proofs). *)
Fixpoint unit_loop (fuel : nat) (root leaf : tree D) (s : xstate) : outcome (xstate * option error) :=
  match fuel with
  | O => Panic "out of fuel"
  | S fu =>
    match unit_body root leaf s with
    | UDone s' e => Val (s', e)
    | UExec (XErr e s') => Val (s', Some e)              (* the first failing unit aborts the message *)
    | UExec (XOk leaf' s') =>
      match unit_after leaf' s' with
      | UStop s'' e => Val (s'', e)
      | UNext leaf'' s'' => unit_loop fu root leaf'' s''
      end
    end
  end.

Definition run_tokens (root : tree D) (toks : list titem) (d : D) (f : fmt) : outcome (xstate * option error) :=
  unit_loop (S (length toks)) root root (mkX toks d f []).

(* Node::run: tokenize, run_tokens, report the error to the device hook exactly once.
   Result: returned error (None = Ok), device, output buffer, invocation trace, hook log. *)
Record run_result := mkRun { r_err : option error; r_dev : D; r_out : list byte; r_trace : list (N * bool * list byte); r_hook : list error }.

Definition run (root : tree D) (input : list byte) (d : D) (f : fmt) : outcome run_result :=
  let* toks := tokenize input in
  let* r := run_tokens root toks d f in
  let '(s, e) := r in
  Val (mkRun e (x_dev s) (buf (x_fmt s)) (x_trace s) (match e with Some x => [x] | None => [] end)).

End Run.
Arguments xstate : clear implicits.
Arguments xres : clear implicits.
Arguments run_result : clear implicits.
