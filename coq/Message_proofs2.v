(* Message_proofs2.v — the message semantics theorem for the message endings that [wf_msg] does not cover:
   the EMPTY message (white space and/or the terminator only) and a TRAILING unit separator (`A;`, `A; \n`);
   and the framing property C10 read off the specification [spec_message] (for every message AST, no
   well-formedness needed). *)
From VF Require Import Base Gen_Errors Fmt Lexer Mnemonic Grammar Response Tree HeaderSpec MessageSpec.
From VF Require Import Grammar_proofs Tree_proofs Header_proofs Resp_proofs Message_proofs.
From Coq Require Import Lia ZifyBool ZifyN ZifyNat.
Open Scope N_scope.

(* ------------------------------------------------------------------ *)
(* 1. lexing: units followed by an arbitrary continuation               *)
(* ------------------------------------------------------------------ *)
(* [lexes_units] of Grammar_proofs.v with the end of the message replaced by a continuation [rest]/[ts] *)
Lemma lexes_units_k : forall us, forallb Grammar_proofs.wf_uw us = true -> us <> [] ->
  forall rest ts, unit_follow rest -> cont rest ts ->
  lexes (mkLexer (render_units us ++ rest) true false) (tokens_units us ++ ts).
Proof.
  induction us as [|uw us IH]; intros Hwf Hne rest ts Hr Hk; [congruence|].
  cbn [forallb] in Hwf. apply andb_prop in Hwf. destruct Hwf as [Huw Hus].
  destruct uw as [u w]. pose proof Huw as Huw'. unfold Grammar_proofs.wf_uw in Huw'. cbn [fst snd] in Huw'.
  apply andb_prop in Huw'. destruct Huw' as [Hu Hw].
  destruct us as [|uw2 us'].
  - cbn [render_units tokens_units]. apply lexes_unit; assumption.
  - rewrite render_units_cons2, tokens_units_cons2. rewrite <- !app_assoc. cbn [app]. rewrite <- !app_assoc.
    pose proof Hus as Hus'. cbn [forallb] in Hus'. apply andb_prop in Hus'. destruct Hus' as [Huw2 _].
    destruct (units_head uw2 us' rest Huw2) as (y & t & Heq & Hy).
    assert (Hstep : forall hdr com,
      lexes (mkLexer (59 :: w ++ render_units (uw2 :: us') ++ rest) hdr com)
            (TUnitSeparator :: tokens_units (uw2 :: us') ++ ts)).
    { intros hdr com. eapply lexes_tok.
      - apply lex_semicolon; [exact Hw | rewrite Heq; cbn [stop]; apply unit_start_not_ws; exact Hy].
      - cbn [chars length]. rewrite (app_length w). lia.
      - apply IH; [exact Hus | discriminate | exact Hr | exact Hk]. }
    apply lexes_unit; [exact Hu | cbn; auto |].
    intros hdr com. split; apply Hstep.
Qed.

Lemma skip_ws_nl : forall nl : bool, skip_ws (if nl then [10] else []) = [].
Proof. intros [|]; reflexivity. Qed.

(* a final `;`, white space, optional NL: exactly one unit separator token *)
Lemma lexes_final_semicolon : forall w (nl : bool) hdr com, wf_ws w = true ->
  lexes (mkLexer (59 :: w ++ (if nl then [10] else [])) hdr com) [TUnitSeparator].
Proof.
  intros w nl hdr com Hw. eapply lexes_tok with (l' := mkLexer [] true false).
  - unfold lex_next. cbn [chars in_header in_common].
    change (59 =? 42) with false. change (59 =? 58) with false. change (59 =? 63) with false.
    change (59 =? 59) with true. cbv iota.
    rewrite skip_ws_layout by exact Hw. rewrite skip_ws_nl. reflexivity.
  - cbn [chars length]. lia.
  - apply lexes_nil.
Qed.

Theorem lex_faithful_trailing_separator : forall m w, wf_msg m = true -> wf_ws w = true ->
  tokenize (m_lead m ++ render_units (m_units m) ++ 59 :: w ++ (if m_nl m then [10] else []))
  = Val (map IOk (tokens_of m ++ [TUnitSeparator])).
Proof.
  intros [lead us nl] w Hwf Hw. unfold wf_msg, tokens_of in *. cbn [m_lead m_units m_nl] in *.
  apply andb_prop in Hwf. destruct Hwf as [Hwf Hus].
  apply andb_prop in Hwf. destruct Hwf as [Hlead Hne].
  change (forallb Grammar_proofs.wf_uw us = true) in Hus.
  destruct us as [|uw us']; [discriminate Hne|].
  pose proof Hus as Hus'. cbn [forallb] in Hus'. apply andb_prop in Hus'. destruct Hus' as [Huw _].
  destruct (units_head uw us' (59 :: w ++ (if nl then [10] else [])) Huw) as (y & t & Heq & Hy).
  unfold tokenize, lexer_new. rewrite skip_ws_layout by exact Hlead.
  unfold skip_ws. rewrite skip_while_stop by (rewrite Heq; cbn [stop]; apply unit_start_not_ws; exact Hy).
  apply lexes_tokenize_from.
  apply lexes_units_k; [exact Hus | discriminate | cbn; auto |].
  intros hdr com.
  assert (Hs : skip_ws (59 :: w ++ (if nl then [10] else [])) = 59 :: w ++ (if nl then [10] else []))
    by (unfold skip_ws; apply skip_while_stop; reflexivity).
  rewrite Hs. split; apply lexes_final_semicolon; exact Hw.
Qed.

(* the empty message has no tokens *)
Theorem lex_empty : forall w (nl : bool), wf_ws w = true ->
  tokenize (w ++ (if nl then [10] else [])) = Val [].
Proof.
  intros w nl Hw. unfold tokenize, lexer_new. rewrite skip_ws_layout by exact Hw. rewrite skip_ws_nl.
  reflexivity.
Qed.

Section MessageProofs2.
Context {D : Type}.

(* ------------------------------------------------------------------ *)
(* 2. the unit loop on a stream that ends with a unit separator         *)
(* ------------------------------------------------------------------ *)
Definition sep_item : titem := IOk TUnitSeparator.

(* what follows a unit when the whole stream is closed by a trailing separator *)
Lemma utail_sep_unit_tail : forall us, unit_tail (utail us ++ [sep_item]).
Proof. intros [|uw us]; right; eexists; reflexivity. Qed.

Lemma loop_spec_sep : forall us (root ctx : tree D) d f tr fu, wf_tree root -> In ctx (all_subtrees root) ->
  forallb Message_proofs.wf_uw us = true -> us <> [] -> (length us + 1 <= fu)%nat ->
  exists s e, unit_loop fu root ctx (mkX (map IOk (tokens_units us) ++ [sep_item]) d f tr) = Val (s, e) /\
    (x_dev s, x_fmt s, x_trace s, e) = spec_units root ctx us d f tr.
Proof.
  induction us as [|[u w] us IH]; intros root ctx d f tr fu Hwf Hctx Hus Hne Hfu; [contradiction|].
  destruct fu as [|fu]; [cbn in Hfu; lia|]. cbn [length] in Hfu.
  cbn [forallb] in Hus. apply andb_prop in Hus. destruct Hus as [Huw Hus].
  unfold Message_proofs.wf_uw in Huw. cbn [fst snd] in Huw. apply andb_prop in Huw. destruct Huw as [Hu _].
  rewrite tokens_units_cons, <- app_assoc.
  destruct (unit_step root ctx u (utail us ++ [sep_item]) d f tr Hwf Hctx Hu (utail_sep_unit_tail us)) as [r [Hb Hr]].
  cbn [spec_units].
  destruct (spec_unit root ctx u d f tr) as [ctx' d' f' tr'|e d' f' tr'].
  - destruct Hr as [Hctx' ->]. cbn [unit_loop]. rewrite Hb.
    destruct us as [|uw us'].
    + (* the last unit: the separator is consumed, the next iteration finds the stream exhausted *)
      cbn [utail app spec_units]. unfold unit_after, sep_item, with_toks. cbn [x_toks x_dev x_fmt x_trace].
      destruct fu as [|fu]; [cbn in Hfu; lia|]. cbn [unit_loop]. unfold unit_body, finish_message. cbn [x_toks x_fmt].
      destruct (buf f') as [|b bs].
      * eexists _, _. split; reflexivity.
      * destruct (message_end f') as [f2|e2]; eexists _, _; split; reflexivity.
    + cbn [utail app]. unfold unit_after, with_toks. cbn [x_toks x_dev x_fmt x_trace].
      apply IH; [exact Hwf|exact Hctx'|exact Hus|discriminate|cbn [length] in *; lia].
  - destruct Hr as [[s' [-> [Hd [Hf Ht]]]]|[-> [leaf [s' [tok [rest [-> [Htoks [Htok [Hd [Hf Ht]]]]]]]]]]].
    + cbn [unit_loop]. rewrite Hb. exists s', (Some e). split; [reflexivity|]. rewrite Hd, Hf, Ht. reflexivity.
    + rewrite (leftover_is_108 fu root ctx _ leaf s' tok rest Hb Htoks Htok).
      eexists _, _. split; [reflexivity|]. cbn [with_toks x_dev x_fmt x_trace]. rewrite Hd, Hf, Ht. reflexivity.
Qed.

Theorem message_semantics_tokens_trailing_separator : forall (root : tree D) (m : msg) (d : D) (f : fmt),
  wf_tree root -> wf_msg m = true ->
  exists s e, run_tokens root (map IOk (tokens_of m ++ [TUnitSeparator])) d f = Val (s, e) /\
    (x_dev s, x_fmt s, x_trace s, e) = spec_units root root (m_units m) d f [].
Proof.
  intros root m d f Hwf Hm. destruct (wf_msg_units m Hm) as [Hus Hne].
  unfold run_tokens, tokens_of. rewrite map_app. cbn [map]. apply loop_spec_sep; try assumption.
  - apply all_subtrees_self.
  - rewrite app_length, map_length. cbn [length]. pose proof (units_tokens_length _ Hus). lia.
Qed.

(* ------------------------------------------------------------------ *)
(* 3. the theorems                                                      *)
(* ------------------------------------------------------------------ *)
(* the empty message: nothing is invoked, nothing is written unless the buffer already held something *)
Theorem message_semantics_empty : forall (root : tree D) (w : list byte) (nl : bool) (d : D) (f : fmt),
  wf_ws w = true ->
  run root (w ++ (if nl then [10] else [])) d f = Val (spec_message root (mkMsg w [] nl) d f).
Proof.
  intros root w nl d f Hw. unfold run. rewrite (lex_empty w nl Hw). cbn [obind].
  unfold run_tokens, spec_message. cbn [length unit_loop m_units spec_units].
  unfold unit_body, finish_message. cbn [x_toks x_fmt].
  destruct (buf f) as [|b bs] eqn:Hb.
  - cbn [obind x_dev x_fmt x_trace]. rewrite Hb. reflexivity.
  - destruct (message_end f) as [f2|e2]; cbn [obind x_dev x_fmt x_trace buf]; [reflexivity|].
    rewrite Hb. reflexivity.
Qed.

(* a trailing unit separator (with optional white space after it) changes nothing *)
Theorem message_semantics_trailing_separator : forall (root : tree D) (m : msg) (w : list byte) (d : D) (f : fmt),
  wf_tree root -> wf_msg m = true -> wf_ws w = true ->
  run root (m_lead m ++ render_units (m_units m) ++ 59 :: w ++ (if m_nl m then [10] else [])) d f
  = Val (spec_message root m d f).
Proof.
  intros root m w d f Hwf Hm Hw. unfold run. rewrite (lex_faithful_trailing_separator m w Hm Hw). cbn [obind].
  destruct (message_semantics_tokens_trailing_separator root m d f Hwf Hm) as [s [e [Hr Hs]]].
  rewrite Hr. cbn [obind]. unfold spec_message. rewrite <- Hs. reflexivity.
Qed.

(* both endings at once, as a statement about the input bytes: `;` and white space after a well-formed message
   are ignored *)
Corollary trailing_separator_ignored : forall (root : tree D) (m : msg) (w : list byte) (d : D) (f : fmt),
  wf_tree root -> wf_msg m = true -> wf_ws w = true ->
  run root (m_lead m ++ render_units (m_units m) ++ 59 :: w ++ (if m_nl m then [10] else [])) d f
  = run root (render_msg m) d f.
Proof.
  intros. rewrite message_semantics_trailing_separator, message_semantics by assumption. reflexivity.
Qed.

(* ------------------------------------------------------------------ *)
(* 4. framing (C10), read off the specification                         *)
(* ------------------------------------------------------------------ *)
(* the framing invariant of Resp_proofs.v, on the (formatter, trace) pair of the specification *)
Definition fr (d : D) (f : fmt) (tr : trace) : Prop := framed (mkX [] d f tr).

Lemma framed_fields : forall (s : xstate D) d f tr,
  framed s -> x_fmt s = f -> x_trace s = tr -> fr d f tr.
Proof. intros s d f tr [Hc HP] <- <-. split; [exact Hc|exact HP]. Qed.

Lemma spec_call_framed : forall (c : command D) q nctx data d f tr, all_data data -> fr d f tr ->
  match spec_call c q nctx data d f tr with
  | UOk _ d' f' tr' => fr d' f' tr'
  | UErr _ d' f' tr' => fr d' f' tr'
  end.
Proof.
  intros c q nctx data d f tr Hd Hfr.
  pose proof (run_handler_spec c q nctx nctx [] d f tr data [] (or_introl eq_refl) Hd) as Hc.
  pose proof (run_handler_framed c q nctx (mkX [] d f tr) (strm true data []) Hfr) as Hf.
  destruct (spec_call c q nctx data d f tr) as [n1 d' f' tr'|e d' f' tr']; cbn [call_matches] in Hc.
  - rewrite Hc in Hf. cbn [xres_state] in Hf. exact Hf.
  - destruct Hc as [[s' [Hr [_ [Hf' Ht']]]]|[_ [s' [tok [rest [Hr [_ [_ [_ [Hf' Ht']]]]]]]]]];
      rewrite Hr in Hf; cbn [xres_state] in Hf; eapply framed_fields; eauto.
Qed.

Lemma spec_unit_framed : forall (root ctx : tree D) u d f tr, fr d f tr ->
  match spec_unit root ctx u d f tr with
  | UOk _ d' f' tr' => fr d' f' tr'
  | UErr _ d' f' tr' => fr d' f' tr'
  end.
Proof.
  intros root ctx u d f tr Hfr. rewrite spec_unit_call. cbv zeta.
  destruct (desig _ _ _) as [|[c ctx'] l]; [exact Hfr|].
  apply spec_call_framed; [apply unit_data_all|exact Hfr].
Qed.

Lemma spec_units_framing : forall (root : tree D) us ctx d f tr d' f' tr',
  fr d f tr -> spec_units root ctx us d f tr = (d', f', tr', None) ->
  Forall (fun t => t <> []) (unit_texts tr') ->
  buf f' = match unit_texts tr' with [] => [] | us => intercalate [59] us ++ [10] end.
Proof.
  intros root. induction us as [|[u w] us IH]; intros ctx d f tr d' f' tr' Hfr H HF; cbn [spec_units] in H.
  - destruct Hfr as [Hc HP]. cbn [x_fmt x_trace] in Hc, HP.
    destruct f as [cp b]. cbn [cap buf] in *. subst cp.
    destruct b as [|x b].
    + injection H as _ <- <-. specialize (HP HF). cbn [buf].
      destruct (unit_texts tr) as [|t ts] eqn:Hu; [reflexivity|].
      exfalso. symmetry in HP. revert HP. apply intercalate_nonempty; [assumption|discriminate].
    + unfold message_end in H. rewrite push_None in H. injection H as _ <- <-. specialize (HP HF). cbn [buf].
      destruct (unit_texts tr) as [|t ts] eqn:Hu; [discriminate HP|]. rewrite <- HP. reflexivity.
  - pose proof (spec_unit_framed root ctx u d f tr Hfr) as Hu.
    destruct (spec_unit root ctx u d f tr) as [c1 d1 f1 tr1|e1 d1 f1 tr1]; [|discriminate H].
    eapply IH; eauto.
Qed.

(* a message that succeeds leaves in an initially empty unbounded buffer exactly the texts its query units wrote,
   joined by `;` and terminated by one NL; nothing at all when no unit wrote anything.
   Holds for EVERY tree and EVERY message AST (no wf_tree / wf_msg hypothesis). *)
Theorem spec_message_framing : forall (root : tree D) (m : msg) (d : D) r,
  spec_message root m d (mkFmt None []) = r -> r_err r = None ->
  Forall (fun t => t <> []) (unit_texts (r_trace r)) ->
  r_out r = match unit_texts (r_trace r) with [] => [] | us => intercalate [59] us ++ [10] end.
Proof.
  intros root m d r H He HF. unfold spec_message in H.
  destruct (spec_units root root (m_units m) d (mkFmt None []) []) as [[[d' f'] tr'] e] eqn:Hs.
  subst r. cbn [r_err r_out r_trace] in *. subst e.
  eapply (spec_units_framing root (m_units m) root d (mkFmt None []) [] d' f' tr'); [|exact Hs|exact HF].
  split; [reflexivity|]. intros _. reflexivity.
Qed.

End MessageProofs2.

Print Assumptions lex_faithful_trailing_separator.
Print Assumptions message_semantics_tokens_trailing_separator.
Print Assumptions message_semantics_empty.
Print Assumptions message_semantics_trailing_separator.
Print Assumptions trailing_separator_ignored.
Print Assumptions spec_message_framing.
