(* Proofs for C14. *)
From Coq Require Import Lia ZifyBool.
From VF Require Import Base Gen_Errors Gen_Esr ErrTable ErrSpec.
Open Scope Z_scope.

(* esr_mask agrees with the class table on EVERY integer (hence on all i16). *)
Lemma esr_mask_class_bit : forall c, esr_mask c = class_bit c.
Proof.
  intro c. unfold esr_mask, esr_arms, esr_default, class_bit. cbn [esr_lookup].
  repeat match goal with
  | |- context [if ?b then _ else _] => destruct b eqn:?
  end; try reflexivity; lia.
Qed.

(* get_error/get_code round trip: generic in the table *)
Lemma find_code_code : forall tbl c v, find_code tbl c = Some v -> fst v = c.
Proof.
  induction tbl as [|[c' m] tbl IH]; intros c v H; cbn [find_code] in H.
  - discriminate.
  - destruct (c' =? c) eqn:E.
    + inversion H; subst. cbn [fst]. lia.
    + eauto.
Qed.

Lemma lookup_roundtrip : forall c v, get_error c = Some v -> get_code v = c.
Proof. intros c v H. unfold get_code. eapply find_code_code; eassumption. Qed.

(* every variant of the table is found under its own code with its own message
   exactly when no earlier variant carries the same code: codes are pairwise distinct *)
Fixpoint codes_distinct (l : list Z) : bool :=
  match l with
  | [] => true
  | c :: l' => negb (existsb (Z.eqb c) l') && codes_distinct l'
  end.
Lemma std_codes_distinct : codes_distinct (map fst std_errors) = true.
Proof. vm_compute. reflexivity. Qed.

Lemma find_code_in : forall tbl c m,
  codes_distinct (map fst tbl) = true -> In (c, m) tbl -> find_code tbl c = Some (c, m).
Proof.
  induction tbl as [|[c' m'] tbl IH]; intros c m Hd Hin; [destruct Hin|].
  cbn [map fst codes_distinct] in Hd. apply andb_prop in Hd. destruct Hd as [Hn Hd].
  cbn [find_code]. destruct Hin as [Heq|Hin].
  - inversion Heq; subst. rewrite Z.eqb_refl. reflexivity.
  - destruct (c' =? c) eqn:E.
    + exfalso. apply Z.eqb_eq in E. subst c'.
      apply negb_true_iff in Hn.
      assert (existsb (Z.eqb c) (map fst tbl) = true) as Hx.
      { apply existsb_exists. exists c. split; [|apply Z.eqb_refl].
        apply in_map_iff. exists (c, m). split; [reflexivity|assumption]. }
      congruence.
    + apply IH; assumption.
Qed.

Lemma every_std_error_found : forall c m, In (c, m) std_errors -> get_error c = Some (c, m).
Proof. intros. apply find_code_in; [exact std_codes_distinct|assumption]. Qed.

(* all standard codes are i16 and none is positive *)
Lemma std_codes_i16 : forallb (fun cm => (-32768 <=? fst cm) && (fst cm <=? 32767)) std_errors = true.
Proof. vm_compute. reflexivity. Qed.
