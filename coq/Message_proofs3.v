(* Message_proofs3.v — the PREFIX theorem: a message whose first units are well-formed and are followed, after a
   `;`, by ARBITRARY bytes (possibly malformed).  The prefix is executed exactly as MessageSpec.spec_unit says, unit
   by unit; only if every unit of the prefix succeeded does execution continue on the tail, from the context the
   prefix left; if a prefix unit fails the tail has no influence at all.

   1. lexing: a fuel-free view of the tokenizer for item streams that may end in an error ([lexesG]); the
      continuation-style lemmas of Grammar_proofs.v re-proved for it (the one-token lemmas lex_datum, lex_comma,
      lex_mnemonic, ... of Grammar_proofs.v are reused unchanged); [tokenize_prefix];
   2. the unit loop on a well-formed prefix followed by `;` and an arbitrary stream ([loop_prefix]); fuel
      monotonicity of the loop;
   3. the theorems; 4. non-vacuity examples. *)
From VF Require Import Base Gen_Errors Fmt Lexer Mnemonic Grammar Response Tree HeaderSpec MessageSpec MessageSpec3.
From VF Require Import Lexer_proofs Grammar_proofs Tree_proofs Header_proofs Message_proofs Message_proofs2.
From Coq Require Import Lia ZifyBool ZifyN ZifyNat.
Open Scope N_scope.

(* ------------------------------------------------------------------ *)
(* 1. lexing: a well-formed prefix followed by an arbitrary tail        *)
(* ------------------------------------------------------------------ *)
(* fuel-free view of the tokenizer: with any sufficient fuel the lexer state [l] yields the items [items]
   (tokens, possibly closed by one error item) *)
Definition lexesG (l : lexer) (items : list titem) : Prop :=
  forall f, (length (chars l) < f)%nat -> tokenize_fuel f l = Val items.

Lemma tokenize_fuel_mono : forall f l r, tokenize_fuel f l = Val r ->
  forall f', (f <= f')%nat -> tokenize_fuel f' l = Val r.
Proof.
  induction f as [|f IH]; intros l r H f' Hle; [discriminate H|].
  destruct f' as [|f']; [lia|]. cbn [tokenize_fuel] in *.
  destruct (lex_next l) as [s|site]; cbn [obind] in *; [|discriminate H].
  destruct s as [|e|t l']; try exact H.
  destruct (tokenize_fuel f l') as [r1|site] eqn:E; cbn [obind] in H; [|discriminate H].
  rewrite (IH l' r1 E f') by lia. exact H.
Qed.

Lemma lexesG_of_tokenize_from : forall l items, tokenize_from l = Val items -> lexesG l items.
Proof.
  intros l items H f Hf. unfold tokenize_from in H. eapply tokenize_fuel_mono; [exact H|lia].
Qed.

Lemma lexesG_tokenize_from : forall l items, lexesG l items -> tokenize_from l = Val items.
Proof. intros l items H. unfold tokenize_from. apply H. lia. Qed.

Lemma lexesG_tok : forall l t l' ts,
  lex_next l = Val (STok t l') -> (length (chars l') < length (chars l))%nat ->
  lexesG l' ts -> lexesG l (IOk t :: ts).
Proof.
  intros l t l' ts H Hlen Hk f Hf. destruct f as [|f]; [lia|].
  cbn [tokenize_fuel]. rewrite H. cbn [obind]. rewrite (Hk f) by lia. reflexivity.
Qed.

(* the continuation after a unit: reached either exactly at [rest] or after skipping white space *)
Definition contG (rest : list byte) (ts : list titem) : Prop :=
  forall hdr com, lexesG (mkLexer rest hdr com) ts /\ lexesG (mkLexer (skip_ws rest) hdr com) ts.

Lemma lexesG_datum_step : forall d w rest com ts,
  wf_datum d = true -> wf_ws w = true -> sep_follow rest ->
  lexesG (mkLexer (skip_ws rest) false com) ts ->
  lexesG (mkLexer (render_datum d ++ w ++ rest) false com) (IOk (token_of_datum d) :: ts).
Proof.
  intros d w rest com ts Hd Hw Hr Hk.
  eapply lexesG_tok; [apply lex_datum; assumption | | exact Hk].
  cbn [chars]. destruct (datum_head d Hd) as (x & t & -> & _).
  pose proof (skip_ws_length rest). cbn [app length]. repeat rewrite app_length. lia.
Qed.

Lemma lexesG_args : forall args, forallb wf_arg args = true -> args <> [] ->
  forall rest ts com, unit_follow rest -> contG rest ts ->
  lexesG (mkLexer (render_args args ++ rest) false com) (map IOk (tokens_args args) ++ ts).
Proof.
  induction args as [|a args IH]; intros Hwf Hne rest ts com Hr Hk; [congruence|].
  cbn [forallb] in Hwf. apply andb_prop in Hwf. destruct Hwf as [Ha Hargs].
  destruct a as [[d w1] w2]. pose proof Ha as Ha'. cbn [wf_arg] in Ha'.
  apply andb_prop in Ha'. destruct Ha' as [Ha' Hw2]. apply andb_prop in Ha'. destruct Ha' as [Hd Hw1].
  destruct args as [|a2 args'].
  - cbn [render_args tokens_args map app]. rewrite <- app_assoc.
    apply lexesG_datum_step; try assumption; [apply unit_follow_sep; exact Hr | apply Hk].
  - rewrite render_args_cons2, tokens_args_cons2.
    repeat rewrite <- app_assoc. cbn [app]. rewrite <- app_assoc.
    change (map IOk (token_of_datum d :: TDataSeparator :: tokens_args (a2 :: args')) ++ ts)
      with (IOk (token_of_datum d) :: IOk TDataSeparator :: map IOk (tokens_args (a2 :: args')) ++ ts).
    cbn [forallb] in Hargs. pose proof Hargs as Hargs'. apply andb_prop in Hargs'. destruct Hargs' as [Ha2 _].
    destruct (args_head a2 args' rest Ha2) as (x & t & Heq & Hx).
    apply lexesG_datum_step; try assumption; [cbn; auto|].
    change (skip_ws (44 :: w2 ++ render_args (a2 :: args') ++ rest))
      with (44 :: w2 ++ render_args (a2 :: args') ++ rest).
    eapply lexesG_tok.
    + rewrite Heq. apply lex_comma; assumption.
    + cbn [chars length]. rewrite app_length, Heq. cbn [length]. lia.
    + rewrite <- Heq. apply IH; [exact Hargs | discriminate | exact Hr | exact Hk].
Qed.

Lemma lexesG_mnemonic_step : forall m R com ts,
  wf_mnemonic m = true -> stop is_mnemonic_char R ->
  lexesG (mkLexer R true com) ts -> lexesG (mkLexer (m ++ R) true com) (IOk (TMnemonic m) :: ts).
Proof.
  intros m R com ts Hm HR Hk.
  eapply lexesG_tok; [apply lex_mnemonic; assumption | | exact Hk].
  destruct (wf_mnemonic_inv m Hm) as (x & m' & -> & _).
  cbn [chars app length]. rewrite app_length. lia.
Qed.

Lemma lexesG_path : forall ms, forallb wf_mnemonic ms = true -> ms <> [] ->
  forall R ts, stop is_mnemonic_char R ->
  lexesG (mkLexer R true false) ts ->
  lexesG (mkLexer (render_path ms ++ R) true false) (map IOk (tokens_path ms) ++ ts).
Proof.
  induction ms as [|m ms IH]; intros Hwf Hne R ts HR Hk; [congruence|].
  cbn [forallb] in Hwf. apply andb_prop in Hwf. destruct Hwf as [Hm Hms].
  destruct ms as [|m2 ms'].
  - cbn [render_path tokens_path map app]. apply lexesG_mnemonic_step; assumption.
  - rewrite render_path_cons2, tokens_path_cons2. rewrite <- app_assoc. cbn [app].
    change (map IOk (TMnemonic m :: THeaderMnemonicSeparator :: tokens_path (m2 :: ms')) ++ ts)
      with (IOk (TMnemonic m) :: IOk THeaderMnemonicSeparator :: map IOk (tokens_path (m2 :: ms')) ++ ts).
    pose proof Hms as Hms'. cbn [forallb] in Hms'. apply andb_prop in Hms'. destruct Hms' as [Hm2 _].
    destruct (path_head m2 ms' R Hm2) as (y & t & Heq & Hy).
    apply lexesG_mnemonic_step; [exact Hm | reflexivity |].
    eapply lexesG_tok.
    + rewrite Heq. apply lex_colon. exact Hy.
    + cbn [chars length]. rewrite Heq. cbn [length]. lia.
    + rewrite <- Heq. apply IH; [exact Hms | discriminate | exact HR | exact Hk].
Qed.

Lemma lexesG_query : forall (q : bool) R com ts, hdr_follow R ->
  (forall hdr, lexesG (mkLexer R hdr com) ts) ->
  lexesG (mkLexer ((if q then [63] else []) ++ R) true com)
         (map IOk (if q then [THeaderQuerySuffix] else []) ++ ts).
Proof.
  intros [|] R com ts HR Hk; cbn [map app]; [|apply Hk].
  eapply lexesG_tok; [apply lex_query; exact HR | cbn [chars length]; lia | apply Hk].
Qed.

Lemma lexesG_header : forall h R ts, wf_header h = true -> hdr_follow R ->
  (forall hdr com, lexesG (mkLexer R hdr com) ts) ->
  lexesG (mkLexer (render_header h ++ R) true false) (map IOk (tokens_header h) ++ ts).
Proof.
  intros [ab common ms q] R ts Hwf HR Hk. unfold wf_header, render_header, tokens_header in *.
  cbn [h_absolute h_common h_mnems h_query] in *.
  apply andb_prop in Hwf. destruct Hwf as [Hms Hshape].
  rewrite map_app. repeat rewrite <- app_assoc.
  destruct common.
  - destruct ms as [|m [|m2 ms']]; cbn in Hshape; try discriminate.
    cbn [forallb] in Hms. apply andb_prop in Hms. destruct Hms as [Hm _].
    change (map IOk [TMnemonic (42 :: m)]) with [IOk (TMnemonic (42 :: m))].
    cbn [app]. eapply lexesG_tok.
    + apply lex_common; [exact Hm | apply query_stop; exact HR].
    + cbn [chars length]. repeat rewrite app_length. lia.
    + apply lexesG_query; [exact HR | intros; apply Hk].
  - assert (Hne : ms <> []) by (intros ->; discriminate Hshape).
    assert (Hpath : lexesG (mkLexer (render_path ms ++ (if q then [63] else []) ++ R) true false)
                           (map IOk (tokens_path ms) ++ map IOk (if q then [THeaderQuerySuffix] else []) ++ ts)).
    { apply lexesG_path; [exact Hms | exact Hne | apply query_stop; exact HR |].
      apply lexesG_query; [exact HR | intros; apply Hk]. }
    rewrite map_app. repeat rewrite <- app_assoc.
    destruct ab; [|exact Hpath].
    change (map IOk [THeaderMnemonicSeparator]) with [IOk THeaderMnemonicSeparator]. cbn [app].
    destruct ms as [|m ms']; [congruence|].
    cbn [forallb] in Hms. apply andb_prop in Hms. destruct Hms as [Hm _].
    destruct (path_head m ms' ((if q then [63] else []) ++ R) Hm) as (y & t & Heq & Hy).
    eapply lexesG_tok.
    + rewrite Heq. apply lex_colon. exact Hy.
    + cbn [chars length]. rewrite Heq. cbn [length]. lia.
    + rewrite <- Heq. exact Hpath.
Qed.

Lemma lexesG_unit : forall u rest ts, wf_unit u = true -> unit_follow rest -> contG rest ts ->
  lexesG (mkLexer (render_unit u ++ rest) true false) (map IOk (tokens_unit u) ++ ts).
Proof.
  intros [h hs args] rest ts Hwf Hr Hk. unfold wf_unit, render_unit, tokens_unit in *.
  cbn [u_header u_hsep u_args] in *.
  apply andb_prop in Hwf. destruct Hwf as [Hwf Hargs].
  apply andb_prop in Hwf. destruct Hwf as [Hwf Hshape].
  apply andb_prop in Hwf. destruct Hwf as [Hh Hhs].
  change (forallb wf_arg args = true) in Hargs.
  rewrite !map_app. repeat rewrite <- app_assoc.
  destruct hs as [|x w].
  - destruct args as [|a args']; [|discriminate Hshape].
    cbn [app render_args tokens_args map].
    apply lexesG_header; [exact Hh | apply unit_follow_hdr; exact Hr | intros; apply Hk].
  - cbn in Hhs. apply andb_prop in Hhs. destruct Hhs as [Hx Hw].
    apply lexesG_header; [exact Hh | cbn [app hdr_follow]; left; apply layout_is_ws; exact Hx |].
    intros hdr com. cbn [app map].
    destruct args as [|a args'].
    + cbn [render_args tokens_args app map].
      eapply lexesG_tok.
      * apply lex_hsep; [exact Hx | exact Hw | apply unit_follow_skip; exact Hr].
      * cbn [chars length]. rewrite app_length. pose proof (skip_ws_length rest). lia.
      * apply Hk.
    + pose proof Hargs as Hargs'. cbn [forallb] in Hargs'. apply andb_prop in Hargs'. destruct Hargs' as [Ha _].
      destruct (args_head a args' rest Ha) as (y & t & Heq & Hy).
      destruct (datum_start_props y Hy) as (Hy1 & Hy2 & _).
      assert (Hskip : skip_ws (render_args (a :: args') ++ rest) = render_args (a :: args') ++ rest).
      { rewrite Heq. unfold skip_ws. apply skip_while_stop. exact Hy1. }
      eapply lexesG_tok.
      * apply lex_hsep; [exact Hx | exact Hw |]. rewrite Hskip, Heq. exact Hy2.
      * cbn [chars length]. rewrite Hskip. rewrite (app_length w). lia.
      * rewrite Hskip. apply lexesG_args; [exact Hargs | discriminate | exact Hr | exact Hk].
Qed.

(* [lexes_units_k] for item streams *)
Lemma lexesG_units_k : forall us, forallb Grammar_proofs.wf_uw us = true -> us <> [] ->
  forall rest ts, unit_follow rest -> contG rest ts ->
  lexesG (mkLexer (render_units us ++ rest) true false) (map IOk (tokens_units us) ++ ts).
Proof.
  induction us as [|uw us IH]; intros Hwf Hne rest ts Hr Hk; [congruence|].
  cbn [forallb] in Hwf. apply andb_prop in Hwf. destruct Hwf as [Huw Hus].
  destruct uw as [u w]. pose proof Huw as Huw'. unfold Grammar_proofs.wf_uw in Huw'. cbn [fst snd] in Huw'.
  apply andb_prop in Huw'. destruct Huw' as [Hu Hw].
  destruct us as [|uw2 us'].
  - cbn [render_units tokens_units]. apply lexesG_unit; assumption.
  - rewrite render_units_cons2, tokens_units_cons2. rewrite map_app. rewrite <- !app_assoc. cbn [app map].
    rewrite <- !app_assoc.
    pose proof Hus as Hus'. cbn [forallb] in Hus'. apply andb_prop in Hus'. destruct Hus' as [Huw2 _].
    destruct (units_head uw2 us' rest Huw2) as (y & t & Heq & Hy).
    assert (Hstep : forall hdr com,
      lexesG (mkLexer (59 :: w ++ render_units (uw2 :: us') ++ rest) hdr com)
             (IOk TUnitSeparator :: map IOk (tokens_units (uw2 :: us')) ++ ts)).
    { intros hdr com. eapply lexesG_tok.
      - apply lex_semicolon; [exact Hw | rewrite Heq; cbn [stop]; apply unit_start_not_ws; exact Hy].
      - cbn [chars length]. rewrite (app_length w). lia.
      - apply IH; [exact Hus | discriminate | exact Hr | exact Hk]. }
    apply lexesG_unit; [exact Hu | cbn; auto |].
    intros hdr com. split; apply Hstep.
Qed.

(* `;`, white space, then arbitrary bytes: one unit separator, then the items of the tail lexed from its start
   (in header mode, leading white space skipped: exactly [tokenize tail]) *)
Lemma contG_semicolon_tail : forall w bad items, wf_ws w = true -> tokenize bad = Val items ->
  contG (59 :: w ++ bad) (IOk TUnitSeparator :: items).
Proof.
  intros w bad items Hw Hb hdr com.
  assert (Hs : skip_ws (59 :: w ++ bad) = 59 :: w ++ bad)
    by (unfold skip_ws; apply skip_while_stop; reflexivity).
  rewrite Hs.
  assert (Hstep : lexesG (mkLexer (59 :: w ++ bad) hdr com) (IOk TUnitSeparator :: items)).
  { eapply lexesG_tok with (l' := mkLexer (skip_ws bad) true false).
    - unfold lex_next. cbn [chars in_header in_common].
      change (59 =? 42) with false. change (59 =? 58) with false. change (59 =? 63) with false.
      change (59 =? 59) with true. cbv iota.
      rewrite skip_ws_layout by exact Hw. reflexivity.
    - cbn [chars length]. rewrite app_length. pose proof (skip_ws_length bad). lia.
    - apply lexesG_of_tokenize_from. exact Hb. }
  split; exact Hstep.
Qed.

(* the token stream of a well-formed prefix followed by `;`, white space and an ARBITRARY tail *)
Theorem tokenize_prefix : forall lead us w bad items,
  wf_ws lead = true -> forallb Grammar_proofs.wf_uw us = true -> us <> [] -> wf_ws w = true ->
  tokenize bad = Val items ->
  tokenize (lead ++ render_units us ++ 59 :: w ++ bad)
  = Val (map IOk (tokens_units us) ++ IOk TUnitSeparator :: items).
Proof.
  intros lead us w bad items Hlead Hus Hne Hw Hb.
  destruct us as [|uw us']; [congruence|].
  pose proof Hus as Hus'. cbn [forallb] in Hus'. apply andb_prop in Hus'. destruct Hus' as [Huw _].
  destruct (units_head uw us' (59 :: w ++ bad) Huw) as (y & t & Heq & Hy).
  unfold tokenize at 1. unfold lexer_new. rewrite skip_ws_layout by exact Hlead.
  unfold skip_ws. rewrite skip_while_stop by (rewrite Heq; cbn [stop]; apply unit_start_not_ws; exact Hy).
  apply lexesG_tokenize_from.
  apply lexesG_units_k; [exact Hus | discriminate | cbn; auto |].
  apply contG_semicolon_tail; assumption.
Qed.

Section MessageProofs3.
Context {D : Type}.

(* ------------------------------------------------------------------ *)
(* 2. the unit loop on a prefix followed by `;` and an arbitrary stream *)
(* ------------------------------------------------------------------ *)
(* more fuel never changes a result *)
Lemma unit_loop_mono : forall fu (root leaf : tree D) s r, unit_loop fu root leaf s = Val r ->
  forall fu', (fu <= fu')%nat -> unit_loop fu' root leaf s = Val r.
Proof.
  induction fu as [|fu IH]; intros root leaf s r H fu' Hle; [discriminate H|].
  destruct fu' as [|fu']; [lia|]. cbn [unit_loop] in *.
  destruct (unit_body root leaf s) as [[leaf' s'|e s']|s' e]; try exact H.
  destruct (unit_after leaf' s') as [l'' s''|s'' e]; [|exact H].
  apply (IH _ _ _ _ H). lia.
Qed.

(* any fuel above the length of the stream gives the result of the canonical fuel *)
Lemma unit_loop_enough : forall fu (root leaf : tree D) s, (length (x_toks s) < fu)%nat ->
  unit_loop fu root leaf s = unit_loop (S (length (x_toks s))) root leaf s.
Proof.
  intros fu root leaf s Hfu.
  destruct (unit_loop_total (S (length (x_toks s))) root leaf s ltac:(lia)) as [r Hr].
  rewrite Hr. eapply unit_loop_mono; [exact Hr|lia].
Qed.

(* the loop only ever appends to the trace *)
Lemma unit_loop_trace_extends : forall fu (root leaf : tree D) s sf e,
  unit_loop fu root leaf s = Val (sf, e) -> exists added, x_trace sf = x_trace s ++ added.
Proof.
  induction fu as [|fu IH]; intros root leaf s sf e H; [discriminate H|].
  cbn [unit_loop] in H.
  destruct (unit_body root leaf s) as [r|s' e'] eqn:Hb.
  - apply unit_body_ok in Hb. destruct Hb as [_ [added [Htr _]]].
    destruct r as [leaf' s'|e' s']; cbn [xres_state] in Htr.
    + destruct (unit_after leaf' s') as [l'' s''|s'' e''] eqn:Ha.
      * apply unit_after_next in Ha. destruct Ha as [rest [_ Hs'']]. subst s''.
        apply IH in H. destruct H as [added2 H]. cbn [with_toks x_trace] in H.
        exists (added ++ added2). rewrite H, Htr, app_assoc. reflexivity.
      * apply unit_after_stop in Ha. inversion H; subst. exists added. rewrite Ha. exact Htr.
    + inversion H; subst. exists added. exact Htr.
  - apply unit_body_done in Hb. inversion H; subst. exists []. rewrite app_nil_r. exact Hb.
Qed.

(* the stream of a prefix: every unit followed by a unit separator, then [rest] *)
Fixpoint pstream (us : list (munit * list byte)) (rest : list titem) : list titem :=
  match us with
  | [] => rest
  | (u, _) :: us' => map IOk (tokens_unit u) ++ IOk TUnitSeparator :: pstream us' rest
  end.

Lemma pstream_eq : forall us rest, us <> [] ->
  map IOk (tokens_units us) ++ IOk TUnitSeparator :: rest = pstream us rest.
Proof.
  induction us as [|[u w] us IH]; intros rest Hne; [congruence|].
  destruct us as [|uw us'].
  - reflexivity.
  - change (tokens_units ((u, w) :: uw :: us')) with (tokens_unit u ++ TUnitSeparator :: tokens_units (uw :: us')).
    rewrite map_app, <- app_assoc. cbn [map app pstream]. fold (pstream (uw :: us') rest).
    rewrite (IH rest) by discriminate. reflexivity.
Qed.

(* the loop runs the units of the prefix as spec_prefix says, spending one unit of fuel per unit, and arrives
   at the tail in the context the prefix left; a failing unit ends the loop whatever the tail is *)
Lemma loop_prefix : forall us (root ctx : tree D) rest d f tr fu, wf_tree root -> In ctx (all_subtrees root) ->
  forallb Message_proofs.wf_uw us = true ->
  match spec_prefix root ctx us d f tr with
  | PErr e d' f' tr' =>
    exists s, unit_loop (length us + fu) root ctx (mkX (pstream us rest) d f tr) = Val (s, Some e) /\
              x_dev s = d' /\ x_fmt s = f' /\ x_trace s = tr'
  | POk ctx' d' f' tr' =>
    In ctx' (all_subtrees root) /\
    unit_loop (length us + fu) root ctx (mkX (pstream us rest) d f tr) = unit_loop fu root ctx' (mkX rest d' f' tr')
  end.
Proof.
  induction us as [|[u w] us IH]; intros root ctx rest d f tr fu Hwf Hctx Hus.
  - cbn [spec_prefix pstream length Nat.add]. split; [exact Hctx|reflexivity].
  - cbn [forallb] in Hus. apply andb_prop in Hus. destruct Hus as [Huw Hus].
    unfold Message_proofs.wf_uw in Huw. cbn [fst snd] in Huw. apply andb_prop in Huw. destruct Huw as [Hu _].
    cbn [spec_prefix pstream length Nat.add].
    assert (Ht : unit_tail (IOk TUnitSeparator :: pstream us rest)) by (right; eexists; reflexivity).
    destruct (unit_step root ctx u (IOk TUnitSeparator :: pstream us rest) d f tr Hwf Hctx Hu Ht) as [r [Hb Hr]].
    destruct (spec_unit root ctx u d f tr) as [ctx' d' f' tr'|e d' f' tr'].
    + destruct Hr as [Hctx' ->].
      specialize (IH root ctx' rest d' f' tr' fu Hwf Hctx' Hus).
      assert (Hstep : unit_loop (S (length us + fu)) root ctx
                        (mkX (map IOk (tokens_unit u) ++ IOk TUnitSeparator :: pstream us rest) d f tr)
                      = unit_loop (length us + fu) root ctx' (mkX (pstream us rest) d' f' tr')).
      { cbn [unit_loop]. rewrite Hb. reflexivity. }
      rewrite Hstep. exact IH.
    + destruct Hr as [[s' [-> [Hd [Hf Htr]]]]|[-> [leaf [s' [tok [rest' [-> [Htoks [Htok [Hd [Hf Htr]]]]]]]]]]].
      * exists s'. split; [|auto]. cbn [unit_loop]. rewrite Hb. reflexivity.
      * rewrite (leftover_is_108 (length us + fu) root ctx _ leaf s' tok rest' Hb Htoks Htok).
        eexists. split; [reflexivity|]. cbn [with_toks x_dev x_fmt x_trace]. auto.
Qed.

(* ------------------------------------------------------------------ *)
(* 3. the theorems                                                      *)
(* ------------------------------------------------------------------ *)
Lemma run_is_run_from : forall (root : tree D) input d f, run root input d f = run_from root root input d f [].
Proof. intros root input d f. reflexivity. Qed.

(* spec_units = spec_prefix followed by the end-of-message step *)
Lemma spec_units_prefix : forall (root ctx : tree D) us d f tr,
  spec_units root ctx us d f tr =
  match spec_prefix root ctx us d f tr with
  | PErr e d' f' tr' => (d', f', tr', Some e)
  | POk ctx' d' f' tr' => spec_units root ctx' [] d' f' tr'
  end.
Proof.
  intros root ctx us. revert ctx. induction us as [|[u w] us IH]; intros ctx d f tr.
  - reflexivity.
  - cbn [spec_units spec_prefix].
    destruct (spec_unit root ctx u d f tr) as [ctx' d' f' tr'|e d' f' tr']; [apply IH|reflexivity].
Qed.

(* a prefix only appends to the trace *)
Lemma spec_prefix_trace_extends : forall (root ctx : tree D) us d f tr,
  exists added, pres_trace (spec_prefix root ctx us d f tr) = tr ++ added.
Proof.
  intros root ctx us. revert ctx. induction us as [|[u w] us IH]; intros ctx d f tr.
  - exists []. cbn [spec_prefix pres_trace]. rewrite app_nil_r. reflexivity.
  - cbn [spec_prefix]. pose proof (spec_unit_trace root ctx u d f tr) as Ht.
    destruct (spec_unit root ctx u d f tr) as [ctx' d' f' tr'|e d' f' tr'].
    + destruct Ht as [a ->]. destruct (IH ctx' d' f' (tr ++ [a])) as [added Ha].
      exists ([a] ++ added). rewrite Ha, app_assoc. reflexivity.
    + cbn [pres_trace]. destruct Ht as [->|[a ->]]; [exists []; rewrite app_nil_r|exists [a]]; reflexivity.
Qed.

(* the context a successful prefix leaves is a node of the tree *)
Lemma spec_prefix_ctx_subtree : forall (root ctx : tree D) us d f tr ctx' d' f' tr',
  wf_tree root -> In ctx (all_subtrees root) -> forallb Message_proofs.wf_uw us = true ->
  spec_prefix root ctx us d f tr = POk ctx' d' f' tr' -> In ctx' (all_subtrees root).
Proof.
  intros root ctx us d f tr ctx' d' f' tr' Hwf Hctx Hus Hp.
  pose proof (loop_prefix us root ctx [] d f tr 0%nat Hwf Hctx Hus) as HL.
  rewrite Hp in HL. exact (proj1 HL).
Qed.

(* THE PREFIX THEOREM, in its general (composable) form: execution started anywhere in a message — from the context
   [ctx0] (a node of the tree), the device [d], the formatter [f], the trace [tr0] — on a well-formed prefix, `;`,
   white space and ARBITRARY bytes. *)
Theorem run_from_prefix_semantics : forall (root ctx0 : tree D) lead us w bad d f tr0,
  wf_tree root -> In ctx0 (all_subtrees root) ->
  wf_ws lead = true -> forallb Message_proofs.wf_uw us = true -> us <> [] -> wf_ws w = true ->
  run_from root ctx0 (lead ++ render_units us ++ 59 :: w ++ bad) d f tr0 =
  match spec_prefix root ctx0 us d f tr0 with
  | PErr e d' f' tr => Val (mkRun (Some e) d' (buf f') tr [e])
  | POk ctx d' f' tr => run_from root ctx bad d' f' tr
  end.
Proof.
  intros root ctx0 lead us w bad d f tr0 Hwf Hctx0 Hlead Hus Hne Hw.
  destruct (lex_total bad) as [items Hitems].
  unfold run_from at 1. rewrite (tokenize_prefix lead us w bad items Hlead Hus Hne Hw Hitems). cbn [obind].
  rewrite pstream_eq by exact Hne.
  pose proof (units_tokens_length us Hus) as Hlen.
  assert (Hpl : length (pstream us items) = (length (tokens_units us) + S (length items))%nat).
  { rewrite <- (pstream_eq us items Hne), app_length, map_length. reflexivity. }
  set (fu := (S (length (pstream us items)) - length us)%nat).
  replace (S (length (pstream us items))) with (length us + fu)%nat by (unfold fu; lia).
  pose proof (loop_prefix us root ctx0 items d f tr0 fu Hwf Hctx0 Hus) as HL.
  destruct (spec_prefix root ctx0 us d f tr0) as [ctx d' f' tr|e d' f' tr].
  - destruct HL as [_ HL]. rewrite HL. unfold run_from. rewrite Hitems. cbn [obind].
    rewrite (unit_loop_enough fu root ctx (mkX items d' f' tr)) by (cbn [x_toks]; unfold fu; lia).
    reflexivity.
  - destruct HL as [s [HL [Hd [Hf Htr]]]]. rewrite HL. cbn [obind]. rewrite Hd, Hf, Htr. reflexivity.
Qed.

(* THE PREFIX THEOREM for a whole message (ctx0 = root, empty trace).  The statement is exactly the one asked for;
   no correction was needed:
   - the fuel of [run_from] is the canonical S (length tokens-of-the-tail), although the whole-message run reaches
     the tail with more fuel left (unit_loop_enough: any sufficient fuel gives the same result);
   - [tokenize bad] skips leading white space and starts in header mode, which is the lexer state after `;`. *)
Theorem message_prefix_semantics : forall (root : tree D) lead us w bad d f,
  wf_tree root -> wf_ws lead = true -> forallb Message_proofs.wf_uw us = true -> us <> [] -> wf_ws w = true ->
  run root (lead ++ render_units us ++ 59 :: w ++ bad) d f =
  match spec_prefix root root us d f [] with
  | PErr e d' f' tr => Val (mkRun (Some e) d' (buf f') tr [e])
  | POk ctx d' f' tr => run_from root ctx bad d' f' tr
  end.
Proof.
  intros root lead us w bad d f Hwf Hlead Hus Hne Hw. rewrite run_is_run_from.
  apply run_from_prefix_semantics; try assumption. apply all_subtrees_self.
Qed.

(* if a unit of the prefix fails, the bytes after the prefix are irrelevant *)
Corollary failed_prefix_tail_irrelevant : forall (root : tree D) lead us w bad1 bad2 d f e d' f' tr,
  wf_tree root -> wf_ws lead = true -> forallb Message_proofs.wf_uw us = true -> us <> [] -> wf_ws w = true ->
  spec_prefix root root us d f [] = PErr e d' f' tr ->
  run root (lead ++ render_units us ++ 59 :: w ++ bad1) d f = run root (lead ++ render_units us ++ 59 :: w ++ bad2) d f.
Proof.
  intros root lead us w bad1 bad2 d f e d' f' tr Hwf Hlead Hus Hne Hw Hp.
  rewrite !message_prefix_semantics by assumption. rewrite Hp. reflexivity.
Qed.

(* a lexical error at the very start of the tail: the prefix ran, the tail ran nothing, the error is the lexer's *)
Corollary bad_unit_aborts : forall (root : tree D) lead us w bad e rest d f,
  wf_tree root -> wf_ws lead = true -> forallb Message_proofs.wf_uw us = true -> us <> [] -> wf_ws w = true ->
  tokenize bad = Val (IErr e :: rest) ->
  run root (lead ++ render_units us ++ 59 :: w ++ bad) d f =
  match spec_prefix root root us d f [] with
  | PErr e' d' f' tr => Val (mkRun (Some e') d' (buf f') tr [e'])
  | POk ctx d' f' tr => Val (mkRun (Some (std_error e)) d' (buf f') tr [std_error e])
  end.
Proof.
  intros root lead us w bad e rest d f Hwf Hlead Hus Hne Hw Hb.
  rewrite message_prefix_semantics by assumption.
  destruct (spec_prefix root root us d f []) as [ctx d' f' tr|e' d' f' tr]; [|reflexivity].
  unfold run_from. rewrite Hb. cbn [obind].
  rewrite (stream_error_aborts (length (IErr e :: rest)) root ctx (mkX (IErr e :: rest) d' f' tr) e rest eq_refl).
  reflexivity.
Qed.

(* traces grow by APPENDING (Tree.run_handler: x_trace s ++ [entry]): the trace of the whole run is the trace of the
   prefix followed by what the tail added; no handler invocation of the prefix is lost, reordered or repeated *)
Corollary prefix_trace_preserved : forall (root : tree D) lead us w bad d f r,
  wf_tree root -> wf_ws lead = true -> forallb Message_proofs.wf_uw us = true -> us <> [] -> wf_ws w = true ->
  run root (lead ++ render_units us ++ 59 :: w ++ bad) d f = Val r ->
  exists tr_more,
    r_trace r = (match spec_prefix root root us d f [] with PErr _ _ _ tr => tr | POk _ _ _ tr => tr end) ++ tr_more.
Proof.
  intros root lead us w bad d f r Hwf Hlead Hus Hne Hw Hr.
  rewrite message_prefix_semantics in Hr by assumption.
  destruct (spec_prefix root root us d f []) as [ctx d' f' tr|e' d' f' tr].
  - unfold run_from in Hr.
    destruct (tokenize bad) as [items|site]; cbn [obind] in Hr; [|discriminate Hr].
    destruct (unit_loop (S (length items)) root ctx (mkX items d' f' tr)) as [[s e]|site] eqn:HL;
      cbn [obind] in Hr; [|discriminate Hr].
    apply unit_loop_trace_extends in HL. destruct HL as [added HL]. cbn [x_trace] in HL.
    inversion Hr; subst r. cbn [r_trace]. exists added. exact HL.
  - inversion Hr; subst r. exists []. cbn [r_trace]. rewrite app_nil_r. reflexivity.
Qed.

(* when the failing unit is in the prefix nothing at all is added *)
Corollary failed_prefix_trace_exact : forall (root : tree D) lead us w bad d f r e d' f' tr,
  wf_tree root -> wf_ws lead = true -> forallb Message_proofs.wf_uw us = true -> us <> [] -> wf_ws w = true ->
  spec_prefix root root us d f [] = PErr e d' f' tr ->
  run root (lead ++ render_units us ++ 59 :: w ++ bad) d f = Val r ->
  r = mkRun (Some e) d' (buf f') tr [e].
Proof.
  intros root lead us w bad d f r e d' f' tr Hwf Hlead Hus Hne Hw Hp Hr.
  rewrite message_prefix_semantics in Hr by assumption. rewrite Hp in Hr. inversion Hr. reflexivity.
Qed.

End MessageProofs3.

Print Assumptions tokenize_prefix.
Print Assumptions run_is_run_from.
Print Assumptions spec_units_prefix.
Print Assumptions spec_prefix_trace_extends.
Print Assumptions spec_prefix_ctx_subtree.
Print Assumptions run_from_prefix_semantics.
Print Assumptions message_prefix_semantics.
Print Assumptions failed_prefix_tail_irrelevant.
Print Assumptions bad_unit_aborts.
Print Assumptions prefix_trace_preserved.
Print Assumptions failed_prefix_trace_exact.

(* non-vacuity examples: NonVacuous/C05_prefix.v *)
