(* MnemonicSpec.v — declarative matching rule of SCPI-99 vol.1 §6.2.1/§6.2.5.2,
   independent of the algorithm (C03). *)
From VF Require Import Base.

(* split off the maximal run of trailing digits: (body, suffix) *)
Fixpoint strip_digits (x : list byte) : list byte * list byte :=
  match x with
  | [] => ([], [])
  | b :: x' =>
    let (body, ds) := strip_digits x' in
    match body with
    | [] => if is_digit b then ([], b :: ds) else ([b], ds)
    | _ => (b :: body, ds)
    end
  end.

(* an absent suffix means 1 *)
Definition norm_suffix (d : list byte) : list byte := match d with [] => [49] | _ => d end.

(* the short form: everything before the first lower-case letter *)
Fixpoint short_of (body : list byte) : list byte :=
  match body with
  | [] => []
  | b :: body' => if is_lower b then [] else b :: short_of body'
  end.

Definition match_spec (def cand : list byte) : bool :=
  let (db, ds) := strip_digits def in
  let (cb, cs) := strip_digits cand in
  bytes_eqb (norm_suffix ds) (norm_suffix cs)
  && (bytes_eq_nocase (short_of db) cb || bytes_eq_nocase db cb).

(* SCPI shape of a defined mnemonic: optional `*`, >= 1 upper-case letters,
   lower-case letters, digits *)
Definition all_b (p : byte -> bool) (l : list byte) : bool := forallb p l.
Definition scpi_shape (def : list byte) : Prop :=
  exists P U L D, def = P ++ U ++ L ++ D
    /\ (P = [] \/ P = [42]) /\ U <> [] /\ all_b is_upper U = true
    /\ all_b is_lower L = true /\ all_b is_digit D = true.

(* keyword shape (no prefix, no suffix): MAXimum, INFinity, ... *)
Definition keyword_shape (U L : list byte) : Prop :=
  U <> [] /\ all_b is_upper U = true /\ all_b is_lower L = true.
