(* Lists.v — model of scpi/src/parser/expression/{numeric_list,channel_list}.rs: the
   NumericList and ChannelList iterators, ChannelSpecIterator and the tuple conversions,
   in the checked style (unwrap / nth / slice arithmetic explicit).  Model file: no proofs. *)
From VF Require Import Base Gen_Errors ErrTable Lexer.
Open Scope N_scope.

Definition ext_of_code (c : Z) : error :=
  mkError InvalidExpression None (Some (match get_error c with Some v => get_message v | None => [] end)).
Definition invalid_character : error := mkError InvalidExpression None (Some [73; 110; 118; 97; 108; 105; 100; 32; 99; 104; 97; 114; 97; 99; 116; 101; 114]).

(* ---------------- numeric list ---------------- *)
Inductive nentry := NNum (s : list byte) | NRange (a b : list byte).
Record nlist := mkNlist { nl_chars : list byte; nl_first : bool }.
(* NumericList::new: Tokenizer::new skips leading white space *)
Definition nlist_new (s : list byte) : nlist := mkNlist (skip_ws s) true.

(* Tokenizer::read_nrf as used here: the literal and the rest *)
Definition read_nrf_tok (c : list byte) : outcome (res (list byte * list byte)) :=
  match read_nrf_rest c with
  | Err e => Val (Err e)
  | Ok rest => let* s := consumed c rest 0 in Val (Ok (s, rest))
  end.

Definition read_numeric_entry (c : list byte) : outcome (res (nentry * list byte)) :=
  let* r := read_nrf_tok c in
  match r with
  | Err e => Val (Err e)
  | Ok (b, rest) =>
    match rest with
    | 58 :: rest' =>
      let* r2 := read_nrf_tok rest' in
      match r2 with
      | Err e => Val (Err e)
      | Ok (e, rest'') => Val (Ok (NRange b e, rest''))
      end
    | _ => Val (Ok (NNum b, rest))
    end
  end.

Inductive lstep (E : Type) := LEnd | LItem (e : E) (l : list byte) (first : bool) | LErr (e : error).
Arguments LEnd {E}. Arguments LItem {E}. Arguments LErr {E}.

Definition nlist_next (l : nlist) : outcome (lstep nentry) :=
  match nl_chars l with
  | [] => Val LEnd
  | x :: rest =>
    let entry (c : list byte) :=
      let* r := read_numeric_entry c in
      Val (match r with
           | Ok (e, c') => LItem e c' false
           | Err code => LErr (ext_of_code code)
           end) in
    if (x =? 44) && negb (nl_first l) then entry rest
    else if (is_digit x || (x =? 45) || (x =? 43) || (x =? 46)) && nl_first l then entry (nl_chars l)
    else Val (LErr invalid_character)
  end.

Inductive litem (E : Type) := IEntry (e : E) | IError (e : error).
Arguments IEntry {E}. Arguments IError {E}.

(* iterate up to and including the first error; fuel = S (length): every entry consumes >= 1 byte *)
Fixpoint nlist_iter (fuel : nat) (l : nlist) : outcome (list (litem nentry)) :=
  match fuel with
  | O => Panic "out of fuel"
  | S f =>
    let* s := nlist_next l in
    match s with
    | LEnd => Val []
    | LErr e => Val [IError e]
    | LItem e c first => let* r := nlist_iter f (mkNlist c first) in Val (IEntry e :: r)
    end
  end.
Definition nlist_entries (expr : list byte) : outcome (list (litem nentry)) :=
  nlist_iter (S (length expr)) (nlist_new expr).

(* ---------------- channel spec ---------------- *)
Definition isize_min : Z := (-9223372036854775808)%Z.
Definition isize_max : Z := 9223372036854775807%Z.
(* lexical_core::parse_partial::<isize>: optional sign, digits; (value, length); no digit or overflow = error/zero length *)
Definition parse_partial_isize (c : list byte) : option (Z * nat) :=
  let neg := match c with 45 :: _ => true | _ => false end in
  let body := skip_sign c in
  let ds := firstn (length body - length (skip_while is_digit body)) body in
  match ds with
  | [] => None
  | _ => let v := Z.of_N (fst (radix_digits 10 ds 0 0)) in
         let z := if neg then (- v)%Z else v in
         if ((isize_min <=? z) && (z <=? isize_max))%Z then Some (z, (length c - length body + length ds)%nat) else None
  end.

Inductive sstep := SEndS | SDim (z : Z) (rest : list byte) | SErrS.
(* ChannelSpecIterator::next *)
Definition spec_next (c : list byte) : outcome sstep :=
  match c with
  | [] => Val SEndS
  | x :: rest =>
    let c1 := if x =? 33 then rest else c in
    match parse_partial_isize c1 with
    | None => Val SErrS
    | Some (n, len) =>
      if Nat.eqb len 0 then Val SErrS
      else let* c2 := drop_unwrap len c1 in Val (SDim n c2)
    end
  end.
(* dimensions up to and including the first error (None marks the error) *)
Fixpoint spec_dims (fuel : nat) (c : list byte) : outcome (list (option Z)) :=
  match fuel with
  | O => Panic "out of fuel"
  | S f =>
    let* s := spec_next c in
    match s with
    | SEndS => Val []
    | SErrS => Val [None]
    | SDim z rest => let* r := spec_dims f rest in Val (Some z :: r)
    end
  end.
Definition spec_values (s : list byte) : outcome (list (option Z)) := spec_dims (S (length s)) s.

(* first k dimensions for the tuple conversions: Err ExpressionError when one is missing or bad *)
Definition dims_prefix (k : nat) (ds : list (option Z)) : res (list Z) :=
  (fix go (k : nat) (ds : list (option Z)) (acc : list Z) : res (list Z) :=
     match k with
     | O => Ok (rev acc)
     | S k' => match ds with
               | Some z :: ds' => go k' ds' (z :: acc)
               | _ => Err ExpressionError
               end
     end) k ds [].

Record cspec := mkSpec { sp_text : list byte; sp_dim : nat }.
(* TryFrom<ChannelSpec> for isize / (isize,isize) / (isize,isize,isize): dimension count must match *)
Definition spec_to_tuple (k : nat) (s : cspec) : outcome (res (list Z)) :=
  if Nat.eqb (sp_dim s) k then
    let* ds := spec_values (sp_text s) in Val (dims_prefix k ds)
  else Val (Err (if Nat.eqb k 1 then InvalidExpression else ExpressionError)).
(* usize variants: every element must be non-negative *)
Definition spec_to_utuple (k : nat) (s : cspec) : outcome (res (list Z)) :=
  let* r := spec_to_tuple k s in
  Val (match r with
       | Ok zs => if forallb (fun z => (0 <=? z)%Z) zs then Ok zs else Err IllegalParameterValue
       | Err e => Err e
       end).

(* ---------------- channel list ---------------- *)
Inductive centry := CSpec (s : cspec) | CRange (a b : cspec) | CPath (p : list byte).
Definition is_spec_char (b : byte) : bool := is_digit b || (b =? 45) || (b =? 43) || (b =? 33).
Definition count_bang (s : list byte) : nat := length (filter (fun b => b =? 33) s).

(* read_channel_spec *)
Definition read_channel_spec (c : list byte) : outcome (res (cspec * list byte)) :=
  let rest := skip_while is_spec_char c in
  let* s := consumed c rest 0 in
  match s with
  | [] => Val (Err InvalidExpression)
  | _ => Val (Ok (mkSpec s (S (count_bang s)), rest))
  end.
Definition read_channel_range (c : list byte) : outcome (res (centry * list byte)) :=
  let* r := read_channel_spec c in
  match r with
  | Err e => Val (Err e)
  | Ok (b, rest) =>
    match rest with
    | 58 :: rest' =>
      let* r2 := read_channel_spec rest' in
      match r2 with
      | Err e => Val (Err e)
      | Ok (e, rest'') => if Nat.eqb (sp_dim b) (sp_dim e) then Val (Ok (CRange b e, rest''))
                          else Val (Err InvalidExpression)
      end
    | _ => Val (Ok (CSpec b, rest))
    end
  end.
(* read_channel_path: Tokenizer::read_string_data on the rest (incl. its trailing separator check),
   then the list cursor is forwarded over the quotes and the payload *)
Definition read_channel_path (c : list byte) : outcome (res (centry * list byte)) :=
  let* r := read_string_data (skip_ws c) in
  match r with
  | Err e => Val (Err e)
  | Ok (TString p, _) => Val (Ok (CPath p, skipn (length p + 2) c))
  | Ok _ => Val (Err InvalidExpression)
  end.

Record clist := mkClist { cl_chars : list byte; cl_first : bool }.
(* ChannelList::new: the expression must start with `@` *)
Definition clist_new (expr : list byte) : option clist :=
  match expr with 64 :: c => Some (mkClist c true) | _ => None end.

Definition clist_next (l : clist) : outcome (lstep centry) :=
  match cl_chars l with
  | [] => Val LEnd
  | x0 :: rest0 =>
    let go (c : list byte) : outcome (lstep centry) :=
      match c with
      | [] => Val LEnd
      | x :: _ =>
        let fin (r : outcome (res (centry * list byte))) :=
          let* v := r in
          Val (match v with Ok (e, c') => LItem e c' false | Err code => LErr (std_error code) end) in
        if is_digit x || (x =? 43) || (x =? 45) then fin (read_channel_range c)
        else if (x =? 34) || (x =? 39) then fin (read_channel_path c)
        else Val (LErr (std_error InvalidExpression))
      end in
    if x0 =? 44 then (if cl_first l then Val (LErr (std_error InvalidExpression)) else go rest0)
    else go (cl_chars l)
  end.
Fixpoint clist_iter (fuel : nat) (l : clist) : outcome (list (litem centry)) :=
  match fuel with
  | O => Panic "out of fuel"
  | S f =>
    let* s := clist_next l in
    match s with
    | LEnd => Val []
    | LErr e => Val [IError e]
    | LItem e c first => let* r := clist_iter f (mkClist c first) in Val (IEntry e :: r)
    end
  end.
Definition clist_entries (expr : list byte) : option (outcome (list (litem centry))) :=
  match clist_new expr with
  | Some l => Some (clist_iter (S (length expr)) l)
  | None => None
  end.
