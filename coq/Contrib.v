(* Contrib.v — the mandated command tree of scpi-contrib (ieee488 common commands, STATus and SYSTem
   subsystems) as a `tree` of Tree.v whose handlers are interaction trees over the device state of
   Status.v: the FULL stack bytes -> lexer -> dispatcher -> handler -> response for the device-level
   properties C13, C15, C16.  The tree shape is compared with the live `Node` value on every run
   (harness kind `devtree`).  Model file: no proofs. *)
From VF Require Import Base Gen_Errors ErrTable Lexer Response Conv Tree Queue Status.
Open Scope N_scope.

(* device state as the handlers see it: the device and Context.mav *)
Definition cdev := (dev * bool)%type.
Definition cd (s : cdev) : dev := fst s.
Definition with_dev (s : cdev) (d : dev) : cdev := (d, snd s).

Definition b_ (s : string) : list byte :=
  (fix go (s : string) := match s with EmptyString => [] | String a r => Ascii.N_of_ascii a :: go r end) s.

(* Command::event / Command::query default methods: Err(UndefinedHeader) *)
Definition undefined (s : cdev) : hprog cdev := Done s (RetErr (std_error UndefinedHeader)).
(* params.next_data::<T>()? for an integer type, then continue *)
Definition pull_int (t : ity) (s : cdev) (k : Z -> hprog cdev) : hprog cdev :=
  Pull true (fun r =>
    match r with
    | Got tok => match conv_int t tok with
                 | Val (Ok v) => k v
                 | Val (Err e) => Done s (RetErr (std_error e))
                 | Panic _ => Done s (RetErr (mkError DeviceSpecificError None (Some (b_ "Internal parser error"))))
                 end
    | Failed e => Done s (RetErr e)
    | Absent => Done s (RetErr (std_error MissingParameter))
    end).
(* response.data(x).finish() *)
Definition answer (s : cdev) (x : rdata) : hprog cdev := Emit x (Done s RetFinish).

Definition cmd (id : N) (e q : cdev -> hprog cdev) : command cdev := mkCommand id e q.

Definition cls_cmd := cmd 1 (fun s => Done (with_dev s (scpi_cls (cd s))) RetOk) undefined.
Definition ese_cmd := cmd 2 (fun s => pull_int U8 s (fun v => Done (with_dev s (set_ese (cd s) (Z.to_N v))) RetOk))
                            (fun s => answer s (Response.RInt (Z.of_N (ese (cd s))))).
Definition esr_cmd := cmd 3 undefined (fun s => answer (with_dev s (set_esr (cd s) 0)) (Response.RInt (Z.of_N (esr (cd s))))).
Definition idn_cmd := cmd 4 undefined
  (fun s => Emit (RChar (b_ "Example Inc")) (Emit (RChar (b_ "T800-101")) (Emit (RChar (b_ "0")) (Emit (RChar (b_ "0")) (Done s RetFinish))))).
Definition opc_cmd := cmd 5 (fun s => Done (with_dev s (scpi_opc (cd s))) RetOk) (fun s => answer s (RBool true)).
Definition rst_cmd := cmd 6 (fun s => Done s RetOk) undefined.
Definition sre_cmd := cmd 7 (fun s => pull_int U8 s (fun v => Done (with_dev s (set_sre (cd s) (Z.to_N v))) RetOk))
                            (fun s => answer s (Response.RInt (Z.of_N (sre (cd s))))).
Definition stb_cmd := cmd 8 undefined (fun s => answer s (Response.RInt (Z.of_N (stb_answer (cd s) (snd s))))).
Definition tst_cmd := cmd 9 undefined
  (fun s => answer s (Response.RInt (match tst_result (cd s) with None => 0%Z | Some c => c end))).
Definition wai_cmd := cmd 10 (fun s => Done s RetOk) undefined.

(* STATus:<register>... *)
Definition reg_query (r : regname) (o : rop) (id : N) : command cdev :=
  cmd id undefined
      (fun s => let '(x, out) := reg_step (get_reg (cd s) r) o in
                answer (with_dev s (put_reg (cd s) r x)) (Response.RInt (Z.of_N (match out with Some n => n | None => 0 end)))).
Definition reg_both (r : regname) (wr : N -> rop) (rd : rop) (id : N) : command cdev :=
  cmd id (fun s => pull_int U16 s (fun v => Done (with_dev s (put_reg (cd s) r (fst (reg_step (get_reg (cd s) r) (wr (Z.to_N v)))))) RetOk))
         (fun s => answer s (Response.RInt (Z.of_N (match snd (reg_step (get_reg (cd s) r) rd) with Some n => n | None => 0 end)))).
Definition register_branch (name : list byte) (r : regname) (base : N) : tree cdev :=
  Branch name false [
    Leaf (b_ "EVENt") true (reg_query r RRdEvent (base + 1));
    Leaf (b_ "CONDition") false (reg_query r RRdCondition (base + 2));
    Leaf (b_ "ENABle") false (reg_both r RWrEnable RRdEnable (base + 3));
    Leaf (b_ "NTRansition") false (reg_both r RWrNtr RRdNtr (base + 4));
    Leaf (b_ "PTRansition") false (reg_both r RWrPtr RRdPtr (base + 5)) ].
Definition preset_cmd := cmd 30 (fun s => Done (with_dev s (scpi_preset (cd s))) RetOk) undefined.

(* SYSTem:ERRor... *)
Definition err_next_cmd := cmd 31 undefined
  (fun s => match queue (cd s) with
            | [] => answer s (RErrItem (std_error NoError))
            | e :: q => answer (with_dev s (set_queue (cd s) q)) (RErrItem e)
            end).
Definition err_all_cmd := cmd 32 undefined
  (fun s => match queue (cd s) with
            | [] => answer s (RErrItem (std_error NoError))
            | q => (fix emit (l : list error) : hprog cdev :=
                      match l with
                      | [] => Done (with_dev s (set_queue (cd s) [])) RetFinish
                      | e :: l' => Emit (RErrItem e) (emit l')
                      end) q
            end).
Definition err_count_cmd := cmd 33 undefined (fun s => answer s (Response.RInt (Z.of_nat (length (queue (cd s)))))).
Definition version_cmd := cmd 34 undefined (fun s => answer s (RText (b_ "1999.0"))).

(* the harness' own `*ERR <code>[,<string>]`: a handler-raised error of any class *)
Definition err_cmd := cmd 40
  (fun s => pull_int I16 s (fun code =>
     Pull false (fun r =>
       let base := match get_error code with
                   | Some _ => std_error code
                   | None => mkError code (Some (b_ "Custom error")) None
                   end in
       match r with
       | Absent => Done s (RetErr base)
       | Got tok => match conv_bytes BBytes tok with
                    | Val (Ok x) => Done s (RetErr (mkError (ecode base) (ecustom base) (Some x)))
                    | Val (Err e) => Done s (RetErr (std_error e))
                    | Panic _ => Done s (RetErr (std_error DeviceSpecificError))
                    end
       | Failed e => Done s (RetErr e)
       end)))
  undefined.

Definition contrib_tree : tree cdev :=
  Branch [] false [
    Leaf (b_ "*CLS") false cls_cmd; Leaf (b_ "*ESE") false ese_cmd; Leaf (b_ "*ESR") false esr_cmd; Leaf (b_ "*IDN") false idn_cmd;
    Leaf (b_ "*OPC") false opc_cmd; Leaf (b_ "*RST") false rst_cmd; Leaf (b_ "*SRE") false sre_cmd; Leaf (b_ "*STB") false stb_cmd;
    Leaf (b_ "*TST") false tst_cmd; Leaf (b_ "*WAI") false wai_cmd;
    Branch (b_ "STATus") false [ register_branch (b_ "OPERation") Oper 10; register_branch (b_ "QUEStionable") Ques 20;
                                 Leaf (b_ "PRESet") false preset_cmd ];
    Branch (b_ "SYSTem") false [ Branch (b_ "ERRor") false [ Leaf (b_ "NEXT") true err_next_cmd; Leaf (b_ "ALL") false err_all_cmd;
                                                             Leaf (b_ "COUNt") false err_count_cmd ];
                                 Leaf (b_ "VERSion") false version_cmd ];
    Leaf (b_ "*ERR") false err_cmd ].

(* one message on the device: Node::run, then Device::handle_error = push_error for the returned error *)
Definition dev_message (d : dev) (mav : bool) (msg : list byte) : outcome (dev * list byte * option error) :=
  let* r := run contrib_tree msg (d, mav) (mkFmt None []) in
  let d' := cd (r_dev r) in
  Val (match r_err r with
       | Some e => (push_error d' e, r_out r, Some e)
       | None => (d', r_out r, None)
       end).
