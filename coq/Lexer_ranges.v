(* Lexer_ranges.v — for ANY input (well-formed or hostile) every token the lexer of
   Lexer.v hands out denotes an exact, contiguous byte range of the input; the ranges
   of successive tokens appear in input order and never overlap; what lies between
   them was consumed by the lexer (never handed out twice).

   Contents
     0. list helpers
     1. the utility scanners split their input            (…_split, …_pre)
     2. one lemma per reader: the exact shape of what it consumed   (read_…_shape)
     3. one step of the iterator: [lex_next_shape], and from it
          range_mnemonic range_char range_dec range_decsuffix range_nondec range_string
          range_block range_expr range_separator,   lex_next_range, lex_next_range_suffix
     4. whole input: tokenize_ranges, tokenize_params_ranges, and the two corollaries
     5. non-vacuity examples (vm_compute)                                              *)
From VF Require Import Base Gen_Errors Lexer Lexer_proofs.
From Coq Require Import Lia ZifyBool ZifyN ZifyNat.
Open Scope N_scope.

(* ------------------------------------------------------------------ *)
(* Specification-level definitions *)

(* the bytes of the input a token carries as payload; None for tokens without payload
   (separators) and for non-decimal numerics, which carry a value instead of bytes *)
Definition payload (t : token) : option (list byte) :=
  match t with
  | TMnemonic s | TChar s | TDec s | TString s | TBlock s | TExpr s => Some s
  | TDecSuffix v s => Some v      (* the suffix part: lex_next_range_suffix, range_decsuffix *)
  | _ => None
  end.

(* [ranges input ps]: the byte lists ps occur in [input] in this order without overlapping *)
Inductive ranges : list byte -> list (list byte) -> Prop :=
| ranges_nil : forall rest, ranges rest []
| ranges_cons : forall pre p rest ps, ranges rest ps -> ranges (pre ++ p ++ rest) (p :: ps).

Definition payloads (items : list titem) : list (list byte) :=
  flat_map (fun i => match i with
                     | IOk (TDecSuffix v s) => [v; s]
                     | IOk t => match payload t with Some p => [p] | None => [] end
                     | IErr _ => [] end) items.

(* vocabulary of the per-kind lemmas *)
Definition all_ws (w : list byte) : Prop := forallb is_ws w = true.

(* the lexer stopped at a separator or at the end of the input *)
Definition at_sep (r : list byte) : Prop :=
  match r with [] => True | x :: _ => x = 44 \/ x = 59 \/ x = 10 end.

(* [r] does not begin with a byte of class [p] (maximal munch) *)
Definition not_starting (p : byte -> bool) (r : list byte) : Prop := hd false (map p r) = false.

(* the bytes of a program mnemonic: at most 12 mnemonic characters, or '*' and at most 12 *)
Definition mnemonic_bytes (s : list byte) : Prop :=
  (forallb is_mnemonic_char s = true /\ (length s <= 12)%nat) \/
  (exists m, s = 42 :: m /\ forallb is_mnemonic_char m = true /\ (length m <= 12)%nat).

(* the bytes a decimal numeric can be made of *)
Definition is_num_char (b : byte) : bool :=
  is_digit b || is_sign b || (b =? 46) || (b =? 69) || (b =? 101).

(* a suffix begins with a letter or '/' *)
Definition suffix_start (s : list byte) : Prop :=
  match s with x :: _ => is_alpha x || (x =? 47) = true | [] => False end.

(* inside a string every quote character is doubled *)
Fixpoint quotes_paired (q : byte) (s : list byte) : bool :=
  match s with
  | [] => true
  | x :: s' =>
    if x =? q then match s' with y :: s'' => (y =? q) && quotes_paired q s'' | [] => false end
    else quotes_paired q s'
  end.

(* a byte allowed inside an expression *)
Definition expr_char (b : byte) : bool := negb (b =? 41) && negb (expr_illegal b).

(* ------------------------------------------------------------------ *)
(* 0. list helpers *)

Ltac list_eq := repeat (progress (rewrite <- ?app_assoc; rewrite ?app_nil_r; cbn [app])); reflexivity.

Lemma forallb_impl (P Q : byte -> bool) (u : list byte) :
  (forall x, P x = true -> Q x = true) -> forallb P u = true -> forallb Q u = true.
Proof.
  intros HPQ HP. apply forallb_forall. intros x Hx.
  apply HPQ. apply (proj1 (forallb_forall P u) HP x Hx).
Qed.

Lemma app_shorter_nonnil (u c c' : list byte) :
  c = u ++ c' -> (length c' < length c)%nat -> u <> [].
Proof.
  intros Hc Hl Hu. subst u. cbn [app] in Hc. subst c. lia.
Qed.

(* [pre_all P c r]: [r] is [c] after dropping a prefix made of bytes of class [P] *)
Definition pre_all (P : byte -> bool) (c r : list byte) : Prop :=
  exists u, c = u ++ r /\ forallb P u = true.

Lemma pre_all_refl P c : pre_all P c c.
Proof. exists []. split; reflexivity. Qed.

Lemma pre_all_trans P a b c : pre_all P a b -> pre_all P b c -> pre_all P a c.
Proof.
  intros [u [H1 H2]] [v [H3 H4]]. exists (u ++ v). split.
  - subst a b. list_eq.
  - rewrite forallb_app, H2, H4. reflexivity.
Qed.

Lemma pre_all_cons (P : byte -> bool) x c : P x = true -> pre_all P (x :: c) c.
Proof. intros H. exists [x]. split; [reflexivity|]. cbn [forallb]. rewrite H. reflexivity. Qed.

Lemma pre_all_impl (P Q : byte -> bool) a b :
  (forall x, P x = true -> Q x = true) -> pre_all P a b -> pre_all Q a b.
Proof.
  intros HPQ [u [H1 H2]]. exists u. split; [exact H1|]. exact (forallb_impl P Q u HPQ H2).
Qed.

(* ------------------------------------------------------------------ *)
(* 1. the utility scanners *)

Lemma skip_while_split p c :
  exists u, c = u ++ skip_while p c /\ forallb p u = true /\ not_starting p (skip_while p c).
Proof.
  unfold not_starting.
  induction c as [|x c IH]; cbn [skip_while].
  - exists []. split; [reflexivity|]. split; reflexivity.
  - destruct (p x) eqn:E.
    + destruct IH as [u [H1 [H2 H3]]]. exists (x :: u). cbn [app forallb]. rewrite E, H2.
      split; [congruence|]. split; [reflexivity|exact H3].
    + exists []. cbn [app forallb map hd]. split; [reflexivity|]. split; [reflexivity|exact E].
Qed.

Lemma skip_ws_split c :
  exists w, c = w ++ skip_ws c /\ all_ws w /\ not_starting is_ws (skip_ws c).
Proof. exact (skip_while_split is_ws c). Qed.

Lemma scan12_split p : forall c n r, (n <= 12)%nat -> scan12 p n c = Some r ->
  exists u, c = u ++ r /\ forallb p u = true /\ (n + length u <= 12)%nat /\ not_starting p r.
Proof.
  unfold not_starting.
  induction c as [|x c IH]; intros n r Hn H; cbn [scan12] in H.
  - inversion H; subst. exists []. cbn [app forallb length map hd].
    split; [reflexivity|]. split; [reflexivity|]. split; [lia|reflexivity].
  - destruct (p x) eqn:E.
    + destruct (Nat.ltb 12 (S n)) eqn:E2; [discriminate|]. apply Nat.ltb_ge in E2.
      destruct (IH (S n) r E2 H) as [u [H1 [H2 [H3 H4]]]].
      exists (x :: u). cbn [app forallb length]. rewrite E, H2.
      split; [congruence|]. split; [reflexivity|]. split; [lia|exact H4].
    + inversion H; subst. exists []. cbn [app forallb length map hd].
      split; [reflexivity|]. split; [reflexivity|]. split; [lia|exact E].
Qed.

Lemma sws_split err c r : skip_ws_to_separator err c = Ok r ->
  exists w, c = w ++ r /\ all_ws w /\ at_sep r /\ not_starting is_ws r.
Proof.
  unfold skip_ws_to_separator. cbv zeta.
  destruct (skip_ws_split c) as [w [H1 [H2 H3]]].
  destruct (skip_ws c) as [|x r0] eqn:E.
  - intros H; injection H as <-. exists w.
    split; [exact H1|]. split; [exact H2|]. split; [exact I|reflexivity].
  - destruct (negb (x =? 44) && negb (x =? 59) && negb (x =? 10)) eqn:B; [discriminate|].
    intros H; injection H as <-. exists w.
    split; [exact H1|]. split; [exact H2|]. split; [cbn [at_sep]; lia|exact H3].
Qed.

(* &s[0 .. s.len() - rest.len() - k] is exactly the part before the last k consumed bytes *)
Lemma consumed_app (a b rest : list byte) : consumed (a ++ b ++ rest) rest (length b) = Val a.
Proof.
  unfold consumed, usub. rewrite !app_length.
  destruct (Nat.ltb (length a + (length b + length rest)) (length rest)) eqn:E1;
    [apply Nat.ltb_lt in E1; lia|].
  cbn [obind].
  destruct (Nat.ltb (length a + (length b + length rest) - length rest) (length b)) eqn:E2;
    [apply Nat.ltb_lt in E2; lia|].
  cbn [obind]. unfold slice_to. rewrite !app_length.
  replace (length a + (length b + length rest) - length rest - length b)%nat with (length a) by lia.
  destruct (Nat.ltb (length a + (length b + length rest)) (length a)) eqn:E3;
    [apply Nat.ltb_lt in E3; lia|].
  rewrite firstn_len_app. reflexivity.
Qed.

Lemma consumed_app0 (a rest : list byte) : consumed (a ++ rest) rest 0 = Val a.
Proof. exact (consumed_app a [] rest). Qed.

(* ------------------------------------------------------------------ *)
(* 2. readers *)

Lemma read_mnemonic_shape common c t rest : read_mnemonic common c = Val (Ok (t, rest)) ->
  exists s, t = TMnemonic s /\ c = s ++ rest /\ mnemonic_bytes s /\ not_starting is_mnemonic_char rest.
Proof.
  unfold read_mnemonic. cbv zeta.
  destruct c as [|x c'].
  - intros H. cbv in H. inversion H; subst. exists [].
    split; [reflexivity|]. split; [reflexivity|]. split; [|reflexivity].
    left. split; [reflexivity|cbn [length]; lia].
  - destruct ((x =? 42) && common) eqn:E.
    + destruct (scan12 is_mnemonic_char 0 c') as [r|] eqn:S; [|discriminate].
      destruct (scan12_split _ _ _ _ (Nat.le_0_l 12) S) as [u [H1 [H2 [H3 H4]]]]. subst c'.
      change (x :: u ++ r) with ((x :: u) ++ r). rewrite consumed_app0. cbn [obind].
      intros H; inversion H; subst. exists (x :: u).
      split; [reflexivity|]. split; [reflexivity|]. split; [|exact H4].
      right. exists u. apply andb_prop in E. destruct E as [E _]. apply N.eqb_eq in E. subst x.
      split; [reflexivity|]. split; [exact H2|lia].
    + destruct (scan12 is_mnemonic_char 0 (x :: c')) as [r|] eqn:S; [|discriminate].
      destruct (scan12_split _ _ _ _ (Nat.le_0_l 12) S) as [u [H1 [H2 [H3 H4]]]]. rewrite H1.
      rewrite consumed_app0. cbn [obind].
      intros H; inversion H; subst. exists u.
      split; [reflexivity|]. split; [reflexivity|]. split; [|exact H4].
      left. split; [exact H2|lia].
Qed.

Lemma read_character_data_shape c t rest : read_character_data c = Val (Ok (t, rest)) ->
  exists s w, t = TChar s /\ c = s ++ w ++ rest /\ all_ws w /\
    forallb is_mnemonic_char s = true /\ (length s <= 12)%nat /\
    not_starting is_mnemonic_char (w ++ rest) /\ at_sep rest.
Proof.
  unfold read_character_data.
  destruct (scan12 is_mnemonic_char 0 c) as [r|] eqn:S; [|discriminate].
  destruct (scan12_split _ _ _ _ (Nat.le_0_l 12) S) as [u [H1 [H2 [H3 H4]]]]. rewrite H1.
  rewrite consumed_app0. cbn [obind].
  destruct (skip_ws_to_separator InvalidCharacterData r) as [r'|e] eqn:W; [|discriminate].
  apply sws_split in W. destruct W as [w [W1 [W2 [W3 _]]]].
  intros H; inversion H; subst. exists u, w.
  split; [reflexivity|]. split; [reflexivity|]. split; [exact W2|]. split; [exact H2|].
  split; [lia|]. split; [exact H4|exact W3].
Qed.

(* decimal numerics *)
Lemma skip_sign_pre c : pre_all is_num_char c (skip_sign c).
Proof.
  destruct c as [|x c]; cbn [skip_sign]; [apply pre_all_refl|].
  destruct (is_sign x) eqn:E; [|apply pre_all_refl].
  apply pre_all_cons. unfold is_num_char. rewrite E. rewrite orb_true_r. reflexivity.
Qed.

Lemma is_digit_num_char x : is_digit x = true -> is_num_char x = true.
Proof. intros H. unfold is_num_char. rewrite H. reflexivity. Qed.

Lemma skip_digits_pre c : pre_all is_num_char c (snd (skip_digits c)).
Proof.
  unfold skip_digits. cbn [snd].
  destruct (skip_while_split is_digit c) as [u [H1 [H2 _]]].
  exists u. split; [exact H1|]. exact (forallb_impl _ _ u is_digit_num_char H2).
Qed.

Lemma read_exponent_pre c r : read_exponent c = Ok r -> pre_all is_num_char c r.
Proof.
  destruct c as [|x c]; cbn [read_exponent].
  - intros H; injection H as <-. apply pre_all_refl.
  - destruct ((x =? 69) || (x =? 101)) eqn:E.
    + pose proof (skip_digits_pre (skip_sign c)) as Hd.
      destruct (skip_digits (skip_sign c)) as [d c''] eqn:Esd. cbn [snd] in Hd.
      destruct d; [|discriminate].
      intros H; injection H as <-.
      apply pre_all_trans with (b := c).
      * apply pre_all_cons. unfold is_num_char. unfold is_digit, is_sign. lia.
      * apply pre_all_trans with (b := skip_sign c); [apply skip_sign_pre|exact Hd].
    + intros H; injection H as <-. apply pre_all_refl.
Qed.

Lemma hd_eqb_cons k c : hd_eqb k c = true -> c = k :: tl c.
Proof.
  destruct c as [|y c]; cbn [hd_eqb tl]; [discriminate|].
  intros H. apply N.eqb_eq in H. subst y. reflexivity.
Qed.

Lemma read_nrf_rest_pre c r : read_nrf_rest c = Ok r -> pre_all is_num_char c r.
Proof.
  rewrite read_nrf_rest_eq. cbv zeta.
  pose proof (skip_sign_pre c) as Hs.
  pose proof (skip_digits_pre (skip_sign c)) as Hd.
  set (c2 := snd (skip_digits (skip_sign c))) in *.
  assert (H2 : pre_all is_num_char c c2) by (eapply pre_all_trans; [exact Hs|exact Hd]).
  destruct (hd_eqb 46 c2) eqn:E46.
  - apply hd_eqb_cons in E46.
    destruct (negb (fst (skip_digits (tl c2))) && negb (fst (skip_digits (skip_sign c))));
      [discriminate|].
    intros H. apply read_exponent_pre in H.
    eapply pre_all_trans; [exact H2|].
    eapply pre_all_trans; [|exact H].
    eapply pre_all_trans; [|apply skip_digits_pre].
    rewrite E46 at 1. apply pre_all_cons. reflexivity.
  - destruct (negb (fst (skip_digits (skip_sign c)))); [discriminate|].
    intros H. apply read_exponent_pre in H.
    eapply pre_all_trans; [exact H2|exact H].
Qed.

Lemma read_suffix_data_shape v c t rest : read_suffix_data v c = Val (Ok (t, rest)) ->
  exists s w, t = TDecSuffix v s /\ c = s ++ w ++ rest /\ all_ws w /\
    forallb is_suffix_char s = true /\ (length s <= 12)%nat /\
    not_starting is_suffix_char (w ++ rest) /\ at_sep rest.
Proof.
  unfold read_suffix_data.
  destruct (scan12 is_suffix_char 0 c) as [r|] eqn:S; [|discriminate].
  destruct (scan12_split _ _ _ _ (Nat.le_0_l 12) S) as [u [H1 [H2 [H3 H4]]]]. rewrite H1.
  rewrite consumed_app0. cbn [obind].
  destruct (skip_ws_to_separator InvalidSuffix r) as [r'|e] eqn:W; [|discriminate].
  apply sws_split in W. destruct W as [w [W1 [W2 [W3 _]]]].
  intros H; inversion H; subst. exists u, w.
  split; [reflexivity|]. split; [reflexivity|]. split; [exact W2|]. split; [exact H2|].
  split; [lia|]. split; [exact H4|exact W3].
Qed.

Lemma all_ws_app w1 w2 : all_ws w1 -> all_ws w2 -> all_ws (w1 ++ w2).
Proof. unfold all_ws. intros H1 H2. rewrite forallb_app, H1, H2. reflexivity. Qed.

Lemma read_numeric_data_shape c t rest : read_numeric_data c = Val (Ok (t, rest)) ->
  (exists s w, t = TDec s /\ c = s ++ w ++ rest /\ all_ws w /\ s <> [] /\
     forallb is_num_char s = true /\ at_sep rest) \/
  (exists v w1 s w2, t = TDecSuffix v s /\ c = v ++ w1 ++ s ++ w2 ++ rest /\
     all_ws w1 /\ all_ws w2 /\ v <> [] /\ forallb is_num_char v = true /\
     suffix_start s /\ forallb is_suffix_char s = true /\ (length s <= 12)%nat /\
     not_starting is_suffix_char (w2 ++ rest) /\ at_sep rest).
Proof.
  unfold read_numeric_data.
  pose proof (read_nrf_rest_len c) as Hlen.
  destruct (read_nrf_rest c) as [r|e] eqn:R; [|discriminate].
  apply read_nrf_rest_pre in R. destruct R as [u [R1 R2]].
  assert (Hu : u <> []) by (apply (app_shorter_nonnil u c r R1); exact Hlen).
  rewrite R1 at 1. rewrite consumed_app0. cbn [obind]. cbv zeta.
  destruct (skip_ws_split r) as [w [W1 [W2 _]]].
  destruct (skip_ws r) as [|x r'] eqn:E.
  - intros H; inversion H; subst t rest. left. exists u, w.
    split; [reflexivity|]. split; [rewrite R1, W1; reflexivity|]. split; [exact W2|].
    split; [exact Hu|]. split; [exact R2|exact I].
  - destruct (is_alpha x || (x =? 47)) eqn:Ex.
    + intros H. apply read_suffix_data_shape in H.
      destruct H as [s [w2 [Ht [Hc [Hw2 [Hs [Hl [Hns Hsep]]]]]]]].
      right. exists u, w, s, w2.
      split; [exact Ht|]. split; [rewrite R1, W1, Hc; reflexivity|].
      split; [exact W2|]. split; [exact Hw2|]. split; [exact Hu|]. split; [exact R2|].
      split; [|split; [exact Hs|split; [exact Hl|split; [exact Hns|exact Hsep]]]].
      destruct s as [|y s'].
      * (* an empty suffix would leave x at the head of what follows: not maximal *)
        cbn [app] in Hc. unfold not_starting in Hns. rewrite <- Hc in Hns. cbn [map hd] in Hns.
        exfalso. unfold is_suffix_char, is_alnum in Hns.
        destruct (is_alpha x); [discriminate|]. cbn [orb] in Ex.
        apply N.eqb_eq in Ex. subst x. cbv in Hns. discriminate.
      * cbn [app] in Hc. injection Hc as Hy _. subst y. exact Ex.
    + destruct (skip_ws_to_separator InvalidSuffix (x :: r')) as [r2|e] eqn:W; [|discriminate].
      apply sws_split in W. destruct W as [w2 [V1 [V2 [V3 _]]]].
      intros H; inversion H; subst t rest. left. exists u, (w ++ w2).
      split; [reflexivity|]. split; [rewrite R1, W1, V1; list_eq|].
      split; [apply all_ws_app; assumption|]. split; [exact Hu|]. split; [exact R2|exact V3].
Qed.

(* non-decimal numerics: no payload, but the consumed bytes are still a prefix *)
Lemma read_nondecimal_data_shape radix c t rest :
  read_nondecimal_data radix c = Val (Ok (t, rest)) ->
  exists n ds w, t = TNonDec n /\ c = ds ++ w ++ rest /\ ds <> [] /\ all_ws w /\ at_sep rest.
Proof.
  unfold read_nondecimal_data. cbv zeta.
  assert (G : forall b,
    match parse_partial_u64 b c with
    | inl LexInvalidDigit => Val (Err InvalidCharacterInNumber)
    | inl LexOverflow => Val (Err DataOutOfRange)
    | inl LexOther => Val (Err NumericDataError)
    | inr (v, len) =>
        if Nat.ltb 0 len
        then
         let* rest := drop_unwrap len c
         in match skip_ws_to_separator SuffixNotAllowed rest with
            | Ok rest' => Val (Ok (TNonDec v, rest'))
            | Err e => Val (Err e)
            end
        else Val (Err NumericDataError)
    end = Val (Ok (t, rest)) ->
    exists n ds w, t = TNonDec n /\ c = ds ++ w ++ rest /\ ds <> [] /\ all_ws w /\ at_sep rest).
  { intros b. destruct (parse_partial_u64 b c) as [[| |]|[v n]] eqn:P; try discriminate.
    apply parse_partial_u64_len in P.
    destruct (Nat.ltb 0 n) eqn:E0; [|discriminate]. apply Nat.ltb_lt in E0.
    rewrite (drop_unwrap_ok n c P). cbn [obind].
    destruct (skip_ws_to_separator SuffixNotAllowed (skipn n c)) as [r'|e] eqn:W; [|discriminate].
    apply sws_split in W. destruct W as [w [W1 [W2 [W3 _]]]].
    intros H; inversion H; subst t rest. exists v, (firstn n c), w.
    split; [reflexivity|]. split; [rewrite <- W1; symmetry; apply firstn_skipn|].
    split; [|split; [exact W2|exact W3]].
    intros Hnil. apply (f_equal (@length byte)) in Hnil.
    rewrite firstn_length_le in Hnil by exact P. cbn [length] in Hnil. lia. }
  destruct ((radix =? 72) || (radix =? 104)); [apply G|].
  destruct ((radix =? 81) || (radix =? 113)); [apply G|].
  destruct ((radix =? 66) || (radix =? 98)); [apply G|].
  discriminate.
Qed.

(* strings *)
Lemma string_loop_split q : forall n c r, (length c <= n)%nat -> string_loop q c = Ok r ->
  exists body, c = body ++ q :: r /\
    forallb (fun b => (b =? q) || is_ascii b) body = true /\
    quotes_paired q body = true /\ hd_eqb q r = false.
Proof.
  induction n as [|n IH]; intros c r Hn.
  - destruct c; [cbn [string_loop]; discriminate|cbn [length] in Hn; lia].
  - destruct c as [|ch c']; cbn [string_loop]; [discriminate|].
    cbn [length] in Hn.
    destruct (ch =? q) eqn:Eq.
    + apply N.eqb_eq in Eq. subst ch.
      destruct c' as [|c2 c''].
      * intros H; injection H as <-. exists [].
        split; [reflexivity|]. split; [reflexivity|]. split; reflexivity.
      * destruct (c2 =? q) eqn:E2.
        -- apply N.eqb_eq in E2. subst c2. cbn [length] in Hn.
           intros H. destruct (IH c'' r ltac:(lia) H) as [body [B1 [B2 [B3 B4]]]].
           exists (q :: q :: body). cbn [app forallb quotes_paired].
           rewrite N.eqb_refl, B2, B3. cbn [orb andb].
           split; [rewrite B1; reflexivity|]. split; [reflexivity|]. split; [reflexivity|exact B4].
        -- intros H; injection H as <-. exists [].
           split; [reflexivity|]. split; [reflexivity|]. split; [reflexivity|].
           cbn [hd_eqb]. exact E2.
    + destruct (negb (is_ascii ch)) eqn:Ea; [discriminate|].
      intros H. destruct (IH c' r ltac:(lia) H) as [body [B1 [B2 [B3 B4]]]].
      exists (ch :: body). cbn [app forallb quotes_paired].
      rewrite Eq, B2, B3. apply negb_false_iff in Ea. rewrite Ea. cbn [orb andb].
      split; [rewrite B1; reflexivity|]. split; [reflexivity|]. split; [reflexivity|exact B4].
Qed.

Lemma read_string_data_shape c t rest : read_string_data c = Val (Ok (t, rest)) ->
  exists q s w, t = TString s /\ c = q :: s ++ q :: w ++ rest /\ all_ws w /\
    forallb (fun b => (b =? q) || is_ascii b) s = true /\ quotes_paired q s = true /\
    hd_eqb q (w ++ rest) = false /\ at_sep rest.
Proof.
  unfold read_string_data.
  destruct c as [|q s0]; [discriminate|].
  destruct (string_loop q s0) as [r|e] eqn:L; [|discriminate].
  apply (string_loop_split q (length s0) s0 r (le_n _)) in L.
  destruct L as [body [B1 [B2 [B3 B4]]]].
  pose proof (consumed_app body [q] r) as C. cbn [length app] in C.
  rewrite B1 at 1. rewrite C. cbn [obind].
  destruct (skip_ws_to_separator SuffixNotAllowed r) as [r'|e] eqn:W; [|discriminate].
  apply sws_split in W. destruct W as [w [W1 [W2 [W3 _]]]].
  intros H; inversion H; subst t rest. exists q, body, w.
  split; [reflexivity|]. split; [rewrite B1, W1; reflexivity|]. split; [exact W2|].
  split; [exact B2|]. split; [exact B3|]. split; [rewrite <- W1; exact B4|exact W3].
Qed.

(* arbitrary block data *)
Lemma ascii_to_digit_dec d : is_digit d = true -> ascii_to_digit d 10 = Some (d - 48).
Proof.
  intros H. unfold ascii_to_digit. rewrite H.
  replace (d - 48 <? 10) with true by (symmetry; unfold is_digit in H; lia).
  reflexivity.
Qed.

Lemma read_arbitrary_data_shape d c t rest : is_digit d = true ->
  read_arbitrary_data d c = Val (Ok (t, rest)) ->
  exists s, t = TBlock s /\
    ((d = 48 /\ c = s ++ [10] /\ rest = []) \/
     (d <> 48 /\ exists lenfield w, c = lenfield ++ s ++ w ++ rest /\
        length lenfield = N.to_nat (d - 48) /\
        parse_usize lenfield = Some (N.of_nat (length s)) /\ all_ws w /\ at_sep rest)).
Proof.
  intros Hd. unfold read_arbitrary_data. rewrite (ascii_to_digit_dec d Hd).
  destruct (d - 48) as [|p] eqn:Ed.
  - assert (d = 48) by (unfold is_digit in Hd; lia). subst d.
    destruct c as [|y c']; [discriminate|].
    set (c := y :: c') in *.
    assert (Hc : length c = S (length c')) by reflexivity.
    unfold usub. destruct (Nat.ltb (length c) 1) eqn:E1; [apply Nat.ltb_lt in E1; lia|].
    cbn [obind]. unfold slice_to.
    destruct (Nat.ltb (length c) (length c - 1)) eqn:E2; [apply Nat.ltb_lt in E2; lia|].
    cbn [obind]. rewrite drop_unwrap_ok by lia. cbn [obind].
    pose proof (skipn_length (length c - 1) c) as Hk.
    pose proof (firstn_skipn (length c - 1) c) as Hfs.
    destruct (skipn (length c - 1) c) as [|last rest'] eqn:K; [discriminate|].
    destruct (last =? 10) eqn:E10; [|discriminate]. apply N.eqb_eq in E10. subst last.
    intros H; inversion H; subst t rest. exists (firstn (length c - 1) c).
    split; [reflexivity|]. left.
    assert (rest' = []) by (destruct rest'; [reflexivity|cbn [length] in Hk; lia]). subst rest'.
    split; [reflexivity|]. split; [symmetry; exact Hfs|reflexivity].
  - cbv zeta. rewrite <- Ed. set (l := N.to_nat (d - 48)).
    destruct (Nat.ltb (length c) l) eqn:E1; [discriminate|].
    apply Nat.ltb_ge in E1.
    destruct (parse_usize (firstn l c)) as [plen|] eqn:P; [|discriminate].
    rewrite drop_unwrap_ok by exact E1. cbn [obind].
    destruct (N.of_nat (length (skipn l c)) <? plen) eqn:E3; [discriminate|].
    destruct (skip_ws_to_separator SuffixNotAllowed (skipn (N.to_nat plen) (skipn l c)))
      as [r'|e] eqn:W; [|discriminate].
    apply sws_split in W. destruct W as [w [W1 [W2 [W3 _]]]].
    intros H; inversion H; subst t rest. exists (firstn (N.to_nat plen) (skipn l c)).
    split; [reflexivity|]. right.
    split; [unfold is_digit in Hd; lia|].
    exists (firstn l c), w.
    assert (Hbl : length (firstn (N.to_nat plen) (skipn l c)) = N.to_nat plen)
      by (apply firstn_length_le; lia).
    split; [|split; [apply firstn_length_le; exact E1|split; [|split; [exact W2|exact W3]]]].
    + rewrite <- W1. rewrite (firstn_skipn (N.to_nat plen) (skipn l c)).
      symmetry. apply firstn_skipn.
    + rewrite Hbl. rewrite N2Nat.id. exact P.
Qed.

(* expressions *)
Lemma expr_loop_split : forall c r, expr_loop c = Ok r ->
  exists body, c = body ++ r /\ forallb expr_char body = true /\
    (r = [] \/ exists r', r = 41 :: r').
Proof.
  induction c as [|x c IH]; intros r; cbn [expr_loop].
  - intros H; injection H as <-. exists []. split; [reflexivity|]. split; [reflexivity|left; reflexivity].
  - destruct (x =? 41) eqn:E41.
    + apply N.eqb_eq in E41. subst x. intros H; injection H as <-. exists [].
      split; [reflexivity|]. split; [reflexivity|]. right. exists c. reflexivity.
    + destruct (expr_illegal x) eqn:Ei; [discriminate|].
      intros H. destruct (IH r H) as [body [B1 [B2 B3]]].
      exists (x :: body). cbn [app forallb]. unfold expr_char at 1. rewrite E41, Ei, B2.
      split; [rewrite B1; reflexivity|]. split; [reflexivity|exact B3].
Qed.

Lemma read_expression_data_shape c t rest : read_expression_data c = Val (Ok (t, rest)) ->
  exists x s w, t = TExpr s /\ c = x :: s ++ 41 :: w ++ rest /\ all_ws w /\
    forallb expr_char s = true /\ at_sep rest.
Proof.
  unfold read_expression_data.
  destruct c as [|x s0]; [discriminate|].
  destruct (expr_loop s0) as [r|e] eqn:L; [|discriminate].
  apply expr_loop_split in L. destruct L as [body [B1 [B2 B3]]].
  rewrite B1 at 1. rewrite consumed_app0. cbn [obind].
  destruct r as [|y r1]; [discriminate|].
  destruct B3 as [B3|[r1' B3]]; [discriminate|]. injection B3 as -> <-.
  destruct (skip_ws_to_separator SuffixNotAllowed r1) as [r'|e] eqn:W; [|discriminate].
  apply sws_split in W. destruct W as [w [W1 [W2 [W3 _]]]].
  intros H; inversion H; subst t rest. exists x, body, w.
  split; [reflexivity|]. split; [rewrite B1, W1; reflexivity|]. split; [exact W2|].
  split; [exact B2|exact W3].
Qed.

(* ------------------------------------------------------------------ *)
(* 3. one step of the iterator *)

(* [tok_shape c t c']: what exactly [lex_next] consumed from [c] to produce [t] and
   leave [c'].  One clause per token kind; restated as [range_<kind>] below. *)
Definition tok_shape (c : list byte) (t : token) (c' : list byte) : Prop :=
  match t with
  | THeaderMnemonicSeparator => c = 58 :: c'
  | THeaderQuerySuffix => c = 63 :: c'
  | TUnitSeparator => exists w, c = 59 :: w ++ c' /\ all_ws w /\ not_starting is_ws c'
  | TDataSeparator => exists w, c = 44 :: w ++ c' /\ all_ws w /\ not_starting is_ws c'
  | THeaderSeparator => exists w, c = w ++ c' /\ all_ws w /\ w <> [] /\ not_starting is_ws c'
  | TMnemonic s =>
      c = s ++ c' /\ s <> [] /\ mnemonic_bytes s /\ not_starting is_mnemonic_char c'
  | TChar s =>
      exists w, c = s ++ w ++ c' /\ all_ws w /\ s <> [] /\
        forallb is_mnemonic_char s = true /\ (length s <= 12)%nat /\
        not_starting is_mnemonic_char (w ++ c') /\ at_sep c'
  | TDec s =>
      exists w, c = s ++ w ++ c' /\ all_ws w /\ s <> [] /\ forallb is_num_char s = true /\ at_sep c'
  | TDecSuffix v s =>
      exists w1 w2, c = v ++ w1 ++ s ++ w2 ++ c' /\ all_ws w1 /\ all_ws w2 /\
        v <> [] /\ forallb is_num_char v = true /\
        suffix_start s /\ forallb is_suffix_char s = true /\ (length s <= 12)%nat /\
        not_starting is_suffix_char (w2 ++ c') /\ at_sep c'
  | TNonDec _ =>
      exists r ds w, c = 35 :: r :: ds ++ w ++ c' /\ ds <> [] /\ all_ws w /\ at_sep c'
  | TString s =>
      exists q w, c = q :: s ++ q :: w ++ c' /\ (q = 34 \/ q = 39) /\ all_ws w /\
        forallb is_ascii s = true /\ quotes_paired q s = true /\
        hd_eqb q (w ++ c') = false /\ at_sep c'
  | TBlock s =>
      (c = 35 :: 48 :: s ++ [10] /\ c' = []) \/
      (exists d lenfield w, c = 35 :: d :: lenfield ++ s ++ w ++ c' /\
         is_digit d = true /\ d <> 48 /\ length lenfield = N.to_nat (d - 48) /\
         parse_usize lenfield = Some (N.of_nat (length s)) /\ all_ws w /\ at_sep c')
  | TExpr s =>
      exists w, c = 40 :: s ++ 41 :: w ++ c' /\ all_ws w /\ forallb expr_char s = true /\ at_sep c'
  end.

Lemma of_lres_tok hdr com r t l' : of_lres hdr com r = Val (STok t l') ->
  exists rest, r = Val (Ok (t, rest)) /\ l' = mkLexer rest hdr com.
Proof.
  unfold of_lres. destruct r as [[[t0 rest]|e]|site]; cbn [obind]; intros H; try discriminate.
  inversion H; subst. exists rest. split; reflexivity.
Qed.

Ltac dif E :=
  match goal with |- (if ?b then _ else _) = _ -> _ => destruct b eqn:E end.

Lemma lex_next_shape l t l' : lex_next l = Val (STok t l') -> tok_shape (chars l) t (chars l').
Proof.
  intros H0. pose proof (lex_progress l t l' H0) as Hprog. revert H0.
  destruct l as [c hdr com]. unfold lex_next. cbn [chars in_header in_common] in *.
  destruct c as [|x rest]; [discriminate|]. cbv zeta.
  destruct (x =? 42) eqn:E42.
  { intros H. apply of_lres_tok in H. destruct H as [r [H ->]]. cbn [chars] in *.
    apply read_mnemonic_shape in H. destruct H as [s [-> [Hc [Hm Hn]]]]. cbn [tok_shape].
    split; [exact Hc|]. split; [exact (app_shorter_nonnil s _ r Hc Hprog)|]. split; assumption. }
  destruct (x =? 58) eqn:E58.
  { apply N.eqb_eq in E58. subst x. destruct rest as [|y r].
    - dif B; [discriminate|]. intros H; inversion H; subst. reflexivity.
    - dif A; [discriminate|]. dif B; [discriminate|]. intros H; inversion H; subst. reflexivity. }
  destruct (x =? 63) eqn:E63.
  { apply N.eqb_eq in E63. subst x. dif A; [discriminate|]. dif B; [discriminate|].
    intros H; inversion H; subst. reflexivity. }
  destruct (x =? 59) eqn:E59.
  { apply N.eqb_eq in E59. subst x. intros H; inversion H; subst. cbn [tok_shape chars].
    destruct (skip_ws_split rest) as [w [W1 [W2 W3]]]. exists w.
    split; [f_equal; exact W1|]. split; [exact W2|exact W3]. }
  destruct (x =? 10) eqn:E10.
  { destruct rest; discriminate. }
  destruct (x =? 44) eqn:E44.
  { apply N.eqb_eq in E44. subst x. destruct hdr; [discriminate|].
    destruct (skip_ws_split rest) as [w [W1 [W2 W3]]].
    destruct (skip_ws rest) as [|y r] eqn:Es.
    - intros H; inversion H; subst. cbn [tok_shape chars]. exists w.
      split; [f_equal; exact W1|]. split; [exact W2|exact W3].
    - dif A; [discriminate|]. intros H; inversion H; subst. cbn [tok_shape chars]. exists w.
      split; [f_equal; exact W1|]. split; [exact W2|exact W3]. }
  destruct (is_ws x) eqn:Ews.
  { rewrite ws_match.
    assert (Hsk : skip_ws (x :: rest) = skip_ws rest)
      by (unfold skip_ws; cbn [skip_while]; rewrite Ews; reflexivity).
    rewrite Hsk. dif A; [discriminate|]. intros H; inversion H; subst. cbn [tok_shape chars].
    destruct (skip_ws_split rest) as [w [W1 [W2 W3]]]. exists (x :: w).
    split; [cbn [app]; f_equal; exact W1|].
    split; [unfold all_ws in *; cbn [forallb]; rewrite Ews, W2; reflexivity|].
    split; [discriminate|exact W3]. }
  destruct (is_alpha x) eqn:Eal.
  { assert (Hm : is_mnemonic_char x = true).
    { unfold is_mnemonic_char, is_alnum. rewrite Eal. reflexivity. }
    destruct hdr.
    - intros H. apply of_lres_tok in H. destruct H as [r [H ->]]. cbn [chars] in *.
      apply read_mnemonic_shape in H. destruct H as [s [-> [Hc [Hmb Hn]]]]. cbn [tok_shape].
      split; [exact Hc|]. split; [exact (app_shorter_nonnil s _ r Hc Hprog)|]. split; assumption.
    - intros H. apply of_lres_tok in H. destruct H as [r [H ->]]. cbn [chars] in *.
      apply read_character_data_shape in H.
      destruct H as [s [w [-> [Hc [Hw [Hs [Hl [Hn Hsep]]]]]]]]. cbn [tok_shape]. exists w.
      split; [exact Hc|]. split; [exact Hw|].
      split; [|split; [exact Hs|split; [exact Hl|split; [exact Hn|exact Hsep]]]].
      intros Hnil. subst s. cbn [app] in Hc. unfold not_starting in Hn.
      rewrite <- Hc in Hn. cbn [map hd] in Hn. congruence. }
  dif Enum.
  { destruct hdr; [discriminate|].
    intros H. apply of_lres_tok in H. destruct H as [r [H ->]]. cbn [chars] in *.
    apply read_numeric_data_shape in H.
    destruct H as [[s [w [-> H]]]|[v [w1 [s [w2 [-> H]]]]]]; cbn [tok_shape].
    - exists w. exact H.
    - exists w1, w2. exact H. }
  destruct (x =? 35) eqn:E35.
  { apply N.eqb_eq in E35. subst x. destruct hdr; [discriminate|].
    destruct rest as [|y rest']; [discriminate|].
    destruct (is_digit y) eqn:Ed.
    - intros H. apply of_lres_tok in H. destruct H as [r [H ->]]. cbn [chars] in *.
      apply (read_arbitrary_data_shape y rest' t r Ed) in H.
      destruct H as [s [-> [[Hy [Hc Hr]]|[Hy [lenfield [w [Hc [Hl [Hp [Hw Hsep]]]]]]]]]];
        cbn [tok_shape].
      + left. subst y r rest'. split; reflexivity.
      + right. exists y, lenfield, w.
        split; [rewrite Hc; reflexivity|]. split; [exact Ed|]. split; [exact Hy|].
        split; [exact Hl|]. split; [exact Hp|]. split; [exact Hw|exact Hsep].
    - intros H. apply of_lres_tok in H. destruct H as [r [H ->]]. cbn [chars] in *.
      apply read_nondecimal_data_shape in H.
      destruct H as [n [ds [w [-> [Hc [Hds [Hw Hsep]]]]]]]. cbn [tok_shape].
      exists y, ds, w. split; [rewrite Hc; reflexivity|]. split; [exact Hds|]. split; assumption. }
  dif Equo.
  { destruct hdr; [discriminate|].
    intros H. apply of_lres_tok in H. destruct H as [r [H ->]]. cbn [chars] in *.
    apply read_string_data_shape in H.
    destruct H as [q [s [w [-> [Hc [Hw [Has [Hqp [Hnq Hsep]]]]]]]]]. cbn [tok_shape].
    injection Hc as Hx Hrest. subst q.
    assert (Hq : x = 34 \/ x = 39) by lia.
    exists x, w. split; [rewrite Hrest; reflexivity|]. split; [exact Hq|]. split; [exact Hw|].
    split; [|split; [exact Hqp|split; [exact Hnq|exact Hsep]]].
    apply (forallb_impl (fun b => (b =? x) || is_ascii b) is_ascii s); [|exact Has].
    intros b Hb. unfold is_ascii in *. lia. }
  destruct (x =? 40) eqn:E40.
  { apply N.eqb_eq in E40. subst x.
    intros H. apply of_lres_tok in H. destruct H as [r [H ->]]. cbn [chars] in *.
    apply read_expression_data_shape in H.
    destruct H as [x [s [w [-> [Hc [Hw [Hs Hsep]]]]]]]. cbn [tok_shape].
    injection Hc as Hx Hrest. subst x.
    exists w. split; [rewrite Hrest; reflexivity|]. split; [exact Hw|]. split; assumption. }
  dif A; discriminate.
Qed.

(* ---- one lemma per token kind: what [pre] and [post] are, exactly ---- *)

(* program mnemonic (header position, or '*' anywhere): pre = post = []; the payload is
   the whole of what the step consumed; maximal munch *)
Theorem range_mnemonic : forall l s l', lex_next l = Val (STok (TMnemonic s) l') ->
  chars l = s ++ chars l' /\ s <> [] /\ mnemonic_bytes s /\
  not_starting is_mnemonic_char (chars l').
Proof. intros l s l' H. exact (lex_next_shape l _ l' H). Qed.

(* character data: pre = []; post is white space only; then a separator or the end *)
Theorem range_char : forall l s l', lex_next l = Val (STok (TChar s) l') ->
  exists w, chars l = s ++ w ++ chars l' /\ all_ws w /\ s <> [] /\
    forallb is_mnemonic_char s = true /\ (length s <= 12)%nat /\
    not_starting is_mnemonic_char (w ++ chars l') /\ at_sep (chars l').
Proof. intros l s l' H. exact (lex_next_shape l _ l' H). Qed.

(* decimal numeric without suffix: pre = []; post is white space only *)
Theorem range_dec : forall l s l', lex_next l = Val (STok (TDec s) l') ->
  exists w, chars l = s ++ w ++ chars l' /\ all_ws w /\ s <> [] /\
    forallb is_num_char s = true /\ at_sep (chars l').
Proof. intros l s l' H. exact (lex_next_shape l _ l' H). Qed.

(* decimal numeric with suffix: number, white space, suffix, white space — nothing else *)
Theorem range_decsuffix : forall l v s l', lex_next l = Val (STok (TDecSuffix v s) l') ->
  exists w1 w2, chars l = v ++ w1 ++ s ++ w2 ++ chars l' /\ all_ws w1 /\ all_ws w2 /\
    v <> [] /\ forallb is_num_char v = true /\
    suffix_start s /\ forallb is_suffix_char s = true /\ (length s <= 12)%nat /\
    not_starting is_suffix_char (w2 ++ chars l') /\ at_sep (chars l').
Proof. intros l v s l' H. exact (lex_next_shape l _ l' H). Qed.

(* non-decimal numeric: no payload; '#', the radix letter, at least one digit, white space *)
Theorem range_nondec : forall l n l', lex_next l = Val (STok (TNonDec n) l') ->
  exists r ds w, chars l = 35 :: r :: ds ++ w ++ chars l' /\ ds <> [] /\ all_ws w /\
    at_sep (chars l').
Proof. intros l n l' H. exact (lex_next_shape l _ l' H). Qed.

(* string: pre is exactly the opening quote; post is that same quote, then white space only.
   The payload is the RAW text between the quotes (a doubled quote stays doubled), is ASCII,
   and contains the quote character only in adjacent pairs; what follows the closing quote
   is not a quote. *)
Theorem range_string : forall l s l', lex_next l = Val (STok (TString s) l') ->
  exists q w, chars l = q :: s ++ q :: w ++ chars l' /\ (q = 34 \/ q = 39) /\ all_ws w /\
    forallb is_ascii s = true /\ quotes_paired q s = true /\
    hd_eqb q (w ++ chars l') = false /\ at_sep (chars l').
Proof. intros l s l' H. exact (lex_next_shape l _ l' H). Qed.

(* block: indefinite form "#0": pre = "#0", post = the final newline, which must be the
   LAST byte of the input (nothing is left); definite form "#<d><lenfield>": pre is
   '#' :: d :: lenfield, lenfield has d-48 bytes and denotes the payload length exactly,
   post is white space only *)
Theorem range_block : forall l s l', lex_next l = Val (STok (TBlock s) l') ->
  (chars l = 35 :: 48 :: s ++ [10] /\ chars l' = []) \/
  (exists d lenfield w, chars l = 35 :: d :: lenfield ++ s ++ w ++ chars l' /\
     is_digit d = true /\ d <> 48 /\ length lenfield = N.to_nat (d - 48) /\
     parse_usize lenfield = Some (N.of_nat (length s)) /\ all_ws w /\ at_sep (chars l')).
Proof. intros l s l' H. exact (lex_next_shape l _ l' H). Qed.

(* what [parse_usize lenfield = Some n] says: lenfield is a non-empty string of decimal
   digits and n is the number it denotes (within u64) *)
Lemma parse_usize_denotes lenfield n : parse_usize lenfield = Some n ->
  lenfield <> [] /\ forallb is_digit lenfield = true /\
  n = fst (radix_digits 10 lenfield 0 0) /\ n <= u64_max.
Proof.
  unfold parse_usize, all_digits.
  destruct lenfield as [|y ys]; [discriminate|].
  destruct (forallb is_digit (y :: ys)) eqn:Ed; [|discriminate].
  destruct (radix_digits 10 (y :: ys) 0 0) as [v k]. cbn [fst].
  destruct (u64_max <? v) eqn:Eo; [discriminate|].
  intros H; injection H as <-.
  split; [discriminate|]. split; [reflexivity|]. split; [reflexivity|lia].
Qed.

(* the definite form, spelled out: the length field is 1..9 decimal digits and the payload
   has exactly as many bytes as that number says *)
Corollary range_block_definite : forall l s l', lex_next l = Val (STok (TBlock s) l') ->
  chars l' <> [] \/ (forall s0, chars l <> 35 :: 48 :: s0) ->
  exists d lenfield w, chars l = 35 :: d :: lenfield ++ s ++ w ++ chars l' /\
    (1 <= length lenfield <= 9)%nat /\ d = 48 + N.of_nat (length lenfield) /\
    forallb is_digit lenfield = true /\
    N.of_nat (length s) = fst (radix_digits 10 lenfield 0 0) /\ all_ws w /\ at_sep (chars l').
Proof.
  intros l s l' H Hdef. apply range_block in H.
  destruct H as [[H1 H2]|[d [lenfield [w [Hc [Hd [Hd0 [Hl [Hp [Hw Hsep]]]]]]]]]].
  - exfalso. destruct Hdef as [Hdef|Hdef]; [exact (Hdef H2)|exact (Hdef _ H1)].
  - exists d, lenfield, w. apply parse_usize_denotes in Hp. destruct Hp as [_ [Hdig [Hn _]]].
    split; [exact Hc|]. unfold is_digit in Hd.
    split; [lia|]. split; [lia|]. split; [exact Hdig|]. split; [exact Hn|]. split; assumption.
Qed.

(* expression: pre = "(", post = ")" then white space only; no quote, ';', parenthesis or
   non-ASCII byte inside *)
Theorem range_expr : forall l s l', lex_next l = Val (STok (TExpr s) l') ->
  exists w, chars l = 40 :: s ++ 41 :: w ++ chars l' /\ all_ws w /\
    forallb expr_char s = true /\ at_sep (chars l').
Proof. intros l s l' H. exact (lex_next_shape l _ l' H). Qed.

(* separators: one byte (the separator itself, or the first white space of a header
   separator) and white space *)
Theorem range_separator : forall l t l', lex_next l = Val (STok t l') ->
  payload t = None -> (forall n, t <> TNonDec n) ->
  exists x w, chars l = x :: w ++ chars l' /\ all_ws w /\
    match t with
    | THeaderMnemonicSeparator => x = 58 /\ w = []
    | THeaderQuerySuffix => x = 63 /\ w = []
    | TUnitSeparator => x = 59 /\ not_starting is_ws (chars l')
    | TDataSeparator => x = 44 /\ not_starting is_ws (chars l')
    | THeaderSeparator => is_ws x = true /\ not_starting is_ws (chars l')
    | _ => False
    end.
Proof.
  intros l t l' H Hp Hn. apply lex_next_shape in H.
  destruct t; cbn [payload] in Hp; try discriminate; cbn [tok_shape] in H.
  - exists 58, []. split; [exact H|]. split; [reflexivity|]. split; reflexivity.
  - exists 63, []. split; [exact H|]. split; [reflexivity|]. split; reflexivity.
  - destruct H as [w [H1 [H2 H3]]]. exists 59, w. split; [exact H1|]. split; [exact H2|].
    split; [reflexivity|exact H3].
  - destruct H as [w [H1 [H2 [H3 H4]]]]. destruct w as [|x w]; [congruence|].
    unfold all_ws in H2. cbn [forallb] in H2. apply andb_prop in H2. destruct H2 as [Hx Hw].
    exists x, w. split; [exact H1|]. split; [exact Hw|]. split; [exact Hx|exact H4].
  - destruct H as [w [H1 [H2 H3]]]. exists 44, w. split; [exact H1|]. split; [exact H2|].
    split; [reflexivity|exact H3].
  - exfalso. exact (Hn n eq_refl).
Qed.

(* ---- the one-step theorems ---- *)

(* every step consumed a non-empty prefix; the payload, and for a numeric with suffix both
   parts in order, lie inside that prefix *)
Lemma tok_shape_used c t c' : tok_shape c t c' ->
  exists used, c = used ++ c' /\
    match t with
    | TDecSuffix v s => exists pre mid post, used = pre ++ v ++ mid ++ s ++ post
    | _ => match payload t with
           | Some p => exists pre post, used = pre ++ p ++ post
           | None => True
           end
    end.
Proof.
  destruct t; cbn [tok_shape payload]; intros H.
  - exists [58]. split; [exact H|exact I].
  - exists [63]. split; [exact H|exact I].
  - destruct H as [w [H _]]. exists (59 :: w). split; [exact H|exact I].
  - destruct H as [w [H _]]. exists w. split; [exact H|exact I].
  - destruct H as [w [H _]]. exists (44 :: w). split; [exact H|exact I].
  - destruct H as [H _]. exists s. split; [exact H|]. exists [], []. list_eq.
  - destruct H as [w [H _]]. exists (s ++ w). split; [rewrite H; list_eq|]. exists [], w. list_eq.
  - destruct H as [w [H _]]. exists (s ++ w). split; [rewrite H; list_eq|]. exists [], w. list_eq.
  - destruct H as [w1 [w2 [H _]]]. exists (v ++ w1 ++ s ++ w2). split; [rewrite H; list_eq|].
    exists [], w1, w2. list_eq.
  - destruct H as [r [ds [w [H _]]]]. exists (35 :: r :: ds ++ w). split; [rewrite H; list_eq|exact I].
  - destruct H as [q [w [H _]]]. exists (q :: s ++ q :: w). split; [rewrite H; list_eq|].
    exists [q], (q :: w). list_eq.
  - destruct H as [[H1 H2]|[d [lenfield [w [H _]]]]].
    + exists (35 :: 48 :: s ++ [10]). split; [rewrite H1, H2; list_eq|]. exists [35; 48], [10]. list_eq.
    + exists (35 :: d :: lenfield ++ s ++ w). split; [rewrite H; list_eq|].
      exists (35 :: d :: lenfield), w. list_eq.
  - destruct H as [w [H _]]. exists (40 :: s ++ 41 :: w). split; [rewrite H; list_eq|].
    exists [40], (41 :: w). list_eq.
Qed.

Theorem lex_next_range : forall l t l', lex_next l = Val (STok t l') ->
  exists used, chars l = used ++ chars l' /\ used <> [] /\
    match payload t with
    | Some p => exists pre post, used = pre ++ p ++ post
    | None => True
    end.
Proof.
  intros l t l' H. pose proof (lex_progress l t l' H) as Hprog.
  apply lex_next_shape in H. apply tok_shape_used in H. destruct H as [used [Hc Hu]].
  exists used. split; [exact Hc|]. split; [exact (app_shorter_nonnil used _ _ Hc Hprog)|].
  destruct t; try exact Hu.
  (* TDecSuffix v s: the payload is v *)
  cbn [payload]. destruct Hu as [pre [mid [post Hu]]]. exists pre, (mid ++ s ++ post). exact Hu.
Qed.

Theorem lex_next_range_suffix : forall l v s l', lex_next l = Val (STok (TDecSuffix v s) l') ->
  exists used, chars l = used ++ chars l' /\ used <> [] /\
    exists pre mid post, used = pre ++ v ++ mid ++ s ++ post.
Proof.
  intros l v s l' H. pose proof (lex_progress l _ l' H) as Hprog.
  apply lex_next_shape in H. apply tok_shape_used in H. destruct H as [used [Hc Hu]].
  exists used. split; [exact Hc|]. split; [exact (app_shorter_nonnil used _ _ Hc Hprog)|exact Hu].
Qed.

(* ------------------------------------------------------------------ *)
(* 4. the whole input *)

Lemma ranges_prefix pre rest ps : ranges rest ps -> ranges (pre ++ rest) ps.
Proof.
  intros H. destruct H as [rest|pre' p rest ps H]; [constructor|].
  rewrite (app_assoc pre pre' (p ++ rest)). constructor. exact H.
Qed.

Lemma ranges_cons_inv c p ps : ranges c (p :: ps) ->
  exists pre rest, c = pre ++ p ++ rest /\ ranges rest ps.
Proof.
  intros H. inversion H as [|pre p0 rest ps0 Hr]; subst.
  exists pre, rest. split; [reflexivity|exact Hr].
Qed.

(* the payload byte lists one token contributes *)
Definition tok_payloads (t : token) : list (list byte) :=
  match t with
  | TDecSuffix v s => [v; s]
  | _ => match payload t with Some p => [p] | None => [] end
  end.

Lemma payloads_cons t r : payloads (IOk t :: r) = tok_payloads t ++ payloads r.
Proof. destruct t; reflexivity. Qed.

Lemma step_ranges l t l' ps : lex_next l = Val (STok t l') ->
  ranges (chars l') ps -> ranges (chars l) (tok_payloads t ++ ps).
Proof.
  intros H Hr. apply lex_next_shape in H. apply tok_shape_used in H.
  destruct H as [used [Hc Hu]]. rewrite Hc.
  destruct t; cbn [payload tok_payloads app] in *;
    try (apply ranges_prefix; exact Hr);
    try (destruct Hu as [pre [post Hu]]; subst used;
         replace ((pre ++ s ++ post) ++ chars l') with (pre ++ s ++ (post ++ chars l')) by list_eq;
         constructor; apply ranges_prefix; exact Hr).
  destruct Hu as [pre [mid [post Hu]]]. subst used.
  replace ((pre ++ v ++ mid ++ s ++ post) ++ chars l')
    with (pre ++ v ++ (mid ++ s ++ (post ++ chars l'))) by list_eq.
  constructor. constructor. apply ranges_prefix. exact Hr.
Qed.

Lemma tokenize_fuel_ranges : forall f l items, tokenize_fuel f l = Val items ->
  ranges (chars l) (payloads items).
Proof.
  induction f as [|f IH]; intros l items H; cbn [tokenize_fuel] in H; [discriminate|].
  destruct (lex_next l) as [s|site] eqn:E; cbn [obind] in H; [|discriminate].
  destruct s as [|e|t l'].
  - inversion H; subst. constructor.
  - inversion H; subst. constructor.
  - destruct (tokenize_fuel f l') as [r|site] eqn:Er; cbn [obind] in H; [|discriminate].
    inversion H; subst. rewrite payloads_cons.
    apply (step_ranges l t l' _ E). apply IH. exact Er.
Qed.

Theorem tokenize_from_ranges : forall l items, tokenize_from l = Val items ->
  ranges (chars l) (payloads items).
Proof. intros l items H. unfold tokenize_from in H. eapply tokenize_fuel_ranges. exact H. Qed.

Theorem tokenize_ranges : forall input items, tokenize input = Val items ->
  ranges input (payloads items).
Proof.
  intros input items H. apply tokenize_from_ranges in H. unfold lexer_new in H. cbn [chars] in H.
  destruct (skip_ws_split input) as [w [W1 _]]. rewrite W1. apply ranges_prefix. exact H.
Qed.

Theorem tokenize_params_ranges : forall input items, tokenize_params input = Val items ->
  ranges input (payloads items).
Proof. intros input items H. apply tokenize_from_ranges in H. exact H. Qed.

(* ---- consequences ---- *)

Lemma ranges_In input ps : ranges input ps ->
  forall p, In p ps -> forall b, In b p -> In b input.
Proof.
  induction 1 as [rest|pre p0 rest ps Hr IH]; intros p Hp b Hb; [destruct Hp|].
  destruct Hp as [Hp|Hp].
  - subst p0. apply in_or_app. right. apply in_or_app. left. exact Hb.
  - apply in_or_app. right. apply in_or_app. right. exact (IH p Hp b Hb).
Qed.

Lemma ranges_length input ps : ranges input ps ->
  (list_sum (map (@length byte) ps) <= length input)%nat.
Proof.
  induction 1 as [rest|pre p0 rest ps Hr IH]; unfold list_sum in *; cbn [map fold_right] in *; [lia|].
  rewrite !app_length. lia.
Qed.

Corollary payload_bytes_from_input : forall input items p, tokenize input = Val items ->
  In p (payloads items) -> forall b, In b p -> In b input.
Proof.
  intros input items p H Hp b Hb.
  exact (ranges_In input (payloads items) (tokenize_ranges input items H) p Hp b Hb).
Qed.

Corollary payload_total_length : forall input items, tokenize input = Val items ->
  (list_sum (map (@length byte) (payloads items)) <= length input)%nat.
Proof. intros input items H. exact (ranges_length input _ (tokenize_ranges input items H)). Qed.

Corollary payload_bytes_from_input_params : forall input items p,
  tokenize_params input = Val items ->
  In p (payloads items) -> forall b, In b p -> In b input.
Proof.
  intros input items p H Hp b Hb.
  exact (ranges_In input (payloads items) (tokenize_params_ranges input items H) p Hp b Hb).
Qed.

Corollary payload_total_length_params : forall input items, tokenize_params input = Val items ->
  (list_sum (map (@length byte) (payloads items)) <= length input)%nat.
Proof. intros input items H. exact (ranges_length input _ (tokenize_params_ranges input items H)). Qed.

(* ---- the complete account: the input is TILED by the steps ----
   Stronger than [ranges] (which forgets what lies between the payloads): starting from
   [chars l], every token's step consumed exactly the bytes [tok_shape] describes, the next
   step starts exactly where the previous one stopped, and the stream ends at the end of
   the input (or a final newline) or at the first error. *)
Inductive tiles : list byte -> list titem -> Prop :=
| tiles_end : forall c, c = [] \/ c = [10] -> tiles c []
| tiles_err : forall c e, tiles c [IErr e]     (* the first error: nothing after it is read *)
| tiles_tok : forall c t c' items, tok_shape c t c' -> tiles c' items -> tiles c (IOk t :: items).

Lemma of_lres_not_end hdr com r : of_lres hdr com r <> Val SEnd.
Proof. unfold of_lres. destruct r as [[[t rest]|e]|s]; cbn [obind]; discriminate. Qed.

Lemma lex_next_end l : lex_next l = Val SEnd -> chars l = [] \/ chars l = [10].
Proof.
  destruct l as [c hdr com]. unfold lex_next. cbn [chars in_header in_common].
  destruct c as [|x rest]; [left; reflexivity|]. cbv zeta.
  assert (R : forall h cm r (P : Prop), of_lres h cm r = Val SEnd -> P)
    by (intros h cm r P H; exfalso; exact (of_lres_not_end h cm r H)).
  destruct (x =? 42); [apply R|].
  destruct (x =? 58).
  { destruct rest as [|y r]; [dif B; discriminate|]. dif A; [discriminate|]. dif B; discriminate. }
  destruct (x =? 63).
  { dif A; [discriminate|]. dif B; discriminate. }
  destruct (x =? 59); [discriminate|].
  destruct (x =? 10) eqn:E10.
  { apply N.eqb_eq in E10. subst x. destruct rest; [right; reflexivity|discriminate]. }
  destruct (x =? 44).
  { destruct hdr; [discriminate|]. destruct (skip_ws rest) as [|y r]; [discriminate|].
    dif A; discriminate. }
  destruct (is_ws x).
  { rewrite ws_match. dif A; discriminate. }
  destruct (is_alpha x).
  { destruct hdr; apply R. }
  dif Enum.
  { destruct hdr; [discriminate|apply R]. }
  destruct (x =? 35).
  { destruct hdr; [discriminate|]. destruct rest as [|y rest']; [discriminate|].
    destruct (is_digit y); apply R. }
  dif Equo.
  { destruct hdr; [discriminate|apply R]. }
  destruct (x =? 40); [apply R|].
  dif A; discriminate.
Qed.

Lemma tokenize_fuel_tiles : forall f l items, tokenize_fuel f l = Val items ->
  tiles (chars l) items.
Proof.
  induction f as [|f IH]; intros l items H; cbn [tokenize_fuel] in H; [discriminate|].
  destruct (lex_next l) as [s|site] eqn:E; cbn [obind] in H; [|discriminate].
  destruct s as [|e|t l'].
  - inversion H; subst. apply tiles_end. exact (lex_next_end l E).
  - inversion H; subst. apply tiles_err.
  - destruct (tokenize_fuel f l') as [r|site] eqn:Er; cbn [obind] in H; [|discriminate].
    inversion H; subst. apply tiles_tok with (c' := chars l').
    + exact (lex_next_shape l t l' E).
    + apply IH. exact Er.
Qed.

Theorem tokenize_from_tiles : forall l items, tokenize_from l = Val items ->
  tiles (chars l) items.
Proof. intros l items H. unfold tokenize_from in H. eapply tokenize_fuel_tiles. exact H. Qed.

(* [tokenize] first drops leading white space, then tiles what remains *)
Theorem tokenize_tiles : forall input items, tokenize input = Val items ->
  exists w, input = w ++ skip_ws input /\ all_ws w /\ tiles (skip_ws input) items.
Proof.
  intros input items H. apply tokenize_from_tiles in H. unfold lexer_new in H. cbn [chars] in H.
  destruct (skip_ws_split input) as [w [W1 [W2 _]]]. exists w.
  split; [exact W1|]. split; [exact W2|exact H].
Qed.

Theorem tokenize_params_tiles : forall input items, tokenize_params input = Val items ->
  tiles input items.
Proof. intros input items H. apply tokenize_from_tiles in H. exact H. Qed.

(* ------------------------------------------------------------------ *)
(* 5. non-vacuity *)
From Coq Require Import Ascii.

Module Examples.

Fixpoint bs (s : string) : list byte :=
  match s with EmptyString => [] | String a s' => N_of_ascii a :: bs s' end.
Fixpoint sb (l : list byte) : string :=
  match l with [] => EmptyString | x :: l' => String (ascii_of_N x) (sb l') end.

(* the payloads of the tokens of an input, shown as strings *)
Definition payloads_of (input : list byte) : option (list string) :=
  match tokenize input with Val items => Some (map sb (payloads items)) | Panic _ => None end.
Definition payloads_of_params (input : list byte) : option (list string) :=
  match tokenize_params input with Val items => Some (map sb (payloads items)) | Panic _ => None end.

Open Scope string_scope.

(* strings containing ';' ',' a doubled quote and the other quote: the payload is the raw
   text between the quotes *)
Example ex_string :
  payloads_of (bs "SYST:MSG ""a;b,""""c"", 'x""y;'") = Some ["SYST"; "MSG"; "a;b,""""c"; "x""y;"].
Proof. vm_compute. reflexivity. Qed.

Example ex_string_tokens :
  tokenize (bs "SYST:MSG ""a;b,""""c"", 'x""y;'") =
  Val [IOk (TMnemonic (bs "SYST")); IOk THeaderMnemonicSeparator; IOk (TMnemonic (bs "MSG"));
       IOk THeaderSeparator; IOk (TString (bs "a;b,""""c")); IOk TDataSeparator;
       IOk (TString (bs "x""y;"))].
Proof. vm_compute. reflexivity. Qed.

(* a definite block containing a quote, ';' and ','; a non-decimal numeric has no payload *)
Example ex_block :
  payloads_of (bs "DATA #15a"";b,,#H1F,12") = Some ["DATA"; "a"";b,"; "12"].
Proof. vm_compute. reflexivity. Qed.

(* an indefinite block takes everything up to the final newline *)
Example ex_block_indefinite :
  payloads_of (bs "DATA #0x"";'" ++ [10]%N) = Some ["DATA"; "x"";'"].
Proof. vm_compute. reflexivity. Qed.

(* an expression containing ',' and ':' *)
Example ex_expr :
  payloads_of (bs "ROUT:CLOS (@1,2:5),3;*RST") = Some ["ROUT"; "CLOS"; "@1,2:5"; "3"; "*RST"].
Proof. vm_compute. reflexivity. Qed.

(* numbers with suffix contribute two ranges, in order *)
Example ex_suffix :
  payloads_of (bs "VOLT 12.5e-3 mV ; CURR +.5A,MAX") =
  Some ["VOLT"; "12.5e-3"; "mV"; "CURR"; "+.5"; "A"; "MAX"].
Proof. vm_compute. reflexivity. Qed.

(* ill-formed input: the theorems cover the tokens before the error as well *)
Example ex_error_tokens :
  tokenize (bs "  A:B ""x"",12 V,(1"")") =
  Val [IOk (TMnemonic (bs "A")); IOk THeaderMnemonicSeparator; IOk (TMnemonic (bs "B"));
       IOk THeaderSeparator; IOk (TString (bs "x")); IOk TDataSeparator;
       IOk (TDecSuffix (bs "12") (bs "V")); IOk TDataSeparator; IErr InvalidExpression].
Proof. vm_compute. reflexivity. Qed.

Example ex_error :
  payloads_of (bs "  A:B ""x"",12 V,(1"")") = Some ["A"; "B"; "x"; "12"; "V"].
Proof. vm_compute. reflexivity. Qed.

(* parameter position *)
Example ex_params :
  payloads_of_params (bs "1.5 KHZ,""s;"",#12;;,(a,b)") = Some ["1.5"; "KHZ"; "s;"; ";;"; "a,b"].
Proof. vm_compute. reflexivity. Qed.

(* the whole-input theorem applied: a concrete [ranges] fact obtained from [tokenize_ranges] *)
Example ex_ranges_applied :
  ranges (bs "VOLT 12.5e-3 mV ; CURR +.5A,MAX")
         (map bs ["VOLT"; "12.5e-3"; "mV"; "CURR"; "+.5"; "A"; "MAX"]).
Proof.
  pose proof (fun items => tokenize_ranges (bs "VOLT 12.5e-3 mV ; CURR +.5A,MAX") items) as H.
  vm_compute in H. specialize (H _ eq_refl). vm_compute in H. exact H.
Qed.

(* [ranges] is a real constraint: order matters, and a byte cannot be handed out twice *)
Example ranges_order_matters : ~ ranges [97; 98]%N [[98]; [97]]%N.      (* "ab" vs "b","a" *)
Proof.
  intros H. apply ranges_cons_inv in H. destruct H as [pre [rest [Heq Hr]]].
  apply ranges_cons_inv in Hr. destruct Hr as [pre' [rest' [Heq' _]]]. subst rest.
  destruct pre as [|a [|b [|c pre]]]; cbn [app] in Heq; try discriminate.
  injection Heq as _ Hnil. destruct pre'; discriminate.
Qed.

Example ranges_no_reuse : ~ ranges [97]%N [[97]; [97]]%N.               (* "a" vs "a","a" *)
Proof.
  intros H. apply ranges_cons_inv in H. destruct H as [pre [rest [Heq Hr]]].
  apply ranges_cons_inv in Hr. destruct Hr as [pre' [rest' [Heq' _]]]. subst rest.
  destruct pre as [|a pre]; cbn [app] in Heq.
  - injection Heq as Hnil. destruct pre'; discriminate.
  - injection Heq as _ Hnil. destruct pre; discriminate.
Qed.

End Examples.

(* every theorem is closed under the global context *)
Print Assumptions lex_next_range.
Print Assumptions lex_next_range_suffix.
Print Assumptions range_mnemonic.
Print Assumptions range_char.
Print Assumptions range_dec.
Print Assumptions range_decsuffix.
Print Assumptions range_nondec.
Print Assumptions range_string.
Print Assumptions range_block.
Print Assumptions range_block_definite.
Print Assumptions range_expr.
Print Assumptions range_separator.
Print Assumptions tokenize_ranges.
Print Assumptions tokenize_params_ranges.
Print Assumptions payload_bytes_from_input.
Print Assumptions payload_total_length.
Print Assumptions tokenize_tiles.
Print Assumptions tokenize_params_tiles.
