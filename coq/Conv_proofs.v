(* Conv_proofs.v — proofs about the conversion model Conv.v (integers, floats, bool, strings). *)
From Coq Require Import QArith Qabs Qpower Floats.SpecFloat Lia.
From VF Require Import Base Gen_Errors Fmt Lexer Mnemonic Conv.
Local Open Scope Q_scope.

Definition sign_Q (neg : bool) : Q := if neg then (-1) else 1.
Definition sf2Q (f : spec_float) : option Q :=
  match f with
  | S754_zero _ => Some 0
  | S754_finite s m e => Some (sign_Q s * inject_Z (Zpos m) * Qpower 2 e)
  | _ => None
  end.
Definition lit2Q (neg : bool) (m : N) (e10 : Z) : Q := sign_Q neg * inject_Z (Z.of_N m) * Qpower 10 e10.
Definition nearest (n : Z) (x : Q) : Prop := Qabs (x - inject_Z n) <= 1 # 2.
Definition in_range (t : ity) (n : Z) : Prop := (ity_min t <= n <= ity_max t)%Z.
(* C07's rule: the result is the nearest integer (either neighbour at a tie) of the literal's exact value q or of the float d
   it is read as; Ok when that integer is representable, -222 when it is not (or d is infinite) *)
Definition near_q_or_d (n : Z) (q : Q) (d : spec_float) : Prop := nearest n q \/ exists dq, sf2Q d = Some dq /\ nearest n dq.
Definition int_conv_ok (t : ity) (q : Q) (d : spec_float) (r : res Z) : Prop :=
  (exists n, r = Ok n /\ in_range t n /\ near_q_or_d n q d)
  \/ (r = Err DataOutOfRange /\ ((exists n, ~ in_range t n /\ near_q_or_d n q d) \/ sf2Q d = None)).

(* ---------------------------------------------------------------- *)
(* easy structural facts *)

(* 6 *)
Theorem nondec_exact : forall t n,
  conv_int t (TNonDec n) = Val (if (Z.of_N n <=? ity_max t)%Z then Ok (Z.of_N n) else Err DataOutOfRange).
Proof. intros t n. cbn [conv_int]. destruct (Z.of_N n <=? ity_max t)%Z; reflexivity. Qed.

(* 7 *)
Theorem int_keywords : forall t s, conv_int t (TChar s) =
  Val (if mnemonic_compare kw_max s then Ok (ity_max t) else if mnemonic_compare kw_min s then Ok (ity_min t) else Err DataTypeError).
Proof.
  intros t s. cbn [conv_int].
  destruct (mnemonic_compare kw_max s); [reflexivity|].
  destruct (mnemonic_compare kw_min s); reflexivity.
Qed.

(* 8 *)
Theorem int_suffix_rejected : forall t v s, conv_int t (TDecSuffix v s) = Val (Err SuffixNotAllowed).
Proof. reflexivity. Qed.

(* 9 *)
Theorem int_other_rejected : forall t tok, is_data tok = true ->
  (forall s, tok <> TDec s) -> (forall n, tok <> TNonDec n) -> (forall s, tok <> TChar s) -> (forall v s, tok <> TDecSuffix v s) ->
  conv_int t tok = Val (Err DataTypeError).
Proof.
  intros t tok Hd H1 H2 H3 H4.
  destruct tok; try discriminate Hd; try reflexivity.
  - exfalso. eapply H3. reflexivity.
  - exfalso. eapply H1. reflexivity.
  - exfalso. eapply H4. reflexivity.
  - exfalso. eapply H2. reflexivity.
Qed.

(* 11 C08 *)
Theorem float_conv_dec : forall t s, conv_float t (TDec s) =
  Val (match parse_float t s with Some v => Ok v | None => Err NumericDataError end).
Proof. intros t s. cbn [conv_float]. destruct (parse_float t s); reflexivity. Qed.

(* 12 *)
Theorem float_keywords : forall t s, conv_float t (TChar s) = Val (
  if mnemonic_compare kw_inf s then Ok (S754_infinity false) else if mnemonic_compare kw_ninf s then Ok (S754_infinity true)
  else if mnemonic_compare kw_nan s then Ok S754_nan else if mnemonic_compare kw_max s then Ok (sf_max t false)
  else if mnemonic_compare kw_min s then Ok (sf_max t true) else Err DataTypeError).
Proof.
  intros t s. cbn [conv_float].
  destruct (mnemonic_compare kw_inf s); [reflexivity|].
  destruct (mnemonic_compare kw_ninf s); [reflexivity|].
  destruct (mnemonic_compare kw_nan s); [reflexivity|].
  destruct (mnemonic_compare kw_max s); [reflexivity|].
  destruct (mnemonic_compare kw_min s); reflexivity.
Qed.

(* 15 *)
Theorem bool_onoff : forall s, conv_bool (TChar s) =
  Val (if bytes_eq_nocase s kw_on then Ok true else if bytes_eq_nocase s kw_off then Ok false else Err IllegalParameterValue).
Proof.
  intros s. cbn [conv_bool].
  destruct (bytes_eq_nocase s kw_on); [reflexivity|].
  destruct (bytes_eq_nocase s kw_off); reflexivity.
Qed.

(* shapes of the four conversions on a decimal token *)
Lemma conv_int_dec_shape : forall t s,
  exists r, conv_int t (TDec s) = Val r.
Proof.
  intros t s. cbn [conv_int].
  destruct (lexical_parse_int t s); [eexists; reflexivity| |eexists; reflexivity].
  destruct (parse_float (ity_float t) s) as [v|]; [|eexists; reflexivity].
  destruct (sf_round_half_away v) as [n|]; [|eexists; reflexivity].
  destruct ((ity_min t <=? n)%Z && (n <=? ity_max t)%Z); eexists; reflexivity.
Qed.

Lemma conv_bool_dec_shape : forall s, exists r, conv_bool (TDec s) = Val r.
Proof.
  intros s. cbn [conv_bool].
  destruct (parse_float F64 s) as [v|]; [|eexists; reflexivity].
  destruct (sf_round_half_away v); eexists; reflexivity.
Qed.

(* 10 C01 *)
Theorem conv_total : forall tok, is_data tok = true ->
  (forall t, exists r, conv_int t tok = Val r) /\ (forall t, exists r, conv_float t tok = Val r)
  /\ (exists r, conv_bool tok = Val r) /\ (forall t, exists r, conv_bytes t tok = Val r).
Proof.
  intros tok Hd. repeat split.
  - intros t. destruct tok; try discriminate Hd; try (eexists; reflexivity).
    + rewrite int_keywords. eexists; reflexivity.
    + apply conv_int_dec_shape.
    + rewrite nondec_exact. eexists; reflexivity.
  - intros t. destruct tok; try discriminate Hd; try (eexists; reflexivity).
    + rewrite float_keywords. eexists; reflexivity.
    + rewrite float_conv_dec. eexists; reflexivity.
  - destruct tok; try discriminate Hd; try (eexists; reflexivity).
    + rewrite bool_onoff. eexists; reflexivity.
    + apply conv_bool_dec_shape.
  - intros t. destruct t, tok; try discriminate Hd; try (eexists; reflexivity);
      cbn [conv_bytes]; destruct (utf8_valid s); eexists; reflexivity.
Qed.

(* 16 accept tables *)
Theorem accept_int : forall t tok n, conv_int t tok = Val (Ok n) ->
  (exists s, tok = TDec s) \/ (exists k, tok = TNonDec k) \/ (exists s, tok = TChar s).
Proof.
  intros t tok n H.
  destruct tok; try discriminate H.
  - right; right; eexists; reflexivity.
  - left; eexists; reflexivity.
  - right; left; eexists; reflexivity.
Qed.

Theorem accept_float : forall t tok v, conv_float t tok = Val (Ok v) -> (exists s, tok = TDec s) \/ (exists s, tok = TChar s).
Proof.
  intros t tok v H.
  destruct tok; try discriminate H.
  - right; eexists; reflexivity.
  - left; eexists; reflexivity.
Qed.

Theorem accept_bool : forall tok b, conv_bool tok = Val (Ok b) -> (exists s, tok = TDec s) \/ (exists s, tok = TChar s).
Proof.
  intros tok b H.
  destruct tok; try discriminate H.
  - right; eexists; reflexivity.
  - left; eexists; reflexivity.
Qed.

Theorem accept_bytes : forall t tok s, conv_bytes t tok = Val (Ok s) ->
  match t with BBytes => tok = TString s | BStr => (tok = TString s \/ tok = TBlock s) /\ utf8_valid s = true
             | BArb => tok = TBlock s | BChr => tok = TChar s | BExpr => tok = TExpr s end.
Proof.
  intros t tok s H.
  destruct t, tok; try discriminate H; cbn [conv_bytes] in H.
  - injection H as ->. reflexivity.
  - destruct (utf8_valid s0) eqn:E; [|discriminate H]. injection H as ->. split; [left; reflexivity|exact E].
  - destruct (utf8_valid s0) eqn:E; [|discriminate H]. injection H as ->. split; [right; reflexivity|exact E].
  - injection H as ->. reflexivity.
  - injection H as ->. reflexivity.
  - injection H as ->. reflexivity.
Qed.

(* 17 every conversion error is one of the documented codes *)
Lemma type_error_code : forall A (tok : token) e, @type_error A tok = Val (Err e) -> e = DataTypeError.
Proof.
  intros A tok e H. unfold type_error in H. destruct (is_data tok); [|discriminate H].
  injection H as <-. reflexivity.
Qed.

Theorem conv_error_codes : forall tok e,
  (forall t, conv_int t tok = Val (Err e) -> In e [DataTypeError; SuffixNotAllowed; DataOutOfRange; NumericDataError]) /\
  (forall t, conv_float t tok = Val (Err e) -> In e [DataTypeError; SuffixNotAllowed; NumericDataError]) /\
  (conv_bool tok = Val (Err e) -> In e [DataTypeError; IllegalParameterValue; NumericDataError]) /\
  (forall t, conv_bytes t tok = Val (Err e) -> In e [DataTypeError; StringDataError]).
Proof.
  intros tok e. repeat split.
  - intros t H.
    destruct tok;
      try (apply type_error_code in H; subst e; left; reflexivity).
    + rewrite int_keywords in H.
      destruct (mnemonic_compare kw_max s); [discriminate H|].
      destruct (mnemonic_compare kw_min s); [discriminate H|].
      injection H as <-. left; reflexivity.
    + cbn [conv_int] in H.
      destruct (lexical_parse_int t s).
      * discriminate H.
      * destruct (parse_float (ity_float t) s) as [v|].
        -- destruct (sf_round_half_away v) as [n|].
           ++ destruct ((ity_min t <=? n)%Z && (n <=? ity_max t)%Z); [discriminate H|].
              injection H as <-. right; right; left; reflexivity.
           ++ injection H as <-. right; right; left; reflexivity.
        -- injection H as <-. right; right; right; left; reflexivity.
      * injection H as <-. right; right; left; reflexivity.
    + cbn [conv_int] in H. injection H as <-. right; left; reflexivity.
    + rewrite nondec_exact in H. destruct (Z.of_N n <=? ity_max t)%Z; [discriminate H|].
      injection H as <-. right; right; left; reflexivity.
  - intros t H.
    destruct tok;
      try (apply type_error_code in H; subst e; left; reflexivity).
    + rewrite float_keywords in H.
      destruct (mnemonic_compare kw_inf s); [discriminate H|].
      destruct (mnemonic_compare kw_ninf s); [discriminate H|].
      destruct (mnemonic_compare kw_nan s); [discriminate H|].
      destruct (mnemonic_compare kw_max s); [discriminate H|].
      destruct (mnemonic_compare kw_min s); [discriminate H|].
      injection H as <-. left; reflexivity.
    + rewrite float_conv_dec in H. destruct (parse_float t s); [discriminate H|].
      injection H as <-. right; right; left; reflexivity.
    + cbn [conv_float] in H. injection H as <-. right; left; reflexivity.
  - intros H.
    destruct tok;
      try (apply type_error_code in H; subst e; left; reflexivity).
    + rewrite bool_onoff in H.
      destruct (bytes_eq_nocase s kw_on); [discriminate H|].
      destruct (bytes_eq_nocase s kw_off); [discriminate H|].
      injection H as <-. right; left; reflexivity.
    + cbn [conv_bool] in H.
      destruct (parse_float F64 s) as [v|].
      * destruct (sf_round_half_away v); discriminate H.
      * injection H as <-. right; right; left; reflexivity.
  - intros t H.
    destruct t, tok; cbn [conv_bytes] in H;
      try (apply type_error_code in H; subst e; left; reflexivity);
      try discriminate H;
      destruct (utf8_valid s); try discriminate H; injection H as <-; right; left; reflexivity.
Qed.

(* ---------------------------------------------------------------- *)
(* rounding a float to an integer *)

(* 2 *)
Theorem round_half_away_none : forall f, sf_round_half_away f = None <-> sf2Q f = None.
Proof. intros f. destruct f; cbn; split; intros H; try reflexivity; discriminate H. Qed.

Definition sgnZ (s : bool) (m : positive) : Z := if s then Zneg m else Zpos m.

Lemma sign_Q_inject : forall s m, sign_Q s * inject_Z (Zpos m) == inject_Z (sgnZ s m).
Proof. intros s m. destruct s; unfold sign_Q, sgnZ, Qeq; cbn; lia. Qed.

Lemma Qpower2_nonneg : forall e, (0 <= e)%Z -> Qpower 2 e == inject_Z (2 ^ e).
Proof. intros e He. symmetry. exact (Zpower_Qpower 2 e He). Qed.

Lemma Qpower2_neg : forall e, (e < 0)%Z -> Qpower 2 e == 1 # Z.to_pos (2 ^ (- e)).
Proof.
  intros e He.
  assert (Hp : (0 < 2 ^ (- e))%Z) by (apply Z.pow_pos_nonneg; lia).
  replace e with (- (- e))%Z at 1 by lia.
  rewrite Qpower_opp. rewrite (Qpower2_nonneg (- e)) by lia.
  destruct (2 ^ (- e))%Z as [|p|p] eqn:E; try lia.
  cbn [Z.to_pos]. unfold Qinv, inject_Z, Qeq; cbn. reflexivity.
Qed.

Lemma finite_val_nonneg : forall s m e, (0 <= e)%Z ->
  sign_Q s * inject_Z (Zpos m) * Qpower 2 e == inject_Z (sgnZ s m * 2 ^ e).
Proof.
  intros s m e He. rewrite sign_Q_inject, Qpower2_nonneg by exact He.
  rewrite inject_Z_mult. reflexivity.
Qed.

Lemma finite_val_neg : forall s m e, (e < 0)%Z ->
  sign_Q s * inject_Z (Zpos m) * Qpower 2 e == sgnZ s m # Z.to_pos (2 ^ (- e)).
Proof.
  intros s m e He. rewrite sign_Q_inject, Qpower2_neg by exact He.
  unfold Qeq, Qmult, inject_Z; cbn. lia.
Qed.

Lemma nearest_frac : forall (a k : Z) (p : positive),
  (Z.abs (2 * (a - k * Zpos p)) <= Zpos p)%Z -> nearest k (a # p).
Proof.
  intros a k p H. unfold nearest. apply Qabs_Qle_condition.
  unfold Qle, Qminus, Qplus, Qopp, inject_Z; cbn. split; lia.
Qed.

Definition rmag (m : positive) (e : Z) : Z :=
  if (0 <=? e)%Z then (Zpos m * 2 ^ e)%Z
  else (Zpos m / 2 ^ (- e) + (if (2 ^ (- e) <=? 2 * (Zpos m mod 2 ^ (- e)))%Z then 1 else 0))%Z.
Lemma round_finite : forall s m e,
  sf_round_half_away (S754_finite s m e) = Some (if s then (- rmag m e)%Z else rmag m e).
Proof. reflexivity. Qed.
Lemma sf2Q_finite : forall s m e,
  sf2Q (S754_finite s m e) = Some (sign_Q s * inject_Z (Zpos m) * Qpower 2 e).
Proof. reflexivity. Qed.

(* 1 *)
Theorem round_half_away_nearest : forall f n x, sf_round_half_away f = Some n -> sf2Q f = Some x -> nearest n x.
Proof.
  intros f n x Hr Hx. destruct f as [s| s | |s m e]; try discriminate Hx.
  - cbn in Hr, Hx. injection Hr as <-. injection Hx as <-.
    unfold nearest. apply Qabs_Qle_condition. unfold Qle; cbn. split; lia.
  - rewrite round_finite in Hr. rewrite sf2Q_finite in Hx.
    assert (Hn0 : n = if s then (- rmag m e)%Z else rmag m e) by congruence.
    assert (Hx0 : x = sign_Q s * inject_Z (Zpos m) * Qpower 2 e) by congruence.
    subst n x. clear Hr Hx. unfold rmag.
    destruct (0 <=? e)%Z eqn:Ee.
    + apply Z.leb_le in Ee. unfold nearest. rewrite finite_val_nonneg by exact Ee.
      assert (Hn : (if s then (- (Z.pos m * 2 ^ e))%Z else (Z.pos m * 2 ^ e)%Z) = (sgnZ s m * 2 ^ e)%Z)
        by (destruct s; unfold sgnZ; lia).
      rewrite Hn. apply Qabs_Qle_condition. unfold Qle, Qminus, Qplus, Qopp, inject_Z; cbn. split; lia.
    + apply Z.leb_gt in Ee.
      assert (Hp : (0 < 2 ^ (- e))%Z) by (apply Z.pow_pos_nonneg; lia).
      unfold nearest. rewrite finite_val_neg by exact Ee. fold (nearest
        (if s then (- (Z.pos m / 2 ^ (- e) + (if (2 ^ (- e) <=? 2 * (Z.pos m mod 2 ^ (- e)))%Z then 1 else 0)))%Z
         else (Z.pos m / 2 ^ (- e) + (if (2 ^ (- e) <=? 2 * (Z.pos m mod 2 ^ (- e)))%Z then 1 else 0))%Z)
        (sgnZ s m # Z.to_pos (2 ^ (- e)))).
      apply nearest_frac.
      destruct (2 ^ (- e))%Z as [|d|d] eqn:Ed; try lia. cbn [Z.to_pos].
      pose proof (Z.div_mod (Z.pos m) (Z.pos d) ltac:(lia)) as Hdm.
      pose proof (Z.mod_pos_bound (Z.pos m) (Z.pos d) ltac:(lia)) as Hb.
      set (q := (Z.pos m / Z.pos d)%Z) in *. set (r := (Z.pos m mod Z.pos d)%Z) in *.
      destruct (Z.pos d <=? 2 * r)%Z eqn:Et; [apply Z.leb_le in Et|apply Z.leb_gt in Et];
        destruct s; unfold sgnZ; nia.
Qed.

(* the half-away rule decides zero exactly: the result is 0 iff |x| < 1/2 *)
Lemma round_half_away_zero : forall f n x, sf_round_half_away f = Some n -> sf2Q f = Some x ->
  (n = 0%Z <-> Qabs x < 1 # 2).
Proof.
  intros f n x Hr Hx. destruct f as [s| s | |s m e]; try discriminate Hx.
  - cbn in Hr, Hx. injection Hr as <-. injection Hx as <-. split; [intros _; reflexivity|reflexivity].
  - rewrite round_finite in Hr. rewrite sf2Q_finite in Hx.
    assert (Hn0 : n = if s then (- rmag m e)%Z else rmag m e) by congruence.
    assert (Hx0 : x = sign_Q s * inject_Z (Zpos m) * Qpower 2 e) by congruence.
    subst n x. clear Hr Hx. unfold rmag.
    destruct (0 <=? e)%Z eqn:Ee.
    + apply Z.leb_le in Ee. rewrite finite_val_nonneg by exact Ee.
      assert (Hp : (0 < 2 ^ e)%Z) by (apply Z.pow_pos_nonneg; lia).
      split.
      * intros H. exfalso. destruct s; nia.
      * intros H. exfalso. revert H. unfold Qlt, Qabs, inject_Z; cbn. destruct s; unfold sgnZ; nia.
    + apply Z.leb_gt in Ee.
      assert (Hp : (0 < 2 ^ (- e))%Z) by (apply Z.pow_pos_nonneg; lia).
      rewrite finite_val_neg by exact Ee.
      destruct (2 ^ (- e))%Z as [|d|d] eqn:Ed; try lia. cbn [Z.to_pos].
      pose proof (Z.div_mod (Z.pos m) (Z.pos d) ltac:(lia)) as Hdm.
      pose proof (Z.mod_pos_bound (Z.pos m) (Z.pos d) ltac:(lia)) as Hb.
      assert (Hq : (0 <= Z.pos m / Z.pos d)%Z) by (apply Z.div_pos; lia).
      set (q := (Z.pos m / Z.pos d)%Z) in *. set (r := (Z.pos m mod Z.pos d)%Z) in *.
      assert (Habs : Qabs (sgnZ s m # d) = Z.pos m # d) by (destruct s; reflexivity).
      rewrite Habs. unfold Qlt; cbn [Qnum Qden].
      destruct (Z.pos d <=? 2 * r)%Z eqn:Et; [apply Z.leb_le in Et|apply Z.leb_gt in Et];
        (split; intros H; destruct s); nia.
Qed.

(* ---------------------------------------------------------------- *)
(* integer literals *)

Definition neg_of (s : list byte) : bool := match s with 45%N :: _ => true | _ => false end.

Lemma skip_while_all : forall p c, forallb p c = true -> skip_while p c = [].
Proof.
  intros p c. induction c as [|x c IH]; intros H; [reflexivity|].
  cbn [forallb] in H. apply andb_true_iff in H. destruct H as [Hx Hc].
  cbn [skip_while]. rewrite Hx. apply IH. exact Hc.
Qed.

Lemma take_digits_all : forall c, forallb is_digit c = true -> take_digits c = (c, []).
Proof.
  intros c H. unfold take_digits. rewrite (skip_while_all _ _ H).
  cbn [length]. rewrite Nat.sub_0_r, firstn_all. reflexivity.
Qed.

Lemma parse_nrf_int : forall s, skip_sign s <> [] -> forallb is_digit (skip_sign s) = true ->
  parse_nrf s = Some (neg_of s, digits_val (skip_sign s) 0, 0%Z).
Proof.
  intros s Hne Hd. unfold parse_nrf. rewrite (take_digits_all _ Hd).
  destruct (skip_sign s) as [|b l] eqn:Eb; [contradiction Hne; reflexivity|].
  cbv beta iota. rewrite app_nil_r. reflexivity.
Qed.

(* what lexical_parse_int returns when the literal is a plain integer *)
Lemma lexical_parse_int_inv : forall t s, lexical_parse_int t s <> IPInvalidDigit ->
  exists v, parse_nrf s = Some (neg_of s, v, 0%Z) /\
    lexical_parse_int t s =
      (let z := if neg_of s then (- Z.of_N v)%Z else Z.of_N v in
       if ((ity_min t <=? z)%Z && (z <=? ity_max t)%Z)%bool then IPValue z else IPRange).
Proof.
  intros t s H. unfold lexical_parse_int in *. fold (neg_of s) in *.
  destruct (skip_sign s) as [|b l] eqn:Eb; [contradiction H; reflexivity|].
  destruct (forallb is_digit (b :: l)) eqn:Ed; cbn [negb] in *; [|contradiction H; reflexivity].
  exists (digits_val (b :: l) 0). split; [|reflexivity].
  rewrite <- Eb. apply parse_nrf_int; rewrite Eb; [discriminate|exact Ed].
Qed.

Lemma lit2Q_int : forall neg v, lit2Q neg v 0 == inject_Z (if neg then (- Z.of_N v)%Z else Z.of_N v).
Proof.
  intros neg v. unfold lit2Q. generalize (Z.of_N v) as z. intros z.
  change (Qpower 10 0) with 1. destruct neg; unfold sign_Q, Qeq, Qmult, inject_Z; cbn [Qnum Qden]; lia.
Qed.

(* 3 *)
Theorem nr1_exact : forall t s z neg m e10, lexical_parse_int t s = IPValue z -> parse_nrf s = Some (neg, m, e10) ->
  lit2Q neg m e10 == inject_Z z.
Proof.
  intros t s z neg m e10 Hl Hp.
  destruct (lexical_parse_int_inv t s) as [v [Hv Hr]]; [rewrite Hl; discriminate|].
  rewrite Hv in Hp. injection Hp as <- <- <-.
  rewrite Hl in Hr. cbv zeta in Hr.
  destruct ((ity_min t <=? (if neg_of s then (- Z.of_N v)%Z else Z.of_N v))%Z &&
            ((if neg_of s then (- Z.of_N v)%Z else Z.of_N v) <=? ity_max t)%Z)%bool; [|discriminate Hr].
  injection Hr as ->. apply lit2Q_int.
Qed.

Theorem nr1_in_range : forall t s z, lexical_parse_int t s = IPValue z -> in_range t z.
Proof.
  intros t s z Hl.
  destruct (lexical_parse_int_inv t s) as [v [Hv Hr]]; [rewrite Hl; discriminate|].
  rewrite Hl in Hr. cbv zeta in Hr.
  destruct ((ity_min t <=? (if neg_of s then (- Z.of_N v)%Z else Z.of_N v))%Z &&
            ((if neg_of s then (- Z.of_N v)%Z else Z.of_N v) <=? ity_max t)%Z)%bool eqn:E; [|discriminate Hr].
  injection Hr as ->. apply andb_true_iff in E. destruct E as [E1 E2].
  apply Z.leb_le in E1. apply Z.leb_le in E2. split; assumption.
Qed.

(* the IPRange companion of (3): the literal is an exact integer outside the target range *)
Theorem nr1_range : forall t s neg m e10, lexical_parse_int t s = IPRange -> parse_nrf s = Some (neg, m, e10) ->
  exists z, lit2Q neg m e10 == inject_Z z /\ ~ in_range t z.
Proof.
  intros t s neg m e10 Hl Hp.
  destruct (lexical_parse_int_inv t s) as [v [Hv Hr]]; [rewrite Hl; discriminate|].
  rewrite Hv in Hp. injection Hp as <- <- <-.
  rewrite Hl in Hr. cbv zeta in Hr.
  exists (if neg_of s then (- Z.of_N v)%Z else Z.of_N v). split; [apply lit2Q_int|].
  destruct ((ity_min t <=? (if neg_of s then (- Z.of_N v)%Z else Z.of_N v))%Z &&
            ((if neg_of s then (- Z.of_N v)%Z else Z.of_N v) <=? ity_max t)%Z)%bool eqn:E; [discriminate Hr|].
  intros [H1 H2]. apply Z.leb_le in H1. apply Z.leb_le in H2. rewrite H1, H2 in E. discriminate E.
Qed.

Lemma nearest_exact : forall z q, q == inject_Z z -> nearest z q.
Proof.
  intros z q H. unfold nearest. rewrite H. apply Qabs_Qle_condition.
  unfold Qle, Qminus, Qplus, Qopp, inject_Z; cbn [Qnum Qden]. split; lia.
Qed.

Lemma ity_min_nonpos : forall t, (ity_min t <= 0)%Z.
Proof. intros t. destruct t; cbn; lia. Qed.
Lemma ity_min_le_max : forall t, (ity_min t <= ity_max t)%Z.
Proof. intros t. destruct t; cbn; lia. Qed.

(* 5 *)
Theorem int_result_in_range : forall t tok n, conv_int t tok = Val (Ok n) -> in_range t n.
Proof.
  intros t tok n H.
  destruct tok; try discriminate H.
  - rewrite int_keywords in H.
    destruct (mnemonic_compare kw_max s).
    + injection H as <-. split; [apply ity_min_le_max|lia].
    + destruct (mnemonic_compare kw_min s); [|discriminate H].
      injection H as <-. split; [lia|apply ity_min_le_max].
  - cbn [conv_int] in H.
    destruct (lexical_parse_int t s) eqn:El.
    + injection H as <-. eapply nr1_in_range; exact El.
    + destruct (parse_float (ity_float t) s) as [v|]; [|discriminate H].
      destruct (sf_round_half_away v) as [k|]; [|discriminate H].
      destruct ((ity_min t <=? k)%Z && (k <=? ity_max t)%Z)%bool eqn:E; [|discriminate H].
      injection H as <-. apply andb_true_iff in E. destruct E as [E1 E2].
      apply Z.leb_le in E1. apply Z.leb_le in E2. split; assumption.
    + discriminate H.
  - rewrite nondec_exact in H.
    destruct (Z.of_N n0 <=? ity_max t)%Z eqn:E; [|discriminate H].
    injection H as <-. apply Z.leb_le in E. pose proof (ity_min_nonpos t). split; lia.
Qed.

(* 4 *)
Theorem int_conv_correct : forall t s neg m e10, parse_nrf s = Some (neg, m, e10) ->
  exists r, conv_int t (TDec s) = Val r /\
    int_conv_ok t (lit2Q neg m e10) (dec2sf (f_prec (ity_float t)) (f_emax (ity_float t)) neg m e10) r.
Proof.
  intros t s neg m e10 Hp. cbn [conv_int].
  destruct (lexical_parse_int t s) as [z| |] eqn:El.
  - exists (Ok z). split; [reflexivity|]. left. exists z. split; [reflexivity|]. split.
    + eapply nr1_in_range; exact El.
    + left. apply nearest_exact. eapply nr1_exact; eassumption.
  - unfold parse_float. rewrite Hp.
    set (d := dec2sf (f_prec (ity_float t)) (f_emax (ity_float t)) neg m e10).
    destruct (sf_round_half_away d) as [n|] eqn:Er.
    + destruct (sf2Q d) as [dq|] eqn:Eq; [|apply round_half_away_none in Eq; rewrite Eq in Er; discriminate Er].
      pose proof (round_half_away_nearest d n dq Er Eq) as Hn.
      destruct ((ity_min t <=? n)%Z && (n <=? ity_max t)%Z)%bool eqn:E.
      * exists (Ok n). split; [reflexivity|]. left. exists n. split; [reflexivity|].
        apply andb_true_iff in E. destruct E as [E1 E2]. apply Z.leb_le in E1. apply Z.leb_le in E2.
        split; [split; assumption|]. right. exists dq. split; [exact Eq|exact Hn].
      * exists (Err DataOutOfRange). split; [reflexivity|]. right. split; [reflexivity|].
        left. exists n. split.
        -- intros [H1 H2]. apply Z.leb_le in H1. apply Z.leb_le in H2. rewrite H1, H2 in E. discriminate E.
        -- right. exists dq. split; [exact Eq|exact Hn].
    + exists (Err DataOutOfRange). split; [reflexivity|]. right. split; [reflexivity|].
      right. apply round_half_away_none. exact Er.
  - exists (Err DataOutOfRange). split; [reflexivity|]. right. split; [reflexivity|].
    left. destruct (nr1_range t s neg m e10 El Hp) as [z [Hz Hnr]].
    exists z. split; [exact Hnr|]. left. apply nearest_exact. exact Hz.
Qed.

(* 13 *)
Theorem bool_numeric : forall s neg m e10 b, parse_nrf s = Some (neg, m, e10) -> conv_bool (TDec s) = Val (Ok b) ->
  (b = false <-> exists x, sf2Q (dec2sf 53 1024 neg m e10) = Some x /\ Qabs x < 1 # 2).
Proof.
  intros s neg m e10 b Hp H. cbn [conv_bool] in H. unfold parse_float in H. rewrite Hp in H.
  change (f_prec F64) with 53%Z in H. change (f_emax F64) with 1024%Z in H.
  set (d := dec2sf 53 1024 neg m e10) in *.
  destruct (sf_round_half_away d) as [n|] eqn:Er.
  - destruct (sf2Q d) as [dq|] eqn:Eq; [|apply round_half_away_none in Eq; rewrite Eq in Er; discriminate Er].
    pose proof (round_half_away_zero d n dq Er Eq) as Hz.
    injection H as <-. split.
    + intros Hb. exists dq. split; [reflexivity|]. apply Hz.
      destruct (n =? 0)%Z eqn:En; [apply Z.eqb_eq in En; exact En|discriminate Hb].
    + intros [x [Hx Hlt]]. injection Hx as <-. apply Hz in Hlt. subst n. reflexivity.
  - injection H as <-. split; [intros Hb; discriminate Hb|].
    intros [x [Hx _]]. apply round_half_away_none in Er. rewrite Er in Hx. discriminate Hx.
Qed.

(* 14 *)
Theorem bool_numeric_total : forall s neg m e10, parse_nrf s = Some (neg, m, e10) -> exists b, conv_bool (TDec s) = Val (Ok b).
Proof.
  intros s neg m e10 Hp. cbn [conv_bool]. unfold parse_float. rewrite Hp.
  destruct (sf_round_half_away _); eexists; reflexivity.
Qed.

Print Assumptions int_conv_correct.
Print Assumptions round_half_away_nearest.
