(* ContribMeaning.v — the operation-level meaning (a list of the abstract operations of Status.v) of EVERY well-formed
   program message addressed to the mandated command tree of Contrib.v, in any spelling: short or long mnemonics, any
   letter case, absolute or relative headers, default nodes spelled or omitted, any white-space layout, any data
   elements (right, wrong, missing or too many).  The header is read by the designation relation of HeaderSpec.v; the
   command it designates and the unit's data elements determine the operations.  [contrib_refines_ops_all]
   (ContribMeaning_proofs.v) proves the byte-level full stack equal to the operation-level model on this meaning, which
   extends the canonical-text refinement of Contrib_proofs.v to all well-formed messages.
   Specification file: no proofs. *)
From VF Require Import Base Gen_Errors ErrTable Lexer Grammar Response Conv Tree HeaderSpec Queue Status Contrib ContribSpec MessageSpec.
Open Scope N_scope.

(* a data element the handler did not consume: -108 after the handler has run *)
Definition leftover (data : list token) : list sop :=
  match data with [] => [] | _ :: _ => [SFail (std_error ParameterNotAllowed)] end.
(* the form (command / query) the handler does not implement: Command::event / query default *)
Definition undefined_form : option (list sop) := Some [SFail (std_error UndefinedHeader)].
Definition no_arg (o : sop) (data : list token) : option (list sop) := Some (o :: leftover data).
(* one required integer parameter *)
Definition int_arg (t : ity) (data : list token) (k : N -> sop) : option (list sop) :=
  match data with
  | [] => Some [SFail (std_error MissingParameter)]
  | tok :: rest =>
    match conv_int t tok with
    | Val (Ok v) => Some (k (Z.to_N v) :: leftover rest)
    | Val (Err e) => Some [SFail (std_error e)]
    | Panic _ => None
    end
  end.

Definition reg_ops (r : regname) (k : N) (q : bool) (data : list token) : option (list sop) :=
  match k with
  | 1 => if q then no_arg (SReg r RRdEvent) data else undefined_form
  | 2 => if q then no_arg (SReg r RRdCondition) data else undefined_form
  | 3 => if q then no_arg (SReg r RRdEnable) data else int_arg U16 data (fun v => SReg r (RWrEnable v))
  | 4 => if q then no_arg (SReg r RRdNtr) data else int_arg U16 data (fun v => SReg r (RWrNtr v))
  | 5 => if q then no_arg (SReg r RRdPtr) data else int_arg U16 data (fun v => SReg r (RWrPtr v))
  | _ => None
  end.

(* the harness' own error-raising command, star-ERR code [, string] *)
Definition err_ops (data : list token) : option (list sop) :=
  match data with
  | [] => Some [SFail (std_error MissingParameter)]
  | tok :: rest =>
    match conv_int I16 tok with
    | Val (Ok code) =>
      let base := match get_error code with
                  | Some _ => std_error code
                  | None => mkError code (Some (b_ "Custom error")) None
                  end in
      match rest with
      | [] => Some [SFail base]
      | tok2 :: _ =>
        match conv_bytes BBytes tok2 with
        | Val (Ok x) => Some [SFail (mkError (ecode base) (ecustom base) (Some x))]
        | Val (Err e) => Some [SFail (std_error e)]
        | Panic _ => None
        end
      end
    | Val (Err e) => Some [SFail (std_error e)]
    | Panic _ => None
    end
  end.

(* command ids as in Contrib.v; None: no operation-level counterpart (the identification and version queries) *)
Definition cmd_ops (id : N) (q : bool) (data : list token) : option (list sop) :=
  match id with
  | 1 => if q then undefined_form else no_arg SCls data
  | 2 => if q then no_arg SRdEse data else int_arg U8 data SWrEse
  | 3 => if q then no_arg SRdEsr data else undefined_form
  | 4 => if q then None else undefined_form
  | 5 => if q then no_arg SOpcQ data else no_arg SOpc data
  | 6 => if q then undefined_form else no_arg SRst data
  | 7 => if q then no_arg SRdSre data else int_arg U8 data SWrSre
  | 8 => if q then no_arg SRdStb data else undefined_form
  | 9 => if q then no_arg STstQ data else undefined_form
  | 10 => if q then undefined_form else no_arg SWai data
  | 11 | 12 | 13 | 14 | 15 => reg_ops Oper (id - 10) q data
  | 21 | 22 | 23 | 24 | 25 => reg_ops Ques (id - 20) q data
  | 30 => if q then undefined_form else no_arg SPreset data
  | 31 => if q then no_arg SErrNext data else undefined_form
  | 32 => if q then no_arg SErrAll data else undefined_form
  | 33 => if q then no_arg SErrCount data else undefined_form
  | 34 => if q then None else undefined_form
  | 40 => if q then undefined_form else err_ops data
  | _ => None
  end.

Definition is_fail (o : sop) : bool := match o with SFail _ => true | _ => false end.

(* the units in order, the header-path context threaded as SCPI prescribes; the units after a failing one are never
   reached and do not matter *)
Fixpoint msg_ops (ctx : tree cdev) (us : list (munit * list byte)) : option (list sop) :=
  match us with
  | [] => Some []
  | (u, _) :: us' =>
    let h := u_header u in
    let from := if h_common h || h_absolute h then contrib_tree else ctx in
    match desig from from (header_path h) with
    | [] => Some [SFail (std_error UndefinedHeader)]
    | (c, ctx') :: _ =>
      match cmd_ops (cid c) (h_query h) (unit_data u) with
      | None => None
      | Some ops =>
        if existsb is_fail ops then Some ops
        else match msg_ops (if h_common h then ctx else ctx') us' with
             | Some r => Some (ops ++ r)
             | None => None
             end
      end
    end
  end.

Definition message_ops (m : msg) : option (list sop) := msg_ops contrib_tree (m_units m).

(* a session of well-formed messages from power-on *)
Fixpoint session_msgs (d : dev) (ms : list (bool * msg)) : dev :=
  match ms with
  | [] => d
  | (mav, m) :: ms' =>
    match message_ops m with
    | Some us => session_msgs (fst (fst (op_message d mav us))) ms'
    | None => d
    end
  end.

(* ---- one place where the operation-level model cannot follow the bytes of a FAILED message ----
   The dispatcher asks the formatter for a new response unit (which writes the unit separator `;` when something was
   written before) BEFORE it invokes a query handler.  When the query form does not exist (commands without a query
   form: their Command::query default fails with -113) the separator is already in the buffer, and SFail has no way
   to say so.  The device state and the returned error are not affected, only the bytes left in the buffer of the
   failed message.  [stray_separator m] says exactly when this happens. *)
Definition event_only (id : N) : bool := (id =? 1) || (id =? 6) || (id =? 10) || (id =? 30) || (id =? 40).
(* [written]: a previous unit of the message was a query *)
Fixpoint stray_sep (ctx : tree cdev) (us : list (munit * list byte)) (written : bool) : bool :=
  match us with
  | [] => false
  | (u, _) :: us' =>
    let h := u_header u in
    let from := if h_common h || h_absolute h then contrib_tree else ctx in
    match desig from from (header_path h) with
    | [] => false
    | (c, ctx') :: _ =>
      match cmd_ops (cid c) (h_query h) (unit_data u) with
      | None => false
      | Some ops =>
        if existsb is_fail ops then written && h_query h && event_only (cid c)
        else stray_sep (if h_common h then ctx else ctx') us' (written || h_query h)
      end
    end
  end.
Definition stray_separator (m : msg) : bool := stray_sep contrib_tree (m_units m) false.
Definition with_stray (m : msg) (r : dev * list byte * option error) : dev * list byte * option error :=
  let '(d', out, e) := r in (d', out ++ (if stray_separator m then [59] else []), e).
