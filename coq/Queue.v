(* Queue.v — model of the two ErrorQueue implementations of scpi/src/error.rs.
   Model file: no proofs. *)
From VF Require Import Base Gen_Errors.

Section Q.
  Variable A : Type.
  Variable ovf : A.                       (* ErrorCode::QueueOverflow.into() *)

  (* ArrayVec<Error, CAP>::push_back_error:
       if self.try_push(err).is_err() { let _ = self.pop().unwrap();
                                        self.try_push(QueueOverflow).unwrap(); } *)
  Definition aq_push (cap : nat) (q : list A) (e : A) : outcome (list A) :=
    if Nat.ltb (length q) cap then Val (q ++ [e])
    else match q with
         | [] => Panic "pop().unwrap() on empty ArrayVec (capacity 0)"
         | _ => Val (removelast q ++ [ovf])
         end.

  (* pop_at(0) / Vec::remove(0) guarded by is_empty *)
  Definition q_pop (q : list A) : option A * list A :=
    match q with [] => (None, []) | e :: q' => (Some e, q') end.

  (* Vec<Error>::push_back_error *)
  Definition vq_push (q : list A) (e : A) : list A := q ++ [e].

  Inductive qop := QPush (e : A) | QPop | QClear | QLen.
  Inductive qout := OPop (e : option A) | OLen (n : nat).

  (* cap = None : Vec queue; Some n : ArrayVec of capacity n *)
  Definition q_step (cap : option nat) (q : list A) (o : qop) : outcome (list A * list qout) :=
    match o with
    | QPush e =>
      match cap with
      | None => Val (vq_push q e, [])
      | Some c => let* q' := aq_push c q e in Val (q', [])
      end
    | QPop => let '(r, q') := q_pop q in Val (q', [OPop r])
    | QClear => Val ([], [])
    | QLen => Val (q, [OLen (length q)])
    end.

  Fixpoint q_run (cap : option nat) (q : list A) (ops : list qop) : outcome (list A * list qout) :=
    match ops with
    | [] => Val (q, [])
    | o :: ops' =>
      let* (q1, out1) := q_step cap q o in
      let* (q2, out2) := q_run cap q1 ops' in
      Val (q2, out1 ++ out2)
    end.
End Q.

Arguments QPush {A} e.
Arguments QPop {A}.
Arguments QClear {A}.
Arguments QLen {A}.
Arguments OPop {A} e.
Arguments OLen {A} n.

Definition queue_overflow_error : error := std_error QueueOverflow.
