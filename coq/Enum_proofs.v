(* Proofs about derived enums (Enum.v): from_mnemonic selects the first matching variant,
   TryFrom<Token>, response text and the response/parse round trip. *)
From Coq Require Import Lia ZifyBool ZifyN ZifyNat.
From VF Require Import Base Gen_Errors Lexer Mnemonic MnemonicSpec Mnemonic_proofs Enum.

Local Open Scope N_scope.

(* the mnemonics of the definition are pairwise non-matching: no datum matches two different variants *)
Definition no_overlap (defs : enum_def) : Prop :=
  forall i j mi mj s, nth_error defs i = Some mi -> nth_error defs j = Some mj ->
    mnemonic_match mi s = true -> mnemonic_match mj s = true -> i = j.
(* SCPI-shaped variant mnemonic: upper-case short form, optional lower-case rest, optional numeric suffix (no `*`) *)
Definition enum_shape (m : list byte) : Prop :=
  exists U L Dg, m = U ++ L ++ Dg /\ U <> [] /\ all_b is_upper U = true /\ all_b is_lower L = true /\ all_b is_digit Dg = true.

(* ---------- from_mnemonic ---------- *)
Lemma from_at_spec : forall defs s k i, from_mnemonic_at defs s k = Some i ->
  (k <= i)%nat /\
  (exists m, nth_error defs (i - k) = Some m /\ mnemonic_match m s = true) /\
  (forall j m, (j < i - k)%nat -> nth_error defs j = Some m -> mnemonic_match m s = false).
Proof.
  induction defs as [|m0 defs IH]; intros s k i H.
  - cbn in H. discriminate.
  - cbn [from_mnemonic_at] in H. destruct (mnemonic_match m0 s) eqn:E0.
    + inversion H; subst i. split; [lia|]. rewrite Nat.sub_diag. split.
      * exists m0. cbn. auto.
      * intros j m Hj. lia.
    + destruct (IH s (S k) i H) as (Hle & (m & Hn & Hm) & Hfirst).
      split; [lia|]. replace (i - k)%nat with (S (i - S k)) by lia. split.
      * exists m. cbn [nth_error]. auto.
      * intros j m' Hj Hnj. destruct j as [|j].
        -- cbn in Hnj. inversion Hnj; subst. exact E0.
        -- cbn [nth_error] in Hnj. apply (Hfirst j m'); [lia|assumption].
Qed.

Lemma from_at_none : forall defs s k, from_mnemonic_at defs s k = None <->
  (forall m, In m defs -> mnemonic_match m s = false).
Proof.
  induction defs as [|m0 defs IH]; intros s k.
  - cbn. split; [intros _ m []|reflexivity].
  - cbn [from_mnemonic_at]. destruct (mnemonic_match m0 s) eqn:E0.
    + split; [discriminate|]. intro H. rewrite (H m0 (or_introl eq_refl)) in E0. discriminate.
    + rewrite IH. split.
      * intros H m [<-|Hin]; auto.
      * intros H m Hin. apply H. right. assumption.
Qed.

Theorem from_sound : forall defs s i, from_mnemonic defs s = Some i ->
  exists m, nth_error defs i = Some m /\ mnemonic_match m s = true.
Proof.
  intros defs s i H. destruct (from_at_spec defs s 0 i H) as (_ & Hm & _).
  rewrite Nat.sub_0_r in Hm. exact Hm.
Qed.

Theorem from_first : forall defs s i j m, from_mnemonic defs s = Some i -> (j < i)%nat ->
  nth_error defs j = Some m -> mnemonic_match m s = false.
Proof.
  intros defs s i j m H Hj Hn. destruct (from_at_spec defs s 0 i H) as (_ & _ & Hf).
  apply (Hf j m); [lia|assumption].
Qed.

Theorem from_none : forall defs s, from_mnemonic defs s = None <->
  (forall m, In m defs -> mnemonic_match m s = false).
Proof. intros. apply from_at_none. Qed.

Theorem from_iff : forall defs s i m, no_overlap defs -> nth_error defs i = Some m ->
  (from_mnemonic defs s = Some i <-> mnemonic_match m s = true).
Proof.
  intros defs s i m Hno Hn. split.
  - intro H. destruct (from_sound defs s i H) as (m' & Hn' & Hm'). congruence.
  - intro Hm. destruct (from_mnemonic defs s) as [j|] eqn:E.
    + destruct (from_sound defs s j E) as (mj & Hnj & Hmj).
      f_equal. apply (Hno j i mj m s); assumption.
    + pose proof (proj1 (from_none defs s) E m (nth_error_In _ _ Hn)) as Hf. congruence.
Qed.

(* ---------- TryFrom<Token> ---------- *)
Theorem try_from_char : forall defs s, enum_try_from defs (TChar s) =
  match from_mnemonic defs s with Some i => Ok i | None => Err IllegalParameterValue end.
Proof. reflexivity. Qed.

Theorem try_from_other : forall defs tok, (forall s, tok <> TChar s) -> enum_try_from defs tok = Err DataTypeError.
Proof. intros defs tok H. destruct tok; try reflexivity. exfalso. apply (H s). reflexivity. Qed.

Theorem illegal_iff : forall defs s, enum_try_from defs (TChar s) = Err IllegalParameterValue <->
  (forall m, In m defs -> mnemonic_match m s = false).
Proof.
  intros defs s. rewrite <- from_none. cbn [enum_try_from].
  destruct (from_mnemonic defs s); split; intro H; try discriminate; reflexivity.
Qed.

Theorem mnemonic_own : forall defs i, mnemonic_of defs i = nth_error defs i.
Proof. reflexivity. Qed.

(* ---------- take_while / short_form / trailing_digits ---------- *)
Lemma take_while_app_stop : forall p A c R, all_b p A = true -> p c = false ->
  take_while p (A ++ c :: R) = A.
Proof.
  induction A as [|a A IH]; intros c R HA Hc.
  - cbn. rewrite Hc. reflexivity.
  - cbn in HA. apply andb_prop in HA. destruct HA as [Ha HA].
    cbn [app take_while]. rewrite Ha. f_equal. apply IH; assumption.
Qed.

Lemma take_while_all : forall p A, all_b p A = true -> take_while p A = A.
Proof.
  induction A as [|a A IH]; intro HA; [reflexivity|].
  cbn in HA. apply andb_prop in HA. destruct HA as [Ha HA].
  cbn [take_while]. rewrite Ha. f_equal. apply IH; assumption.
Qed.

Lemma all_b_app : forall p A B, all_b p (A ++ B) = all_b p A && all_b p B.
Proof. intros. apply forallb_app. Qed.

Lemma all_b_rev : forall p A, all_b p A = true -> all_b p (rev A) = true.
Proof.
  intros p A H. unfold all_b in *. rewrite forallb_forall in *. intros x Hx.
  apply H. apply in_rev. assumption.
Qed.

Lemma all_b_weaken : forall (p q : byte -> bool) A, (forall b, p b = true -> q b = true) ->
  all_b p A = true -> all_b q A = true.
Proof.
  intros p q A Hpq H. unfold all_b in *. rewrite forallb_forall in *. auto.
Qed.

Definition ud (c : byte) : bool := is_upper c || is_digit c.

Lemma trailing_digits_app : forall X c Dg, is_digit c = false -> all_b is_digit Dg = true ->
  trailing_digits ((X ++ [c]) ++ Dg) = Dg.
Proof.
  intros X c Dg Hc HD. unfold trailing_digits.
  rewrite rev_app_distr, rev_app_distr. cbn [rev app].
  rewrite take_while_app_stop; [apply rev_involutive|apply all_b_rev; assumption|assumption].
Qed.

Theorem short_form_shape : forall U L Dg, U <> [] -> all_b is_upper U = true -> all_b is_lower L = true -> all_b is_digit Dg = true ->
  short_form (U ++ L ++ Dg) = match L with [] => U ++ Dg | _ => U end.
Proof.
  intros U L Dg HU HUu HL HD. unfold short_form. fold ud.
  assert (HUud : all_b ud U = true).
  { apply (all_b_weaken is_upper); [|assumption]. intros b Hb. unfold ud. rewrite Hb. reflexivity. }
  destruct L as [|l L].
  - cbn [app]. apply take_while_all. rewrite all_b_app, HUud. cbn [andb].
    apply (all_b_weaken is_digit); [|assumption]. intros b Hb. unfold ud. rewrite Hb. apply orb_true_r.
  - cbn [app]. apply take_while_app_stop; [assumption|].
    cbn in HL. apply andb_prop in HL. destruct HL as [Hl _].
    unfold ud. rewrite (lower_not_upper _ Hl), (lower_not_digit _ Hl). reflexivity.
Qed.

Theorem response_form : forall U L Dg, U <> [] -> all_b is_upper U = true -> all_b is_lower L = true -> all_b is_digit Dg = true ->
  enum_response (U ++ L ++ Dg) = U ++ Dg.
Proof.
  intros U L Dg HU HUu HL HD. unfold enum_response.
  rewrite (short_form_shape U L Dg HU HUu HL HD).
  destruct L as [|l L].
  - cbn [app]. rewrite Nat.ltb_irrefl. reflexivity.
  - replace (length U <? length (U ++ (l :: L) ++ Dg))%nat with true
      by (symmetry; apply Nat.ltb_lt; rewrite !app_length; cbn [length]; lia).
    f_equal.
    destruct (exists_last' (l :: L)) as (L' & c & E); [discriminate|].
    rewrite E. rewrite app_assoc. rewrite (app_assoc U L' [c]).
    apply trailing_digits_app; [|assumption].
    apply lower_not_digit. apply (all_b_In is_lower (l :: L)); [assumption|].
    rewrite E. apply in_or_app. right. left. reflexivity.
Qed.

(* ---------- matching the own response ---------- *)
Lemma enum_shape_scpi : forall m, enum_shape m -> scpi_shape m.
Proof.
  intros m (U & L & Dg & E & HU & HUu & HL & HD).
  exists [], U, L, Dg. cbn [app]. repeat split; auto.
Qed.

Lemma strip_digits_letters : forall X Dg, X <> [] ->
  (forall b, In b X -> is_digit b = false) -> all_b is_digit Dg = true ->
  strip_digits (X ++ Dg) = (X, Dg).
Proof.
  intros X Dg HX Hnd HD. destruct (exists_last' X HX) as (X' & c & E). subst X.
  apply strip_digits_app; [|assumption]. apply Hnd. apply in_or_app. right. left. reflexivity.
Qed.

Theorem response_matches_own : forall m, enum_shape m -> mnemonic_match m (enum_response m) = true.
Proof.
  intros m Hs. rewrite (match_iff_spec m _ (enum_shape_scpi m Hs)).
  destruct Hs as (U & L & Dg & -> & HU & HUu & HL & HD).
  rewrite (response_form U L Dg HU HUu HL HD). unfold match_spec.
  assert (HUnd : forall b, In b U -> is_digit b = false).
  { intros b Hb. apply upper_not_digit. apply (all_b_In is_upper U); assumption. }
  assert (HULnd : forall b, In b (U ++ L) -> is_digit b = false).
  { intros b Hb. apply in_app_or in Hb. destruct Hb as [Hb|Hb]; [auto|].
    apply lower_not_digit. apply (all_b_In is_lower L); assumption. }
  rewrite app_assoc.
  rewrite (strip_digits_letters (U ++ L) Dg); [|destruct U; [congruence|discriminate]|assumption|assumption].
  rewrite (strip_digits_letters U Dg HU HUnd HD).
  rewrite bytes_eqb_refl. cbn [andb].
  rewrite short_of_head; [|intros b Hb; apply upper_not_lower; apply (all_b_In is_upper U); assumption|assumption].
  rewrite eqnc_refl. reflexivity.
Qed.

Theorem enum_roundtrip : forall defs i m, no_overlap defs -> nth_error defs i = Some m -> enum_shape m ->
  from_mnemonic defs (enum_response m) = Some i.
Proof.
  intros defs i m Hno Hn Hs. apply (from_iff defs _ i m Hno Hn). apply response_matches_own. assumption.
Qed.

Example enum_example : let defs := [[66;73;78;97;114;121]; [82;69;65;76]; [65;83;67;105;105;49]; [65;83;67;105;105;50]; [76;49;50;53]]%N in
  map enum_response defs = [[66;73;78]; [82;69;65;76]; [65;83;67;49]; [65;83;67;50]; [76;49;50;53]]%N
  /\ map (fun m => from_mnemonic defs (enum_response m)) defs = [Some 0; Some 1; Some 2; Some 3; Some 4]%nat.
Proof. vm_compute. split; reflexivity. Qed.

Print Assumptions from_sound.
Print Assumptions from_first.
Print Assumptions from_none.
Print Assumptions from_iff.
Print Assumptions try_from_char.
Print Assumptions try_from_other.
Print Assumptions illegal_iff.
Print Assumptions mnemonic_own.
Print Assumptions response_form.
Print Assumptions response_matches_own.
Print Assumptions enum_roundtrip.
Print Assumptions short_form_shape.
Print Assumptions enum_example.
