(* Contrib_anybytes.v — device-level guarantees of the mandated tree for ARBITRARY bytes (C13, C15, C16):
   not only for well-formed messages.  No grammar is used: the handlers of [contrib_tree] only ever perform one of
   eleven primitive device steps ([dstep]); by the lifting theorem of Tree_invariant.v the device after ANY byte
   string is reached from the initial one by finitely many such steps ([dev_message_reach]), followed by exactly one
   [push_error] when — and only when — the message fails.  Everything else is a property of the primitive steps. *)
From VF Require Import Base Gen_Errors Gen_Esr ErrTable ErrSpec ErrTable_proofs Lexer Response Conv Conv_proofs
  Tree Tree_proofs Tree_invariant Queue Status Contrib.
From Coq Require Import Lia.
Open Scope N_scope.

(* ------------------------------------------------------------------ *)
(* the primitive device steps of the mandated handlers                 *)
(* ------------------------------------------------------------------ *)

(* the register operations a STATus:… command performs: the five reads and the three writes of a u16 *)
Definition rop_cmd (o : rop) : Prop :=
  match o with
  | RRdEvent | RRdCondition | RRdEnable | RRdPtr | RRdNtr => True
  | RWrEnable v | RWrPtr v | RWrNtr v => v < 65536
  | RSet _ | RCls | RPreset => False
  end.

Inductive dstep (d : dev) : dev -> Prop :=
| ds_id : dstep d d                                                        (* pure queries, *RST, *WAI, every failing handler *)
| ds_cls : dstep d (scpi_cls d)                                            (* *CLS *)
| ds_ese : forall v, v < 256 -> dstep d (set_ese d v)                      (* *ESE <u8> *)
| ds_sre : forall v, v < 256 -> dstep d (set_sre d v)                      (* *SRE <u8> *)
| ds_esr : dstep d (set_esr d 0)                                           (* *ESR? *)
| ds_opc : dstep d (scpi_opc d)                                            (* *OPC *)
| ds_reg : forall r o, rop_cmd o ->
           dstep d (put_reg d r (fst (reg_step (get_reg d r) o)))          (* STATus:OPERation|QUEStionable:… *)
| ds_preset : dstep d (scpi_preset d)                                      (* STATus:PRESet *)
| ds_pop : forall e q, queue d = e :: q -> dstep d (set_queue d q)         (* SYSTem:ERRor[:NEXT]? *)
| ds_clear : dstep d (set_queue d []).                                     (* SYSTem:ERRor:ALL? *)

(* on the handlers' state (device, MAV): a device step; MAV is never touched *)
Definition cstep (s s' : cdev) : Prop := dstep (cd s) (cd s') /\ snd s' = snd s.

Lemma cstep_with : forall s d', dstep (cd s) d' -> cstep s (with_dev s d').
Proof. intros s d' H. split; [exact H|reflexivity]. Qed.
Lemma cstep_id : forall s, cstep s s.
Proof. intros s. split; [apply ds_id|reflexivity]. Qed.

Lemma rt_cstep_dstep : forall s s', rt_clos cstep s s' -> rt_clos dstep (cd s) (cd s') /\ snd s' = snd s.
Proof.
  intros s s' H. induction H as [s|a b c Hab [IH1 IH2] [Hbc1 Hbc2]].
  - split; [apply rt_refl|reflexivity].
  - split; [eapply rt_step; eassumption|congruence].
Qed.

(* ------------------------------------------------------------------ *)
(* every handler program of the tree performs at most one such step    *)
(* ------------------------------------------------------------------ *)
Section Handlers.
  Variable R : cdev -> cdev -> Prop.

  Lemma undefined_rel : forall s0 s, R s0 s -> prog_rel R s0 (undefined s).
  Proof. intros s0 s H. exact H. Qed.
  Lemma answer_rel : forall s0 s x, R s0 s -> prog_rel R s0 (answer s x).
  Proof. intros s0 s x H. exact H. Qed.
  Lemma pull_int_rel : forall t s0 s k, R s0 s ->
    (forall v, (ity_min t <= v <= ity_max t)%Z -> prog_rel R s0 (k v)) -> prog_rel R s0 (pull_int t s k).
  Proof.
    intros t s0 s k Hs Hk. unfold pull_int. cbn [prog_rel]. intros r _.
    destruct r as [tok| |e]; [|exact Hs|exact Hs].
    destruct (conv_int t tok) as [[v|e]|site] eqn:Hc; [|exact Hs|exact Hs].
    apply Hk. exact (int_result_in_range t tok v Hc).
  Qed.
End Handlers.

Definition contrib_cmd_list : list (command cdev) := [
  cls_cmd; ese_cmd; esr_cmd; idn_cmd; opc_cmd; rst_cmd; sre_cmd; stb_cmd; tst_cmd; wai_cmd;
  reg_query Oper RRdEvent (10 + 1); reg_query Oper RRdCondition (10 + 2); reg_both Oper RWrEnable RRdEnable (10 + 3);
  reg_both Oper RWrNtr RRdNtr (10 + 4); reg_both Oper RWrPtr RRdPtr (10 + 5);
  reg_query Ques RRdEvent (20 + 1); reg_query Ques RRdCondition (20 + 2); reg_both Ques RWrEnable RRdEnable (20 + 3);
  reg_both Ques RWrNtr RRdNtr (20 + 4); reg_both Ques RWrPtr RRdPtr (20 + 5);
  preset_cmd; err_next_cmd; err_all_cmd; err_count_cmd; version_cmd; err_cmd ].

Lemma tree_cmds_contrib : tree_cmds contrib_tree = contrib_cmd_list.
Proof. reflexivity. Qed.

Lemma u8_to_N : forall v, (ity_min U8 <= v <= ity_max U8)%Z -> Z.to_N v < 256.
Proof. intros v H. cbn [ity_min ity_max] in H. lia. Qed.
Lemma u16_to_N : forall v, (ity_min U16 <= v <= ity_max U16)%Z -> Z.to_N v < 65536.
Proof. intros v H. cbn [ity_min ity_max] in H. lia. Qed.

Lemma reg_query_step : forall r o id, rop_cmd o -> cmd_rel cstep (reg_query r o id).
Proof.
  intros r o id Ho s. unfold reg_query, cmd. cbn [ev qu]. split.
  - apply undefined_rel, cstep_id.
  - pose proof (ds_reg (cd s) r o Ho) as H.
    destruct (reg_step (get_reg (cd s) r) o) as [x out]. cbn [fst] in H.
    apply answer_rel, cstep_with. exact H.
Qed.
Lemma reg_both_step : forall r wr rd id, (forall v, v < 65536 -> rop_cmd (wr v)) -> cmd_rel cstep (reg_both r wr rd id).
Proof.
  intros r wr rd id Hwr s. unfold reg_both, cmd. cbn [ev qu]. split.
  - apply pull_int_rel; [apply cstep_id|]. intros v Hv. cbn [prog_rel].
    apply cstep_with. apply ds_reg. apply Hwr. apply u16_to_N. exact Hv.
  - apply answer_rel, cstep_id.
Qed.

Ltac cmd_start c := intros s; unfold c, cmd; cbn [ev qu]; split.

Lemma cls_step : cmd_rel cstep cls_cmd.
Proof. cmd_start cls_cmd; [cbn [prog_rel]; apply cstep_with, ds_cls|apply undefined_rel, cstep_id]. Qed.
Lemma ese_step : cmd_rel cstep ese_cmd.
Proof.
  cmd_start ese_cmd; [|apply answer_rel, cstep_id].
  apply pull_int_rel; [apply cstep_id|]. intros v Hv. cbn [prog_rel]. apply cstep_with, ds_ese, u8_to_N, Hv.
Qed.
Lemma esr_step : cmd_rel cstep esr_cmd.
Proof. cmd_start esr_cmd; [apply undefined_rel, cstep_id|apply answer_rel, cstep_with, ds_esr]. Qed.
Lemma idn_step : cmd_rel cstep idn_cmd.
Proof. cmd_start idn_cmd; [apply undefined_rel, cstep_id|cbn [prog_rel]; apply cstep_id]. Qed.
Lemma opc_step : cmd_rel cstep opc_cmd.
Proof. cmd_start opc_cmd; [cbn [prog_rel]; apply cstep_with, ds_opc|apply answer_rel, cstep_id]. Qed.
Lemma rst_step : cmd_rel cstep rst_cmd.
Proof. cmd_start rst_cmd; [cbn [prog_rel]; apply cstep_id|apply undefined_rel, cstep_id]. Qed.
Lemma sre_step : cmd_rel cstep sre_cmd.
Proof.
  cmd_start sre_cmd; [|apply answer_rel, cstep_id].
  apply pull_int_rel; [apply cstep_id|]. intros v Hv. cbn [prog_rel]. apply cstep_with, ds_sre, u8_to_N, Hv.
Qed.
Lemma stb_step : cmd_rel cstep stb_cmd.
Proof. cmd_start stb_cmd; [apply undefined_rel, cstep_id|apply answer_rel, cstep_id]. Qed.
Lemma tst_step : cmd_rel cstep tst_cmd.
Proof. cmd_start tst_cmd; [apply undefined_rel, cstep_id|apply answer_rel, cstep_id]. Qed.
Lemma wai_step : cmd_rel cstep wai_cmd.
Proof. cmd_start wai_cmd; [cbn [prog_rel]; apply cstep_id|apply undefined_rel, cstep_id]. Qed.
Lemma preset_step : cmd_rel cstep preset_cmd.
Proof. cmd_start preset_cmd; [cbn [prog_rel]; apply cstep_with, ds_preset|apply undefined_rel, cstep_id]. Qed.
Lemma err_next_step : cmd_rel cstep err_next_cmd.
Proof.
  cmd_start err_next_cmd; [apply undefined_rel, cstep_id|].
  destruct (queue (cd s)) as [|e q] eqn:Hq.
  - apply answer_rel, cstep_id.
  - apply answer_rel, cstep_with. eapply ds_pop. exact Hq.
Qed.
Lemma err_all_step : cmd_rel cstep err_all_cmd.
Proof.
  cmd_start err_all_cmd; [apply undefined_rel, cstep_id|].
  destruct (queue (cd s)) as [|e q] eqn:Hq.
  - apply answer_rel, cstep_id.
  - cbn [prog_rel]. clear Hq e. induction q as [|x l IH]; cbn [prog_rel].
    + apply cstep_with, ds_clear.
    + exact IH.
Qed.
Lemma err_count_step : cmd_rel cstep err_count_cmd.
Proof. cmd_start err_count_cmd; [apply undefined_rel, cstep_id|apply answer_rel, cstep_id]. Qed.
Lemma version_step : cmd_rel cstep version_cmd.
Proof. cmd_start version_cmd; [apply undefined_rel, cstep_id|apply answer_rel, cstep_id]. Qed.
(* the harness' *ERR: every way it ends returns an error and leaves the device alone *)
Lemma err_step : cmd_rel cstep err_cmd.
Proof.
  cmd_start err_cmd; [|apply undefined_rel, cstep_id].
  apply pull_int_rel; [apply cstep_id|]. intros code Hcode. cbn [prog_rel]. intros r _.
  destruct r as [tok| |e]; try apply cstep_id.
  destruct (conv_bytes BBytes tok) as [[x|e]|site]; apply cstep_id.
Qed.

Lemma contrib_cmds_step : forall c, In c (tree_cmds contrib_tree) -> cmd_rel cstep c.
Proof.
  intros c Hc. rewrite tree_cmds_contrib in Hc.
  assert (HF : Forall (cmd_rel cstep) contrib_cmd_list); [|rewrite Forall_forall in HF; exact (HF c Hc)].
  clear c Hc. unfold contrib_cmd_list.
  assert (Hw1 : forall v, v < 65536 -> rop_cmd (RWrEnable v)) by (intros v Hv; exact Hv).
  assert (Hw2 : forall v, v < 65536 -> rop_cmd (RWrNtr v)) by (intros v Hv; exact Hv).
  assert (Hw3 : forall v, v < 65536 -> rop_cmd (RWrPtr v)) by (intros v Hv; exact Hv).
  repeat apply Forall_cons; try apply Forall_nil;
    try (apply reg_query_step; exact I); try (apply reg_both_step; assumption).
  - apply cls_step.
  - apply ese_step.
  - apply esr_step.
  - apply idn_step.
  - apply opc_step.
  - apply rst_step.
  - apply sre_step.
  - apply stb_step.
  - apply tst_step.
  - apply wai_step.
  - apply preset_step.
  - apply err_next_step.
  - apply err_all_step.
  - apply err_count_step.
  - apply version_step.
  - apply err_step.
Qed.

(* ------------------------------------------------------------------ *)
(* the reachability theorem: ANY bytes                                 *)
(* ------------------------------------------------------------------ *)
Theorem contrib_run_reach : forall input (s : cdev) f r, run contrib_tree input s f = Val r ->
  rt_clos dstep (cd s) (cd (r_dev r)) /\ snd (r_dev r) = snd s.
Proof.
  intros input s f r H. apply rt_cstep_dstep.
  exact (run_lifts_closure cstep contrib_tree contrib_cmds_step input s f r H).
Qed.

Theorem dev_message_reach : forall d mav bytes d' out r,
  dev_message d mav bytes = Val (d', out, r) ->
  exists dh, rt_clos dstep d dh /\
    match r with
    | None => d' = dh
    | Some e => d' = push_error dh e
    end.
Proof.
  intros d mav bytes d' out r H. unfold dev_message in H.
  destruct (run contrib_tree bytes (d, mav) (mkFmt None [])) as [rr|site] eqn:Hr; [|discriminate H].
  cbn [obind] in H. apply contrib_run_reach in Hr. destruct Hr as [Hr _]. cbn [cd fst] in Hr.
  exists (cd (r_dev rr)). split; [exact Hr|].
  destruct (r_err rr) as [e|]; inversion H; subst; reflexivity.
Qed.

Corollary dev_message_total : forall d mav bytes, exists r, dev_message d mav bytes = Val r.
Proof.
  intros d mav bytes. unfold dev_message.
  destruct (run_total contrib_tree bytes (d, mav) (mkFmt None [])) as [rr Hr]. rewrite Hr. cbn [obind].
  eexists; reflexivity.
Qed.

(* ------------------------------------------------------------------ *)
(* how the queue can evolve                                            *)
(* ------------------------------------------------------------------ *)
Definition opc_event : error := std_error OperationComplete.

(* obtained by repeatedly popping the front, clearing, or appending an operation-complete event *)
Inductive queue_evolves (q : list error) : list error -> Prop :=
| qe_refl : queue_evolves q q
| qe_pop : forall e q', queue_evolves q (e :: q') -> queue_evolves q q'
| qe_clear : forall q', queue_evolves q q' -> queue_evolves q []
| qe_opc : forall q', queue_evolves q q' -> queue_evolves q (q' ++ [opc_event]).

Lemma queue_evolves_trans : forall a b c, queue_evolves a b -> queue_evolves b c -> queue_evolves a c.
Proof.
  intros a b c Hab Hbc. induction Hbc as [|e q' H IH|q' H IH|q' H IH].
  - exact Hab.
  - eapply qe_pop; exact IH.
  - eapply qe_clear; exact IH.
  - apply qe_opc; exact IH.
Qed.

Lemma queue_evolves_in : forall q q', queue_evolves q q' ->
  forall e, In e q' -> In e q \/ e = opc_event.
Proof.
  intros q q' H. induction H as [|e0 q' H IH|q' H IH|q' H IH]; intros e Hin.
  - left; exact Hin.
  - apply IH. right. exact Hin.
  - destruct Hin.
  - apply in_app_iff in Hin. destruct Hin as [Hin|[Hin|[]]].
    + apply IH; exact Hin.
    + right. symmetry. exact Hin.
Qed.

(* closed form: a suffix of the old queue (its entries in their order, without gaps) followed by
   operation-complete events only *)
Lemma skipn_S_tl : forall {A} n (q : list A), skipn (S n) q = tl (skipn n q).
Proof.
  intros A n. induction n as [|n IH]; intros q.
  - destruct q; reflexivity.
  - destruct q as [|x q]; [reflexivity|]. cbn [skipn] in IH |- *. apply IH.
Qed.
Lemma repeat_snoc : forall {A} (a : A) k, repeat a k ++ [a] = repeat a (S k).
Proof. intros A a k. induction k as [|k IH]; [reflexivity|]. cbn [repeat app] in *. rewrite IH. reflexivity. Qed.

Theorem queue_evolves_shape : forall q q',
  queue_evolves q q' <-> exists n k, q' = skipn n q ++ repeat opc_event k.
Proof.
  intros q q'. split.
  - intros H. induction H as [|e q' H IH|q' H IH|q' H IH].
    + exists 0%nat, 0%nat. cbn [skipn repeat]. rewrite app_nil_r. reflexivity.
    + destruct IH as [n [k IH]].
      destruct (skipn n q) as [|x r] eqn:Hs.
      * destruct k as [|k]; [discriminate IH|]. cbn [repeat app] in IH. inversion IH; subst.
        exists n, k. rewrite Hs. reflexivity.
      * cbn [app] in IH. inversion IH; subst.
        exists (S n), k. rewrite skipn_S_tl, Hs. reflexivity.
    + exists (length q), 0%nat. rewrite skipn_all. reflexivity.
    + destruct IH as [n [k IH]]. exists n, (S k). rewrite IH, <- app_assoc, repeat_snoc. reflexivity.
  - intros [n [k H]]. subst q'.
    assert (Hn : queue_evolves q (skipn n q)).
    { induction n as [|n IH]; [apply qe_refl|].
      rewrite skipn_S_tl. destruct (skipn n q) as [|x r]; [exact IH|].
      cbn [tl]. eapply qe_pop; exact IH. }
    induction k as [|k IH].
    + cbn [repeat]. rewrite app_nil_r. exact Hn.
    + rewrite <- repeat_snoc, app_assoc. apply qe_opc. exact IH.
Qed.

(* ------------------------------------------------------------------ *)
(* what the mandated handlers may do to the device: nothing that looks like a new error *)
(* ------------------------------------------------------------------ *)
Definition err_bits : N := 60.   (* ESR bits 2..5: query, device-specific, execution, command error *)

Record quiet_step (d d' : dev) : Prop := {
  (* nothing new in the queue but operation-complete events *)
  qs_queue : forall e, In e (queue d') -> In e (queue d) \/ e = std_error OperationComplete;
  (* pops of the front, clears, appended operation-complete events:
     queue d' = skipn n (queue d) ++ repeat (std_error OperationComplete) k  (queue_evolves_shape) *)
  qs_order : queue_evolves (queue d) (queue d');
  (* no error bit appears … *)
  qs_esr : forall i, N.testbit err_bits i = true -> N.testbit (esr d') i = true -> N.testbit (esr d) i = true;
  (* … in fact no bit at all except bit 0 (operation complete) *)
  qs_esr_all : forall i, N.testbit (esr d') i = true -> N.testbit (esr d) i = true \/ i = 0;
  qs_tst : tst_result d' = tst_result d
}.

Lemma mk_quiet : forall d d', queue_evolves (queue d) (queue d') ->
  (forall i, N.testbit (esr d') i = true -> N.testbit (esr d) i = true \/ i = 0) ->
  tst_result d' = tst_result d -> quiet_step d d'.
Proof.
  intros d d' Hq He Ht. constructor.
  - intros e Hin. exact (queue_evolves_in _ _ Hq e Hin).
  - exact Hq.
  - intros i Hi H. destruct (He i H) as [H'|H']; [exact H'|]. subst i. discriminate Hi.
  - exact He.
  - exact Ht.
Qed.

Lemma quiet_step_refl : forall d, quiet_step d d.
Proof. intros d. apply mk_quiet; [apply qe_refl| |reflexivity]. intros i H. left. exact H. Qed.

Lemma quiet_step_trans : forall a b c, quiet_step a b -> quiet_step b c -> quiet_step a c.
Proof.
  intros a b c Hab Hbc. apply mk_quiet.
  - eapply queue_evolves_trans; [exact (qs_order _ _ Hab)|exact (qs_order _ _ Hbc)].
  - intros i H. destruct (qs_esr_all _ _ Hbc i H) as [H'|H']; [|right; exact H'].
    exact (qs_esr_all _ _ Hab i H').
  - rewrite (qs_tst _ _ Hbc). exact (qs_tst _ _ Hab).
Qed.

Lemma opc_mask : error_esr_mask (std_error OperationComplete) = 1.
Proof. reflexivity. Qed.

Lemma testbit_1 : forall i, N.testbit 1 i = true -> i = 0.
Proof. intros [|p] H; [reflexivity|]. destruct p; discriminate H. Qed.

Lemma dstep_quiet : forall d d', dstep d d' -> quiet_step d d'.
Proof.
  intros d d' H. destruct H as [| |v Hv|v Hv| | |r o Ho| |e q Hq|].
  - apply quiet_step_refl.
  - apply mk_quiet; cbn [scpi_cls set_queue set_ques set_oper set_esr queue esr tst_result].
    + eapply qe_clear, qe_refl.
    + intros i H. rewrite N.bits_0 in H. discriminate H.
    + reflexivity.
  - apply mk_quiet; cbn [set_ese queue esr tst_result]; [apply qe_refl| |reflexivity]. intros i H; left; exact H.
  - apply mk_quiet; cbn [set_sre queue esr tst_result]; [apply qe_refl| |reflexivity]. intros i H; left; exact H.
  - apply mk_quiet; cbn [set_esr queue esr tst_result]; [apply qe_refl| |reflexivity].
    intros i H. rewrite N.bits_0 in H. discriminate H.
  - apply mk_quiet; unfold scpi_opc; rewrite opc_mask; cbn [set_esr set_queue queue esr tst_result].
    + apply qe_opc, qe_refl.
    + intros i H. rewrite N.lor_spec in H. apply orb_true_iff in H. destruct H as [H|H]; [left; exact H|].
      right. apply testbit_1. exact H.
    + reflexivity.
  - apply mk_quiet; destruct r; cbn [put_reg set_oper set_ques queue esr tst_result]; try apply qe_refl;
      try reflexivity; intros i H; left; exact H.
  - apply mk_quiet; cbn [scpi_preset set_oper set_ques queue esr tst_result]; [apply qe_refl| |reflexivity].
    intros i H; left; exact H.
  - apply mk_quiet; cbn [set_queue queue esr tst_result]; [| |reflexivity].
    + rewrite Hq. eapply qe_pop, qe_refl.
    + intros i H; left; exact H.
  - apply mk_quiet; cbn [set_queue queue esr tst_result]; [| |reflexivity].
    + eapply qe_clear, qe_refl.
    + intros i H; left; exact H.
Qed.

Lemma reach_quiet : forall d d', rt_clos dstep d d' -> quiet_step d d'.
Proof.
  intros d d' H. induction H as [d|a b c Hab IH Hbc].
  - apply quiet_step_refl.
  - eapply quiet_step_trans; [exact IH|apply dstep_quiet; exact Hbc].
Qed.

(* ------------------------------------------------------------------ *)
(* C13 for ANY bytes                                                   *)
(* ------------------------------------------------------------------ *)
Theorem dev_message_any_bytes : forall d mav bytes d' out r,
  dev_message d mav bytes = Val (d', out, r) ->
  exists dh, quiet_step d dh /\
    match r with
    | None => d' = dh
    | Some e => d' = push_error dh e
    end.
Proof.
  intros d mav bytes d' out r H. destruct (dev_message_reach _ _ _ _ _ _ H) as [dh [Hr Hd]].
  exists dh. split; [apply reach_quiet; exact Hr|exact Hd].
Qed.

Lemma land_lor_same : forall a m, N.land (N.lor a m) m = m.
Proof.
  intros a m. apply N.bits_inj. intros i. rewrite N.land_spec, N.lor_spec.
  destruct (N.testbit a i), (N.testbit m i); reflexivity.
Qed.

(* a message that fails — for whatever reason: lexical garbage, unknown header, wrong arity, conversion, a handler's
   own error, a formatter error — appends exactly its error, last, and sets the bit of its class; whatever else is in
   the queue was there before or is an operation-complete event; no OTHER error bit appears *)
Corollary any_failed_message_queues_its_error_last : forall d mav bytes d' out e,
  dev_message d mav bytes = Val (d', out, Some e) ->
  exists q, queue d' = q ++ [e] /\ (forall x, In x q -> In x (queue d) \/ x = std_error OperationComplete)
  /\ N.land (esr d') (error_esr_mask e) = error_esr_mask e
  /\ (forall i, N.testbit err_bits i = true -> N.testbit (esr d') i = true ->
        N.testbit (esr d) i = true \/ N.testbit (error_esr_mask e) i = true).
Proof.
  intros d mav bytes d' out e H. destruct (dev_message_any_bytes _ _ _ _ _ _ H) as [dh [Hq Hd]]. subst d'.
  exists (queue dh). cbn [push_error set_queue set_esr queue esr].
  split; [reflexivity|]. split; [exact (qs_queue _ _ Hq)|]. split; [apply land_lor_same|].
  intros i Hi Hb. rewrite N.lor_spec in Hb. apply orb_true_iff in Hb. destruct Hb as [Hb|Hb].
  - left. exact (qs_esr _ _ Hq i Hi Hb).
  - right. exact Hb.
Qed.

(* the same with the order of the surviving entries and the remaining state made explicit *)
Corollary any_failed_message_exact : forall d mav bytes d' out e,
  dev_message d mav bytes = Val (d', out, Some e) ->
  exists n k dh,
    queue d' = skipn n (queue d) ++ repeat (std_error OperationComplete) k ++ [e]
    /\ esr d' = N.lor (esr dh) (error_esr_mask e)
    /\ (forall i, N.testbit (esr dh) i = true -> N.testbit (esr d) i = true \/ i = 0)
    /\ tst_result d' = tst_result d
    /\ ese d' = ese dh /\ sre d' = sre dh /\ oper d' = oper dh /\ ques d' = ques dh.
Proof.
  intros d mav bytes d' out e H. destruct (dev_message_any_bytes _ _ _ _ _ _ H) as [dh [Hq Hd]]. subst d'.
  destruct (proj1 (queue_evolves_shape _ _) (qs_order _ _ Hq)) as [n [k Hs]].
  exists n, k, dh. cbn [push_error set_queue set_esr queue esr ese sre oper ques tst_result].
  split; [rewrite Hs, <- app_assoc; reflexivity|]. split; [reflexivity|].
  split; [exact (qs_esr_all _ _ Hq)|]. split; [exact (qs_tst _ _ Hq)|].
  repeat split; reflexivity.
Qed.

(* a message that succeeds queues no error and sets no error bit: only *OPC records its event *)
Corollary any_successful_message_queues_no_error : forall d mav bytes d' out,
  dev_message d mav bytes = Val (d', out, None) ->
  (forall x, In x (queue d') -> In x (queue d) \/ x = std_error OperationComplete)
  /\ (forall i, N.testbit err_bits i = true -> N.testbit (esr d') i = true -> N.testbit (esr d) i = true).
Proof.
  intros d mav bytes d' out H. destruct (dev_message_any_bytes _ _ _ _ _ _ H) as [dh [Hq Hd]]. subst d'.
  split; [exact (qs_queue _ _ Hq)|exact (qs_esr _ _ Hq)].
Qed.

Corollary any_successful_message_exact : forall d mav bytes d' out,
  dev_message d mav bytes = Val (d', out, None) ->
  (exists n k, queue d' = skipn n (queue d) ++ repeat (std_error OperationComplete) k)
  /\ (forall i, N.testbit (esr d') i = true -> N.testbit (esr d) i = true \/ i = 0)
  /\ tst_result d' = tst_result d.
Proof.
  intros d mav bytes d' out H. destruct (dev_message_any_bytes _ _ _ _ _ _ H) as [dh [Hq Hd]]. subst d'.
  split; [exact (proj1 (queue_evolves_shape _ _) (qs_order _ _ Hq))|].
  split; [exact (qs_esr_all _ _ Hq)|exact (qs_tst _ _ Hq)].
Qed.

(* ------------------------------------------------------------------ *)
(* C15/C16: register sanity for ANY bytes                              *)
(* ------------------------------------------------------------------ *)
Ltac splits := repeat match goal with |- _ /\ _ => split end.

Definition reg_ok (r : evreg) : Prop :=
  condition r < 65536 /\ event r < 65536 /\ enable r < 65536 /\ ntr_filter r < 65536 /\ ptr_filter r < 65536.
Definition regs_ok (d : dev) : Prop :=
  ese d < 256 /\ sre d < 256 /\ esr d < 256 /\ reg_ok (oper d) /\ reg_ok (ques d).

Lemma regs_ok_init : regs_ok dev_init.
Proof. unfold regs_ok, reg_ok, dev_init, reg_default, m16. cbn. lia. Qed.

Lemma lor_lt_256 : forall a b, a < 256 -> b < 256 -> N.lor a b < 256.
Proof.
  intros a b Ha Hb.
  rewrite <- (N.mod_small a 256 Ha), <- (N.mod_small b 256 Hb).
  change 256 with (2 ^ 8). rewrite <- !N.land_ones, <- N.land_lor_distr_l, N.land_ones.
  apply N.mod_lt. discriminate.
Qed.

Lemma error_esr_mask_lt : forall e, error_esr_mask e < 256.
Proof.
  intros e. unfold error_esr_mask. rewrite esr_mask_class_bit. unfold class_bit.
  repeat match goal with |- context [if ?b then _ else _] => destruct b end; lia.
Qed.

Lemma reg_step_ok : forall r o, rop_cmd o -> reg_ok r -> reg_ok (fst (reg_step r o)).
Proof.
  intros r o Ho [H1 [H2 [H3 [H4 H5]]]]. unfold reg_ok.
  destruct o; cbn [rop_cmd] in Ho; try contradiction;
    cbn [reg_step fst reg_clear_event condition event enable ntr_filter ptr_filter]; splits; try assumption; lia.
Qed.

Lemma dstep_regs_ok : forall d d', dstep d d' -> regs_ok d -> regs_ok d'.
Proof.
  intros d d' H [He [Hs [Hr [Ho Hq]]]]. destruct H as [| |v Hv|v Hv| | |r o Hop| |e q Hqq|]; unfold regs_ok.
  - splits; assumption.
  - cbn [scpi_cls set_queue set_ques set_oper set_esr ese sre esr oper ques].
    destruct Ho as [H1 [H2 [H3 [H4 H5]]]], Hq as [G1 [G2 [G3 [G4 G5]]]]. unfold reg_ok.
    cbn [reg_clear_event condition event enable ntr_filter ptr_filter]. splits; try assumption; lia.
  - cbn [set_ese ese sre esr oper ques]. splits; assumption.
  - cbn [set_sre ese sre esr oper ques]. splits; assumption.
  - cbn [set_esr ese sre esr oper ques]. splits; try assumption. lia.
  - unfold scpi_opc. rewrite opc_mask. cbn [set_esr set_queue ese sre esr oper ques].
    splits; try assumption. apply lor_lt_256; [exact Hr|lia].
  - destruct r; cbn [put_reg get_reg set_oper set_ques ese sre esr oper ques]; splits; try assumption;
      apply reg_step_ok; assumption.
  - cbn [scpi_preset set_oper set_ques ese sre esr oper ques].
    destruct Ho as [H1 [H2 [H3 [H4 H5]]]], Hq as [G1 [G2 [G3 [G4 G5]]]]. unfold reg_ok.
    cbn [reg_preset condition event enable ntr_filter ptr_filter]. unfold m16. splits; try assumption; lia.
  - cbn [set_queue ese sre esr oper ques]. splits; assumption.
  - cbn [set_queue ese sre esr oper ques]. splits; assumption.
Qed.

Lemma push_error_regs_ok : forall d e, regs_ok d -> regs_ok (push_error d e).
Proof.
  intros d e [He [Hs [Hr [Ho Hq]]]]. unfold regs_ok, push_error.
  cbn [set_queue set_esr ese sre esr oper ques]. splits; try assumption.
  apply lor_lt_256; [exact Hr|apply error_esr_mask_lt].
Qed.

Theorem dev_message_preserves_regs_ok : forall d mav bytes d' out r,
  regs_ok d -> dev_message d mav bytes = Val (d', out, r) -> regs_ok d'.
Proof.
  intros d mav bytes d' out r Hd H. destruct (dev_message_reach _ _ _ _ _ _ H) as [dh [Hr Hd']].
  assert (Hh : regs_ok dh).
  { clear Hd' H. induction Hr as [d|a b c Hab IH Hbc]; [exact Hd|].
    eapply dstep_regs_ok; [exact Hbc|apply IH; exact Hd]. }
  destruct r as [e|]; subst d'; [apply push_error_regs_ok|]; exact Hh.
Qed.

(* sessions: any sequence of byte strings from power-on keeps the registers sane *)
Fixpoint dev_session (d : dev) (msgs : list (bool * list byte)) : outcome dev :=
  match msgs with
  | [] => Val d
  | (mav, m) :: msgs' => let* r := dev_message d mav m in dev_session (fst (fst r)) msgs'
  end.
Corollary dev_session_regs_ok : forall msgs d d', regs_ok d -> dev_session d msgs = Val d' -> regs_ok d'.
Proof.
  induction msgs as [|[mav m] msgs IH]; intros d d' Hd H; cbn [dev_session] in H.
  - inversion H; subst. exact Hd.
  - destruct (dev_message d mav m) as [[[d1 out] r]|site] eqn:Hm; [|discriminate H]. cbn [obind fst] in H.
    eapply IH; [|exact H]. eapply dev_message_preserves_regs_ok; eassumption.
Qed.
Corollary dev_session_total : forall msgs d, exists d', dev_session d msgs = Val d'.
Proof.
  induction msgs as [|[mav m] msgs IH]; intros d; cbn [dev_session].
  - eexists; reflexivity.
  - destruct (dev_message_total d mav m) as [r Hr]. rewrite Hr. cbn [obind]. apply IH.
Qed.

(* ------------------------------------------------------------------ *)
(* non-vacuity                                                         *)
(* ------------------------------------------------------------------ *)
(* garbage in the middle: *ESE 32;*OPC;<double quote>unterminated — the first two units run; the lexer reports the
   quote in header position as a command header error (-110), which aborts the message *)
Definition ex_garbage : list byte := b_ "*ESE 32;*OPC;""unterminated".
Definition ex_garbage_dev : dev :=
  mkDev [std_error OperationComplete; std_error CommandHeaderError] 33 32 0 reg_default reg_default None.

Example ex_garbage_runs :
  dev_message dev_init false ex_garbage = Val (ex_garbage_dev, [], Some (std_error CommandHeaderError)).
Proof. vm_compute. reflexivity. Qed.

Example ex_garbage_conclusions :
  (exists q, queue ex_garbage_dev = q ++ [std_error CommandHeaderError]
     /\ (forall x, In x q -> In x (queue dev_init) \/ x = std_error OperationComplete)
     /\ N.land (esr ex_garbage_dev) (error_esr_mask (std_error CommandHeaderError)) = error_esr_mask (std_error CommandHeaderError)
     /\ (forall i, N.testbit err_bits i = true -> N.testbit (esr ex_garbage_dev) i = true ->
           N.testbit (esr dev_init) i = true \/ N.testbit (error_esr_mask (std_error CommandHeaderError)) i = true))
  /\ error_esr_mask (std_error CommandHeaderError) = 32 /\ regs_ok ex_garbage_dev.
Proof.
  split; [exact (any_failed_message_queues_its_error_last _ _ _ _ _ _ ex_garbage_runs)|].
  split; [reflexivity|].
  exact (dev_message_preserves_regs_ok _ _ _ _ _ _ regs_ok_init ex_garbage_runs).
Qed.

(* the same garbage in data position: *ESE 32;*OPC;*ESE <double quote>unterminated — an unterminated string (-151) *)
Definition ex_garbage2 : list byte := b_ "*ESE 32;*OPC;*ESE ""unterminated".
Definition ex_garbage2_dev : dev :=
  mkDev [std_error OperationComplete; std_error InvalidStringData] 33 32 0 reg_default reg_default None.

Example ex_garbage2_runs :
  dev_message dev_init false ex_garbage2 = Val (ex_garbage2_dev, [], Some (std_error InvalidStringData)).
Proof. vm_compute. reflexivity. Qed.

Example ex_garbage2_conclusions :
  exists n k dh,
    queue ex_garbage2_dev = skipn n (queue dev_init) ++ repeat (std_error OperationComplete) k ++ [std_error InvalidStringData]
    /\ esr ex_garbage2_dev = N.lor (esr dh) (error_esr_mask (std_error InvalidStringData))
    /\ (forall i, N.testbit (esr dh) i = true -> N.testbit (esr dev_init) i = true \/ i = 0)
    /\ tst_result ex_garbage2_dev = tst_result dev_init
    /\ ese ex_garbage2_dev = ese dh /\ sre ex_garbage2_dev = sre dh /\ oper ex_garbage2_dev = oper dh /\ ques ex_garbage2_dev = ques dh.
Proof. exact (any_failed_message_exact _ _ _ _ _ _ ex_garbage2_runs). Qed.

(* an unknown header after *OPC, on a device that already holds an error and ESR bit 4 *)
Definition ex_unknown : list byte := b_ "*OPC;:SYST:ERR?;FOO:BAR 1".
Definition ex_unknown_d0 : dev := mkDev [std_error DataOutOfRange; std_error CommandError] 16 0 0 reg_default reg_default None.
Definition ex_unknown_dev : dev :=
  mkDev [std_error CommandError; std_error OperationComplete; std_error UndefinedHeader] 49 0 0 reg_default reg_default None.

Example ex_unknown_runs :
  dev_message ex_unknown_d0 false ex_unknown = Val (ex_unknown_dev, b_ "-222,""Data out of range""", Some (std_error UndefinedHeader)).
Proof. vm_compute. reflexivity. Qed.

Example ex_unknown_conclusions :
  exists n k dh,
    queue ex_unknown_dev = skipn n (queue ex_unknown_d0) ++ repeat (std_error OperationComplete) k ++ [std_error UndefinedHeader]
    /\ esr ex_unknown_dev = N.lor (esr dh) (error_esr_mask (std_error UndefinedHeader))
    /\ (forall i, N.testbit (esr dh) i = true -> N.testbit (esr ex_unknown_d0) i = true \/ i = 0)
    /\ tst_result ex_unknown_dev = tst_result ex_unknown_d0
    /\ ese ex_unknown_dev = ese dh /\ sre ex_unknown_dev = sre dh /\ oper ex_unknown_dev = oper dh /\ ques ex_unknown_dev = ques dh.
Proof. exact (any_failed_message_exact _ _ _ _ _ _ ex_unknown_runs). Qed.

(* a successful message with *OPC, a pop and *ESR?: nothing but the operation-complete event is new *)
Definition ex_ok : list byte := b_ "*OPC;:SYST:ERR?;*OPC".
Definition ex_ok_dev : dev :=
  mkDev [std_error CommandError; std_error OperationComplete; std_error OperationComplete] 17 0 0 reg_default reg_default None.
Example ex_ok_runs :
  dev_message ex_unknown_d0 false ex_ok = Val (ex_ok_dev, b_ "-222,""Data out of range""" ++ [10], None).
Proof. vm_compute. reflexivity. Qed.
Example ex_ok_conclusions :
  (forall x, In x (queue ex_ok_dev) -> In x (queue ex_unknown_d0) \/ x = std_error OperationComplete)
  /\ (forall i, N.testbit err_bits i = true -> N.testbit (esr ex_ok_dev) i = true -> N.testbit (esr ex_unknown_d0) i = true).
Proof. exact (any_successful_message_queues_no_error _ _ _ _ _ ex_ok_runs). Qed.

(* bytes that are not even ASCII *)
Example ex_binary_total : exists r, dev_message dev_init true [255; 0; 42; 200; 10; 34] = Val r.
Proof. apply dev_message_total. Qed.

Print Assumptions dev_message_reach.
Print Assumptions dev_message_any_bytes.
Print Assumptions any_failed_message_queues_its_error_last.
Print Assumptions any_failed_message_exact.
Print Assumptions any_successful_message_queues_no_error.
Print Assumptions any_successful_message_exact.
Print Assumptions dev_message_total.
Print Assumptions dev_message_preserves_regs_ok.
Print Assumptions dev_session_regs_ok.
Print Assumptions queue_evolves_shape.
Print Assumptions ex_garbage_conclusions.
Print Assumptions ex_unknown_conclusions.
