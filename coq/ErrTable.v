(* ErrTable.v — model of ErrorCode::{esr_mask,get_error,get_code,get_message}
   over the tables regenerated from the source.  Model file: no proofs. *)
From VF Require Import Base Gen_Errors Gen_Esr.
Open Scope Z_scope.

(* Rust `match code { lo..=hi => m, ..., _ => d }`: first matching arm wins *)
Fixpoint esr_lookup (arms : list (Z * Z * N)) (d : N) (c : Z) : N :=
  match arms with
  | [] => d
  | (lo, hi, m) :: arms' => if (lo <=? c) && (c <=? hi) then m else esr_lookup arms' d c
  end.
Definition esr_mask (c : Z) : N := esr_lookup esr_arms esr_default c.

(* get_error: `match code { c1 => Some(V1), ..., _ => None }` — first match;
   a variant is identified by its position in std_errors *)
Fixpoint find_code (tbl : list (Z * list N)) (c : Z) : option (Z * list N) :=
  match tbl with
  | [] => None
  | (c', m) :: tbl' => if c' =? c then Some (c', m) else find_code tbl' c
  end.
Definition get_error (c : Z) : option (Z * list N) := find_code std_errors c.
Definition get_code (v : Z * list N) : Z := fst v.
Definition get_message (v : Z * list N) : list N := snd v.

(* message text of an error value *)
Definition error_message (e : error) : list N :=
  match ecustom e with
  | Some m => m
  | None => match get_error (ecode e) with Some v => get_message v | None => [] end
  end.
Definition error_esr_mask (e : error) : N := esr_mask (ecode e).
