(* StatusSpec.v — history specification of a status register set (C15):
   what "latched since last read or cleared" means, independently of the
   bitwise update formula. *)
From VF Require Import Base Status.
Open Scope N_scope.

(* last-write-wins views of a history *)
Definition cond_of (h : list rop) : N :=
  fold_left (fun a o => match o with RSet c => c | RPreset => 0 | _ => a end) h 0.
Definition ptr_of (h : list rop) : N :=
  fold_left (fun a o => match o with RWrPtr v => v | RPreset => m16 | _ => a end) h m16.
Definition ntr_of (h : list rop) : N :=
  fold_left (fun a o => match o with RWrNtr v => v | RPreset => 0 | _ => a end) h 0.
Definition enable_of (h : list rop) : N :=
  fold_left (fun a o => match o with RWrEnable v => v | RPreset => 0 | _ => a end) h 0.

(* operations that read-and-clear or clear the event register *)
Definition clears (o : rop) : bool :=
  match o with RRdEvent | RCls => true | _ => false end.

(* bit i latched by history h: some condition update, not followed by a read or
   clear of the event register, made bit i change 0->1 with its positive filter
   bit set at that moment, or 1->0 with its negative filter bit set *)
Definition latched (i : N) (h : list rop) : Prop :=
  exists h1 c h2, h = h1 ++ RSet c :: h2
    /\ forallb (fun o => negb (clears o)) h2 = true
    /\ N.testbit (cond_of h1) i <> N.testbit c i
    /\ ((N.testbit c i = true /\ N.testbit (ptr_of h1) i = true)
        \/ (N.testbit c i = false /\ N.testbit (ntr_of h1) i = true)).
