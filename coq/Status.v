(* Status.v — model of the status machinery of scpi-contrib: EventRegister,
   the device state of a ScpiDevice wired as in examples/minimal_scpi.rs, and
   the mandated command handlers as state transformers.  Model file: no proofs. *)
From VF Require Import Base Gen_Errors ErrTable Queue.
Open Scope N_scope.

Definition m16 : N := 65535.     (* 0xffff *)
Definition m15 : N := 32767.     (* 0x7fff *)
Definition not16 (x : N) : N := N.lxor m16 x.   (* !x on u16 *)

(* ---------------- EventRegister (scpi1999/mod.rs) ---------------- *)
Record evreg := mkReg { condition : N; event : N; enable : N; ntr_filter : N; ptr_filter : N }.

Definition reg_default : evreg := mkReg 0 0 0 0 m16.

Definition reg_preset (r : evreg) : evreg :=
  mkReg 0 (event r) 0 0 m16.

Definition reg_clear_event (r : evreg) : evreg :=
  mkReg (condition r) 0 (enable r) (ntr_filter r) (ptr_filter r).

Definition reg_summary (r : evreg) : bool :=
  negb (N.land (N.land (condition r) (enable r)) m15 =? 0).

(* let transitions = self.condition ^ condition;
   self.event |= transitions & ((condition & self.ptr_filter) | (!condition & self.ntr_filter));
   self.condition = condition; *)
Definition reg_set_condition (r : evreg) (c : N) : evreg :=
  let transitions := N.lxor (condition r) c in
  let ev := N.lor (event r)
              (N.land transitions (N.lor (N.land c (ptr_filter r)) (N.land (not16 c) (ntr_filter r)))) in
  mkReg c ev (enable r) (ntr_filter r) (ptr_filter r).

(* one register set seen through its five commands *)
Inductive rop :=
| RSet (c : N)                      (* device side: set_condition(c), c < 2^16 *)
| RWrEnable (v : N) | RWrPtr (v : N) | RWrNtr (v : N)      (* v < 2^16 *)
| RRdEvent | RRdCondition | RRdEnable | RRdPtr | RRdNtr
| RCls | RPreset.

Definition reg_step (r : evreg) (o : rop) : evreg * option N :=
  match o with
  | RSet c => (reg_set_condition r c, None)
  | RWrEnable v => (mkReg (condition r) (event r) v (ntr_filter r) (ptr_filter r), None)
  | RWrPtr v => (mkReg (condition r) (event r) (enable r) (ntr_filter r) v, None)
  | RWrNtr v => (mkReg (condition r) (event r) (enable r) v (ptr_filter r), None)
  | RRdEvent => (reg_clear_event r, Some (N.land (event r) m15))     (* mem::replace(&mut event, 0) & 0x7FFF *)
  | RRdCondition => (r, Some (N.land (condition r) m15))
  | RRdEnable => (r, Some (N.land (enable r) m15))
  | RRdPtr => (r, Some (N.land (ptr_filter r) m15))
  | RRdNtr => (r, Some (N.land (ntr_filter r) m15))
  | RCls => (reg_clear_event r, None)
  | RPreset => (reg_preset r, None)
  end.

Definition reg_run (h : list rop) : evreg := fold_left (fun r o => fst (reg_step r o)) h reg_default.

(* ---------------- device state ---------------- *)
Record dev := mkDev {
  queue : list error;        (* VecDeque<Error>: unbounded FIFO *)
  esr : N; ese : N; sre : N; (* u8 *)
  oper : evreg; ques : evreg;
  tst_result : option Z      (* what IEEE4882::tst() of the device returns: None = Ok, Some c = Err with code c *)
}.
Definition dev_init : dev := mkDev [] 0 0 0 reg_default reg_default None.

Definition set_queue d q := mkDev q (esr d) (ese d) (sre d) (oper d) (ques d) (tst_result d).
Definition set_esr d v := mkDev (queue d) v (ese d) (sre d) (oper d) (ques d) (tst_result d).
Definition set_ese d v := mkDev (queue d) (esr d) v (sre d) (oper d) (ques d) (tst_result d).
Definition set_sre d v := mkDev (queue d) (esr d) (ese d) v (oper d) (ques d) (tst_result d).
Definition set_oper d r := mkDev (queue d) (esr d) (ese d) (sre d) r (ques d) (tst_result d).
Definition set_ques d r := mkDev (queue d) (esr d) (ese d) (sre d) (oper d) r (tst_result d).
Definition set_tst d t := mkDev (queue d) (esr d) (ese d) (sre d) (oper d) (ques d) t.

(* ScpiDevice::push_error — what Device::handle_error does on the documented wiring *)
Definition push_error (d : dev) (e : error) : dev :=
  set_queue (set_esr d (N.lor (esr d) (error_esr_mask e))) (queue d ++ [e]).

(* ScpiDevice::scpi_opc *)
Definition scpi_opc (d : dev) : dev :=
  let e := std_error OperationComplete in
  set_esr (set_queue d (queue d ++ [e])) (N.lor (esr d) (error_esr_mask e)).

(* ScpiDevice::scpi_cls: ESR, both event registers and the error queue *)
Definition scpi_cls (d : dev) : dev :=
  set_queue (set_ques (set_oper (set_esr d 0) (reg_clear_event (oper d))) (reg_clear_event (ques d))) [].

Definition scpi_preset (d : dev) : dev :=
  set_ques (set_oper d (reg_preset (oper d))) (reg_preset (ques d)).

(* ScpiDevice::scpi_stb followed by StbCommand::query: MAV comes from the context;
   MSS summarises every reported bit enabled in SRE. *)
Definition bit (b : bool) (mask : N) : N := if b then mask else 0.
Definition stb_answer (d : dev) (mav : bool) : N :=
  let stb := N.lor (N.lor (N.lor (N.lor
               (bit (negb (match queue d with [] => true | _ => false end)) 4)
               (bit (reg_summary (ques d)) 8))
               (bit (reg_summary (oper d)) 128))
               (bit (negb (N.land (esr d) (ese d) =? 0)) 32))
               (bit mav 16) in
  N.lor stb (bit (negb (N.land stb (sre d) =? 0)) 64).

(* ---------------- commands as operations ---------------- *)
Inductive regname := Oper | Ques.
Definition get_reg (d : dev) (r : regname) := match r with Oper => oper d | Ques => ques d end.
Definition put_reg (d : dev) (r : regname) (x : evreg) := match r with Oper => set_oper d x | Ques => set_ques d x end.

(* typed response data of one response unit *)
Inductive ritem := RNum (n : N) | RInt (z : Z) | RErr (e : error).

Inductive sop :=
| SReg (r : regname) (o : rop)        (* STATus:OPERation|QUEStionable:... and device-side set_condition *)
| SCls | SPreset
| SWrEse (v : N) | SWrSre (v : N)     (* v < 256 *)
| SRdEse | SRdSre | SRdEsr | SRdStb
| SOpc | SOpcQ | STstQ | SRst | SWai
| SErrNext | SErrCount | SErrAll
| SSetTst (t : option Z)              (* device side: configure what tst() returns *)
| SFail (e : error).                  (* a unit that fails with e: Node::run reports it to handle_error *)

(* one unit: new state, response data (None: not a query), failure *)
Definition sop_step (mav : bool) (d : dev) (o : sop) : dev * option (list ritem) * option error :=
  match o with
  | SReg r (RCls) => (d, None, None)          (* not a command of the register; use SCls *)
  | SReg r (RPreset) => (d, None, None)       (* idem; use SPreset *)
  | SReg r ro =>
    let '(x, out) := reg_step (get_reg d r) ro in
    (put_reg d r x, option_map (fun n => [RNum n]) out, None)
  | SCls => (scpi_cls d, None, None)
  | SPreset => (scpi_preset d, None, None)
  | SWrEse v => (set_ese d v, None, None)
  | SWrSre v => (set_sre d v, None, None)
  | SRdEse => (d, Some [RNum (ese d)], None)
  | SRdSre => (d, Some [RNum (sre d)], None)
  | SRdEsr => (set_esr d 0, Some [RNum (esr d)], None)
  | SRdStb => (d, Some [RNum (stb_answer d mav)], None)
  | SOpc => (scpi_opc d, None, None)
  | SOpcQ => (d, Some [RNum 1], None)
  | STstQ => (d, Some [RInt (match tst_result d with None => 0%Z | Some c => c end)], None)
  | SRst => (d, None, None)
  | SWai => (d, None, None)
  | SErrNext =>
    match queue d with
    | [] => (d, Some [RErr (std_error NoError)], None)
    | e :: q => (set_queue d q, Some [RErr e], None)
    end
  | SErrCount => (d, Some [RNum (N.of_nat (length (queue d)))], None)
  | SErrAll =>
    match queue d with
    | [] => (d, Some [RErr (std_error NoError)], None)
    | q => (set_queue d [], Some (map RErr q), None)
    end
  | SSetTst t => (set_tst d t, None, None)
  | SFail e => (d, None, Some e)
  end.

(* a message: units in order; the first failing unit aborts it and its error goes
   to handle_error = push_error.  Returns the state, the response units produced,
   and the error returned by Node::run. *)
Fixpoint msg_run (mav : bool) (d : dev) (units : list sop) (acc : list (list ritem))
  : dev * list (list ritem) * option error :=
  match units with
  | [] => (d, acc, None)
  | o :: units' =>
    match sop_step mav d o with
    | (d', _, Some e) => (push_error d' e, acc, Some e)
    | (d', Some items, None) => msg_run mav d' units' (acc ++ [items])
    | (d', None, None) => msg_run mav d' units' acc
    end
  end.
