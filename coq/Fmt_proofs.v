(* Fmt_proofs.v — response data round-trips: the text emitted for a value
   (Response.v) is well-formed program data and is read back (Lexer.v, Conv.v)
   as that value. *)
From VF Require Import Base Gen_Errors Gen_Consts ErrTable Fmt Lexer Grammar Grammar_proofs Response Conv.
From Coq Require Import Lia ZifyBool ZifyN ZifyNat.
Open Scope N_scope.

Definition text (d : rdata) : list byte := fst (response_text d).
Definition fmt_ok (d : rdata) : Prop := snd (response_text d) = None.
(* un-doubling of quotes: the value a string payload denotes *)
Fixpoint undouble (q : byte) (s : list byte) : list byte :=
  match s with
  | a :: ((b :: s') as t) => if ((a =? q) && (b =? q))%N then q :: undouble q s' else a :: undouble q t
  | _ => s
  end.

(* ------------------------------------------------------------------ *)
(* 0. the unbounded formatter concatenates the pushes                  *)
(* ------------------------------------------------------------------ *)

Lemma push_all_unbounded : forall cs b,
  push_all (mkFmt None b) cs = (mkFmt None (b ++ List.concat cs), None).
Proof.
  induction cs as [|c cs IH]; intros b.
  - cbn [push_all List.concat]. rewrite app_nil_r. reflexivity.
  - cbn [push_all List.concat]. unfold push. cbn [cap buf]. rewrite IH, <- app_assoc. reflexivity.
Qed.

Lemma response_text_chunks : forall d,
  response_text d = (List.concat (fst (chunks_of d)), snd (chunks_of d)).
Proof.
  intros d. unfold response_text, format_data.
  destruct (chunks_of d) as [cs own]. rewrite push_all_unbounded. reflexivity.
Qed.

Lemma text_chunks : forall d, text d = List.concat (fst (chunks_of d)).
Proof. intros d. unfold text. rewrite response_text_chunks. reflexivity. Qed.

Lemma fmt_ok_chunks : forall d, fmt_ok d <-> snd (chunks_of d) = None.
Proof. intros d. unfold fmt_ok. rewrite response_text_chunks. reflexivity. Qed.

(* a single data element alone in the parameter text *)
Lemma single_token : forall s t,
  s <> [] ->
  lex_next (mkLexer (s ++ [] ++ []) false false) = Val (STok t (mkLexer (skip_ws []) false false)) ->
  tokenize_params s = Val [IOk t].
Proof.
  intros s t Hne H. unfold tokenize_params, lexer_params.
  change [IOk t] with (map IOk [t]). apply lexes_tokenize_from.
  cbn [app] in H. rewrite app_nil_r in H.
  eapply lexes_tok; [exact H | | apply lexes_end; reflexivity].
  cbn [chars]. destruct s as [|x s]; [congruence|]. cbn [skip_ws skip_while length]. lia.
Qed.

(* ------------------------------------------------------------------ *)
(* 1. decimal integers                                                 *)
(* ------------------------------------------------------------------ *)

Theorem int_text : forall n, response_text (RInt n) = (fmt_Z n, None).
Proof.
  intros n. rewrite response_text_chunks. cbn [chunks_of fst snd List.concat]. rewrite app_nil_r. reflexivity.
Qed.

Lemma digits_aux_nonempty : forall f n acc, acc <> [] -> digits_aux f n acc <> [].
Proof.
  induction f as [|f IH]; intros n acc Hacc; cbn [digits_aux]; [exact Hacc|].
  destruct (n / 10 =? 0); [discriminate | apply IH; discriminate].
Qed.

Lemma fmt_N_nonempty : forall n, fmt_N n <> [].
Proof.
  intros n. unfold fmt_N. cbn [digits_aux].
  destruct (n / 10 =? 0); [discriminate | apply digits_aux_nonempty; discriminate].
Qed.

Lemma digits_val_radix : forall ds acc k,
  forallb is_digit ds = true -> fst (radix_digits 10 ds acc k) = digits_val ds acc.
Proof.
  induction ds as [|d ds IH]; intros acc k Hd; [reflexivity|].
  cbn [forallb] in Hd. apply andb_prop in Hd. destruct Hd as [Hx Hd].
  cbn [radix_digits digits_val]. rewrite a2d_dec by exact Hx. apply IH. exact Hd.
Qed.

Lemma fmt_N_val : forall n, digits_val (fmt_N n) 0 = n.
Proof.
  intros n. rewrite <- (digits_val_radix (fmt_N n) 0 0) by apply Grammar_proofs.fmt_N_digits.
  destruct (fmt_N_read n 0) as [k Hk]. rewrite Hk. reflexivity.
Qed.

(* an independent decoder reads the value back *)
Theorem fmt_N_digits : forall n,
  forallb is_digit (fmt_N n) = true /\ fmt_N n <> [] /\ digits_val (fmt_N n) 0 = n.
Proof.
  intros n. split; [apply Grammar_proofs.fmt_N_digits | split; [apply fmt_N_nonempty | apply fmt_N_val]].
Qed.

(* fmt_Z as a <DECIMAL NUMERIC PROGRAM DATA> of the grammar *)
Definition num_of_Z (z : Z) : number :=
  mkNumber (match z with Zneg _ => Some 45 | _ => None end) (fmt_N (Z.to_N (Z.abs z))) None None.

Lemma fmt_N_0 : fmt_N 0 = [48].
Proof. reflexivity. Qed.

Lemma render_num_of_Z : forall z, render_number (num_of_Z z) = fmt_Z z.
Proof.
  intros z. unfold render_number, num_of_Z. cbn [n_sign n_int n_frac n_exp].
  repeat rewrite app_nil_r.
  destruct z as [|p|p]; cbn [opt_byte app fmt_Z Z.abs Z.to_N]; [apply fmt_N_0 | reflexivity | reflexivity].
Qed.

Lemma length_nonzero : forall (l : list byte), l <> [] -> negb (Nat.eqb (length l) 0) = true.
Proof. intros [|x l] H; [congruence | reflexivity]. Qed.

Lemma wf_num_of_Z : forall z, wf_number (num_of_Z z) = true.
Proof.
  intros z. unfold wf_number, num_of_Z. cbn [n_sign n_int n_frac n_exp].
  rewrite Grammar_proofs.fmt_N_digits, (length_nonzero _ (fmt_N_nonempty _)).
  destruct z; reflexivity.
Qed.

Lemma lex_Z : forall z w rest com,
  wf_ws w = true -> sep_follow rest ->
  lex_next (mkLexer (fmt_Z z ++ w ++ rest) false com)
  = Val (STok (TDec (fmt_Z z)) (mkLexer (skip_ws rest) false com)).
Proof.
  intros z w rest com Hw Hr. rewrite <- render_num_of_Z.
  apply lex_dec; [apply wf_num_of_Z | exact Hw | exact Hr].
Qed.

Lemma fmt_Z_nonempty : forall z, fmt_Z z <> [].
Proof. intros [|p|p]; cbn [fmt_Z]; [discriminate | apply fmt_N_nonempty | discriminate]. Qed.

Lemma fmt_Z_head : forall z, exists x t, fmt_Z z = x :: t /\ datum_start x = true.
Proof.
  intros z. rewrite <- render_num_of_Z.
  destruct (render_number_head _ (wf_num_of_Z z)) as (x & t & Heq & Hx).
  exists x, t. split; [exact Heq|]. unfold datum_start. rewrite Hx.
  destruct (is_alpha x); reflexivity.
Qed.

(* ------------------------------------------------------------------ *)
(* 2. booleans                                                         *)
(* ------------------------------------------------------------------ *)

Theorem bool_rt : forall b,
  fmt_ok (RBool b) /\ tokenize_params (text (RBool b)) = Val [IOk (TDec [if b then 49 else 48]%N)]
  /\ conv_bool (TDec [if b then 49 else 48]%N) = Val (Ok b).
Proof.
  intros [|]; repeat split; vm_compute; reflexivity.
Qed.

(* ------------------------------------------------------------------ *)
(* 3. strings                                                          *)
(* ------------------------------------------------------------------ *)

Lemma quoted_chunks_concat : forall s cur first,
  List.concat (quoted_body_chunks (split_quote s cur) first)
  = (if first then [] else [34; 34]) ++ rev cur ++ double_q 34 s.
Proof.
  induction s as [|c s IH]; intros cur first.
  - cbn [split_quote quoted_body_chunks double_q].
    destruct first; cbn [app List.concat]; repeat rewrite app_nil_r; reflexivity.
  - cbn [split_quote double_q]. destruct (c =? 34) eqn:E.
    + cbn [quoted_body_chunks]. repeat rewrite concat_app. rewrite IH.
      destruct first; cbn [app List.concat rev]; repeat rewrite app_nil_r; reflexivity.
    + rewrite IH. cbn [rev]. rewrite <- app_assoc. reflexivity.
Qed.

Lemma quoted_body_concat : forall s, List.concat (quoted_body s) = double_q 34 s.
Proof. intros s. unfold quoted_body. rewrite quoted_chunks_concat. reflexivity. Qed.

Theorem string_text : forall s, all_ascii s = true ->
  response_text (RStr s) = ((34 :: double_q 34 s ++ [34])%N, None).
Proof.
  intros s Hs. rewrite response_text_chunks. cbn [chunks_of]. rewrite Hs. cbn [fst snd].
  repeat rewrite concat_app. rewrite quoted_body_concat. reflexivity.
Qed.

Theorem string_non_ascii : forall s, all_ascii s = false ->
  response_text (RStr s) = ([], Some ExecutionError).
Proof.
  intros s Hs. rewrite response_text_chunks. cbn [chunks_of]. rewrite Hs. reflexivity.
Qed.

Lemma double_q_nil : forall q s, double_q q s = [] -> s = [].
Proof. intros q [|c s] H; [reflexivity|]. cbn [double_q] in H. destruct (c =? q); discriminate. Qed.

Lemma undouble_double : forall q s, undouble q (double_q q s) = s.
Proof.
  intros q. induction s as [|c s IH]; [reflexivity|].
  cbn [double_q]. destruct (c =? q) eqn:E.
  - cbn [undouble]. rewrite N.eqb_refl. cbn [andb]. rewrite IH.
    apply N.eqb_eq in E. subst c. reflexivity.
  - destruct (double_q q s) as [|b t] eqn:Ed.
    + apply double_q_nil in Ed. subst s. reflexivity.
    + cbn [undouble] in *. rewrite E. cbn [andb]. rewrite IH. reflexivity.
Qed.

Lemma lex_string34 : forall body w rest com,
  all_ascii body = true -> wf_ws w = true -> sep_follow rest ->
  lex_next (mkLexer ((34 :: double_q 34 body ++ [34]) ++ w ++ rest) false com)
  = Val (STok (TString (double_q 34 body)) (mkLexer (skip_ws rest) false com)).
Proof. intros. apply lex_string; try assumption. reflexivity. Qed.

Theorem string_rt : forall s, all_ascii s = true ->
  tokenize_params (text (RStr s)) = Val [IOk (TString (double_q 34 s))] /\ undouble 34 (double_q 34 s) = s
  /\ conv_bytes BBytes (TString (double_q 34 s)) = Val (Ok (double_q 34 s)).
Proof.
  intros s Hs. split; [|split; [apply undouble_double | reflexivity]].
  unfold text. rewrite string_text by exact Hs. cbn [fst].
  apply single_token; [discriminate|].
  apply lex_string34; [exact Hs | reflexivity | exact I].
Qed.

Theorem string_exact_when_no_quote : forall s,
  forallb (fun b => negb (b =? 34)%N) s = true -> double_q 34 s = s.
Proof.
  induction s as [|c s IH]; intros H; [reflexivity|].
  cbn [forallb] in H. apply andb_prop in H. destruct H as [Hc Hs].
  cbn [double_q]. destruct (c =? 34); [discriminate Hc|]. rewrite IH by exact Hs. reflexivity.
Qed.

(* ------------------------------------------------------------------ *)
(* 4. lists                                                            *)
(* ------------------------------------------------------------------ *)

Theorem list_empty : response_text (RList []) = ([], Some DeviceSpecificError).
Proof. reflexivity. Qed.

Definition list_go :=
  fix go (pre : list (list byte) * option Z) (l : list rdata) {struct l} : list (list byte) * option Z :=
    match pre with
    | (acc, Some e) => (acc, Some e)
    | (acc, None) =>
      match l with
      | [] => (acc, None)
      | y :: l'' => let '(c, e) := chunks_of y in go (acc ++ [[44]] ++ c, e) l''
      end
    end.

Lemma chunks_of_list : forall x l, chunks_of (RList (x :: l)) = list_go (chunks_of x) l.
Proof. reflexivity. Qed.

Lemma list_go_ok : forall l acc, Forall fmt_ok l ->
  exists cs, list_go (acc, None) l = (cs, None)
             /\ List.concat cs = List.concat acc ++ List.concat (map (fun y => 44 :: text y) l).
Proof.
  induction l as [|y l IH]; intros acc Hl.
  - exists acc. split; [reflexivity|]. cbn [map List.concat]. rewrite app_nil_r. reflexivity.
  - inversion Hl as [|y' l' Hy Hl' E]; subst.
    apply fmt_ok_chunks in Hy.
    cbn [list_go]. fold list_go. destruct (chunks_of y) as [c e] eqn:Ec. cbn [snd] in Hy. subst e.
    destruct (IH (acc ++ [[44]] ++ c) Hl') as (cs & Hgo & Hcat).
    exists cs. split; [exact Hgo|]. rewrite Hcat. repeat rewrite concat_app.
    cbn [map List.concat]. rewrite text_chunks, Ec. cbn [fst app]. rewrite <- app_assoc. reflexivity.
Qed.

Lemma intercalate_cons2 : forall sep x y l,
  intercalate sep (x :: y :: l) = x ++ sep ++ intercalate sep (y :: l).
Proof. reflexivity. Qed.

Lemma intercalate_flat : forall l t,
  intercalate [44] (t :: l) = t ++ List.concat (map (fun y => 44 :: y) l).
Proof.
  induction l as [|y l IH]; intros t.
  - cbn [intercalate map List.concat]. rewrite app_nil_r. reflexivity.
  - rewrite intercalate_cons2, IH. reflexivity.
Qed.

Theorem list_text : forall x xs, Forall fmt_ok (x :: xs) ->
  response_text (RList (x :: xs)) = (intercalate [44]%N (map text (x :: xs)), None).
Proof.
  intros x xs H. inversion H as [|x' xs' Hx Hxs E]; subst.
  rewrite response_text_chunks, chunks_of_list.
  apply fmt_ok_chunks in Hx. destruct (chunks_of x) as [c e] eqn:Ec. cbn [snd] in Hx. subst e.
  destruct (list_go_ok xs c Hxs) as (cs & Hgo & Hcat). rewrite Hgo. cbn [fst snd].
  rewrite Hcat. cbn [map]. rewrite intercalate_flat, map_map, text_chunks, Ec. reflexivity.
Qed.

(* ------------------------------------------------------------------ *)
(* 5. error-queue items                                                *)
(* ------------------------------------------------------------------ *)

(* error-queue items: code,"message[;extended]" *)
Definition error_body (e : error) : list byte :=
  error_message e ++ match eext e with Some x => (59 :: x)%N | None => [] end.

Lemma double_q_app : forall q a b, double_q q (a ++ b) = double_q q a ++ double_q q b.
Proof.
  intros q. induction a as [|c a IH]; intros b; [reflexivity|].
  cbn [app double_q]. destruct (c =? q); rewrite IH; reflexivity.
Qed.

Theorem error_text : forall e, all_ascii (error_message e) = true ->
  response_text (RErrItem e)
  = (fmt_Z (ecode e) ++ (44 :: 34 :: double_q 34 (error_body e) ++ [34])%N, None).
Proof.
  intros e Hm. rewrite response_text_chunks. unfold error_body. cbn [chunks_of].
  destruct (eext e) as [x|].
  - cbn [fst snd]. repeat rewrite concat_app. repeat rewrite quoted_body_concat.
    rewrite double_q_app. cbn [double_q]. change (59 =? 34) with false. cbv iota.
    cbn [List.concat app]. repeat rewrite app_nil_r. repeat rewrite <- app_assoc. reflexivity.
  - rewrite Hm. cbn [fst snd]. repeat rewrite concat_app. rewrite quoted_body_concat.
    cbn [List.concat app]. repeat rewrite app_nil_r. repeat rewrite <- app_assoc. reflexivity.
Qed.

(* ------------------------------------------------------------------ *)
(* 6. definite-length blocks                                           *)
(* ------------------------------------------------------------------ *)

Lemma digits_aux_length : forall f n acc k, (1 <= k)%nat -> n < 10 ^ N.of_nat k ->
  (length (digits_aux f n acc) <= length acc + k)%nat.
Proof.
  induction f as [|f IH]; intros n acc k Hk Hn; cbn [digits_aux]; [lia|].
  destruct (n / 10 =? 0) eqn:Ez; [cbn [length]; lia|].
  destruct k as [|k]; [lia|].
  rewrite Nat2N.inj_succ, N.pow_succ_r' in Hn.
  assert (Hq : n / 10 < 10 ^ N.of_nat k) by (apply N.div_lt_upper_bound; lia).
  destruct k as [|k].
  - change (10 ^ N.of_nat 0) with 1 in Hq. lia.
  - specialize (IH (n / 10) ((48 + n mod 10) :: acc) (S k) ltac:(lia) Hq).
    cbn [length] in IH. lia.
Qed.

Lemma fmt_N_length_le : forall n k, (1 <= k)%nat -> n < 10 ^ N.of_nat k -> (length (fmt_N n) <= k)%nat.
Proof. intros n k Hk Hn. unfold fmt_N. apply (digits_aux_length _ n [] k Hk Hn). Qed.

Lemma fmt_N_length_lt : forall n, n < 10 ^ N.of_nat (length (fmt_N n)).
Proof.
  intros n. pose proof (radix_digits_bound (fmt_N n) 0 0 (Grammar_proofs.fmt_N_digits n)) as H.
  destruct (fmt_N_read n 0) as [k Hk]. rewrite Hk in H. cbn [fst] in H. lia.
Qed.

Lemma fmt_N_length_pos : forall n, (1 <= length (fmt_N n))%nat.
Proof. intros n. pose proof (fmt_N_nonempty n). destruct (fmt_N n); [congruence | cbn [length]; lia]. Qed.

Lemma fmt_N_small : forall m, m < 10 -> fmt_N m = [48 + m].
Proof.
  intros m Hm. unfold fmt_N. cbn [digits_aux].
  rewrite (N.div_small m 10 Hm), (N.mod_small m 10 Hm). reflexivity.
Qed.

Lemma block_len_9 : forall p : list byte, N.of_nat (length p) < 1000000000 ->
  (length (fmt_N (N.of_nat (length p))) <= 9)%nat.
Proof. intros p H. apply fmt_N_length_le; [lia | exact H]. Qed.

Theorem block_text : forall p, (N.of_nat (length p) < 1000000000)%N ->
  response_text (RBlock p)
  = ((35 :: (48 + N.of_nat (length (fmt_N (N.of_nat (length p))))) :: fmt_N (N.of_nat (length p)) ++ p)%N, None).
Proof.
  intros p Hp. pose proof (block_len_9 p Hp) as H9.
  rewrite response_text_chunks. cbn [chunks_of]. cbv zeta.
  replace (Nat.ltb 9 (length (fmt_N (N.of_nat (length p))))) with false
    by (symmetry; apply Nat.ltb_ge; exact H9).
  cbn [fst snd List.concat app]. rewrite app_nil_r.
  rewrite fmt_N_small by lia. reflexivity.
Qed.

Theorem block_too_long : forall p, (1000000000 <= N.of_nat (length p))%N ->
  response_text (RBlock p) = ([], Some ExecutionError).
Proof.
  intros p Hp. rewrite response_text_chunks. cbn [chunks_of]. cbv zeta.
  replace (Nat.ltb 9 (length (fmt_N (N.of_nat (length p))))) with true; [reflexivity|].
  symmetry. apply Nat.ltb_lt.
  pose proof (fmt_N_length_lt (N.of_nat (length p))) as Hlt.
  destruct (Nat.le_gt_cases (length (fmt_N (N.of_nat (length p)))) 9) as [Hle|Hgt]; [|exact Hgt].
  assert (H10 : 10 ^ N.of_nat (length (fmt_N (N.of_nat (length p)))) <= 10 ^ 9)
    by (apply N.pow_le_mono_r; lia).
  change (10 ^ 9) with 1000000000 in H10. lia.
Qed.

Theorem block_rt : forall p, (N.of_nat (length p) < 1000000000)%N ->
  tokenize_params (text (RBlock p)) = Val [IOk (TBlock p)] /\ conv_bytes BArb (TBlock p) = Val (Ok p).
Proof.
  intros p Hp. split; [|reflexivity].
  unfold text. rewrite block_text by exact Hp. cbn [fst].
  apply single_token; [discriminate|].
  apply (lex_block 0 p [] [] false); [|reflexivity | exact I].
  change (block_len_field 0 p) with (fmt_N (N.of_nat (length p))).
  split; [apply fmt_N_length_pos | apply block_len_9; exact Hp].
Qed.

(* ------------------------------------------------------------------ *)
(* 7. decimal integers read back                                       *)
(* ------------------------------------------------------------------ *)

Definition is_neg (s : list byte) : bool := match s with 45 :: _ => true | _ => false end.

Lemma lexical_parse_int_eq : forall t s,
  lexical_parse_int t s =
  match skip_sign s with
  | [] => IPInvalidDigit
  | _ =>
    if negb (forallb is_digit (skip_sign s)) then IPInvalidDigit
    else let v := Z.of_N (digits_val (skip_sign s) 0) in
         let z := (if is_neg s then - v else v)%Z in
         if ((ity_min t <=? z) && (z <=? ity_max t))%Z then IPValue z else IPRange
  end.
Proof. reflexivity. Qed.

Lemma not45_neg : forall d (t : list byte), (d =? 45) = false -> is_neg (d :: t) = false.
Proof.
  intros d t H. unfold is_neg. destruct d as [|p]; [reflexivity|].
  do 6 (try (destruct p as [p|p|]; try reflexivity)); vm_compute in H; discriminate.
Qed.

Lemma fmt_N_head : forall n, exists d t, fmt_N n = d :: t /\ is_digit d = true.
Proof.
  intros n. pose proof (fmt_N_nonempty n) as Hne. pose proof (Grammar_proofs.fmt_N_digits n) as Hd.
  destruct (fmt_N n) as [|d t]; [congruence|].
  cbn [forallb] in Hd. apply andb_prop in Hd. exists d, t. tauto.
Qed.

Lemma lexical_parse_fmt_Z : forall t n, (ity_min t <= n <= ity_max t)%Z ->
  lexical_parse_int t (fmt_Z n) = IPValue n.
Proof.
  intros t n Hr.
  assert (Hcore : forall (neg : bool) m, n = (if neg then - Z.of_N m else Z.of_N m)%Z ->
     match fmt_N m with
     | [] => IPInvalidDigit
     | _ =>
     (if negb (forallb is_digit (fmt_N m)) then IPInvalidDigit
      else let v := Z.of_N (digits_val (fmt_N m) 0) in
           let z := (if neg then - v else v)%Z in
           if ((ity_min t <=? z) && (z <=? ity_max t))%Z then IPValue z else IPRange) end = IPValue n).
  { intros neg m Hn. rewrite Grammar_proofs.fmt_N_digits, fmt_N_val. cbn [negb]. cbv zeta.
    rewrite <- Hn. replace ((ity_min t <=? n) && (n <=? ity_max t))%Z with true by lia.
    pose proof (fmt_N_nonempty m). destruct (fmt_N m); [congruence | reflexivity]. }
  assert (Hpos : forall m, skip_sign (fmt_N m) = fmt_N m /\ is_neg (fmt_N m) = false).
  { intros m. destruct (fmt_N_head m) as (d & tl & Heq & Hd). rewrite Heq. split.
    - unfold skip_sign. replace (is_sign d) with false by bsolve. reflexivity.
    - apply not45_neg. bsolve. }
  rewrite lexical_parse_int_eq. destruct n as [|p|p]; cbn [fmt_Z].
  - rewrite <- fmt_N_0. destruct (Hpos 0) as [-> ->]. apply (Hcore false 0). reflexivity.
  - destruct (Hpos (N.pos p)) as [-> ->]. apply (Hcore false (N.pos p)). reflexivity.
  - cbn [skip_sign]. change (is_sign 45) with true. cbv iota.
    change (is_neg (45 :: fmt_N (N.pos p))) with true.
    apply (Hcore true (N.pos p)). reflexivity.
Qed.

Theorem int_dec_rt : forall t n, (ity_min t <= n <= ity_max t)%Z ->
  tokenize_params (text (RInt n)) = Val [IOk (TDec (fmt_Z n))] /\ conv_int t (TDec (fmt_Z n)) = Val (Ok n).
Proof.
  intros t n Hr. split.
  - unfold text. rewrite int_text. cbn [fst].
    apply single_token; [apply fmt_Z_nonempty|]. apply lex_Z; [reflexivity | exact I].
  - cbn [conv_int]. rewrite lexical_parse_fmt_Z by exact Hr. reflexivity.
Qed.

(* ------------------------------------------------------------------ *)
(* 8. character and expression data                                    *)
(* ------------------------------------------------------------------ *)

Theorem char_rt : forall m, wf_mnemonic m = true ->
  fmt_ok (RChar m) /\ tokenize_params (text (RChar m)) = Val [IOk (TChar m)] /\ conv_bytes BChr (TChar m) = Val (Ok m).
Proof.
  intros m Hm. split; [|split]; [apply fmt_ok_chunks; reflexivity | | reflexivity].
  rewrite text_chunks. cbn [chunks_of fst List.concat]. rewrite app_nil_r.
  apply single_token; [destruct m; [discriminate Hm | discriminate]|].
  apply lex_char; [exact Hm | reflexivity | exact I].
Qed.

Theorem expr_rt : forall body, forallb expr_char_ok body = true ->
  fmt_ok (RExpr body) /\ tokenize_params (text (RExpr body)) = Val [IOk (TExpr body)]
  /\ conv_bytes BExpr (TExpr body) = Val (Ok body).
Proof.
  intros body Hb. split; [|split]; [apply fmt_ok_chunks; reflexivity | | reflexivity].
  rewrite text_chunks. cbn [chunks_of fst List.concat app].
  apply single_token; [discriminate|].
  apply lex_expr; [exact Hb | reflexivity | exact I].
Qed.

(* ------------------------------------------------------------------ *)
(* 9. non-decimal numbers                                              *)
(* ------------------------------------------------------------------ *)

Lemma radix_char_value : forall d, d < 16 -> digit_value (radix_char d) = d.
Proof.
  intros d Hd. unfold digit_value, radix_char. destruct (d <? 10) eqn:E.
  - replace (is_digit (48 + d)) with true by bsolve. lia.
  - replace (is_digit (55 + d)) with false by bsolve.
    replace (is_upper (55 + d)) with true by bsolve. lia.
Qed.

Lemma radix_char_ok : forall r d, r <= 16 -> d < r -> is_radix_digit r (radix_char d) = true.
Proof.
  intros r d Hr Hd. unfold is_radix_digit. rewrite radix_char_value by lia.
  unfold radix_char, is_digit. destruct (d <? 10) eqn:E; lia.
Qed.

Lemma radix_aux_digits : forall r f n acc, 2 <= r <= 16 ->
  forallb (is_radix_digit r) acc = true -> forallb (is_radix_digit r) (radix_aux f r n acc) = true.
Proof.
  intros r. induction f as [|f IH]; intros n acc Hr Hacc; cbn [radix_aux]; [exact Hacc|].
  assert (Hd : forallb (is_radix_digit r) (radix_char (n mod r) :: acc) = true).
  { cbn [forallb]. rewrite Hacc. pose proof (N.mod_lt n r ltac:(lia)).
    rewrite radix_char_ok by lia. reflexivity. }
  destruct (n / r =? 0); [exact Hd | apply IH; [exact Hr | exact Hd]].
Qed.

Lemma radix_aux_nonempty : forall r f n acc, acc <> [] -> radix_aux f r n acc <> [].
Proof.
  intros r. induction f as [|f IH]; intros n acc Hacc; cbn [radix_aux]; [exact Hacc|].
  destruct (n / r =? 0); [discriminate | apply IH; discriminate].
Qed.

Lemma fmt_radix_nonempty : forall r n, fmt_radix r n <> [].
Proof.
  intros r n. unfold fmt_radix. cbn [radix_aux].
  destruct (n / r =? 0); [discriminate | apply radix_aux_nonempty; discriminate].
Qed.

Lemma radix_aux_val : forall r, 2 <= r <= 16 -> forall f n acc,
  n / r < 2 ^ N.of_nat f ->
  fold_left (fun a d => a * r + digit_value d) (radix_aux (S f) r n acc) 0
  = fold_left (fun a d => a * r + digit_value d) acc n.
Proof.
  intros r Hr. induction f as [|f IH]; intros n acc Hn.
  - change (2 ^ N.of_nat 0) with 1 in Hn.
    assert (Hz : n / r = 0) by (apply N.lt_1_r; exact Hn).
    pose proof (N.mod_lt n r ltac:(lia)) as Hm.
    pose proof (N.div_mod n r ltac:(lia)) as Hdm. rewrite Hz, N.mul_0_r in Hdm.
    cbn [radix_aux]. rewrite Hz. change (0 =? 0) with true. cbv iota.
    cbn [fold_left]. rewrite radix_char_value by lia. f_equal. lia.
  - pose proof (N.mod_lt n r ltac:(lia)) as Hm.
    pose proof (N.div_mod n r ltac:(lia)) as Hdm.
    remember (S f) as f1 eqn:Ef1.
    cbn [radix_aux]. destruct (n / r =? 0) eqn:Ez.
    + apply N.eqb_eq in Ez. rewrite Ez, N.mul_0_r in Hdm.
      cbn [fold_left]. rewrite radix_char_value by lia. f_equal. lia.
    + subst f1.
      assert (Hn' : n / r / r < 2 ^ N.of_nat f).
      { rewrite Nat2N.inj_succ, N.pow_succ_r' in Hn.
        apply N.div_lt_upper_bound; [lia|].
        eapply N.lt_le_trans; [exact Hn|]. apply N.mul_le_mono_r. lia. }
      rewrite (IH (n / r) (radix_char (n mod r) :: acc) Hn').
      cbn [fold_left]. rewrite radix_char_value by lia. f_equal.
      rewrite (N.mul_comm (n / r) r). symmetry. exact Hdm.
Qed.

Lemma fmt_radix_val : forall r n, 2 <= r <= 16 -> value_of_digits r (fmt_radix r n) = n.
Proof.
  intros r n Hr. unfold value_of_digits, fmt_radix. rewrite radix_aux_val; [reflexivity | exact Hr |].
  rewrite N2Nat.id. pose proof (N.size_gt n) as Hs.
  apply N.le_lt_trans with n; [|exact Hs].
  apply N.div_le_upper_bound; [lia|].
  rewrite <- (N.mul_1_l n) at 1. apply N.mul_le_mono_r. lia.
Qed.

Lemma fmt_radix_digits : forall r n, 2 <= r <= 16 -> forallb (is_radix_digit r) (fmt_radix r n) = true.
Proof. intros r n Hr. unfold fmt_radix. apply radix_aux_digits; [exact Hr | reflexivity]. Qed.

(* printing in radix r then running the lexer's digit loop gives the value back *)
Lemma fmt_radix_read : forall r n, 2 <= r <= 16 ->
  radix_digits r (fmt_radix r n) 0 0 = (n, length (fmt_radix r n)).
Proof.
  intros r n Hr. rewrite <- (app_nil_r (fmt_radix r n)) at 1.
  rewrite radix_digits_app; [| apply fmt_radix_digits; exact Hr | exact I].
  fold (value_of_digits r (fmt_radix r n)). rewrite fmt_radix_val by exact Hr. reflexivity.
Qed.

Theorem radix_rt : forall r n t, (r = 16 \/ r = 8 \/ r = 2)%N -> (n <= u64_max)%N -> (Z.of_N n <= ity_max t)%Z ->
  fmt_ok (RRadix r n) /\ tokenize_params (text (RRadix r n)) = Val [IOk (TNonDec n)]
  /\ conv_int t (TNonDec n) = Val (Ok (Z.of_N n)).
Proof.
  intros r n t Hr Hn Ht. split; [|split].
  - apply fmt_ok_chunks. reflexivity.
  - assert (Hr' : 2 <= r <= 16) by lia.
    assert (Hlex : forall l, radix_of_letter l = Some r ->
              tokenize_params (35 :: l :: fmt_radix r n) = Val [IOk (TNonDec n)]).
    { intros l Hl. apply single_token; [discriminate|].
      rewrite <- (fmt_radix_val r n Hr') at 2.
      apply lex_nondec; [exact Hl | apply fmt_radix_nonempty | apply fmt_radix_digits; exact Hr'
                        | rewrite fmt_radix_val by exact Hr'; lia | reflexivity | exact I]. }
    rewrite text_chunks. cbn [chunks_of fst List.concat]. rewrite app_nil_r.
    destruct Hr as [-> | [-> | ->]]; cbn [radix_prefix app]; apply Hlex; reflexivity.
  - cbn [conv_int]. replace (Z.of_N n <=? ity_max t)%Z with true by lia. reflexivity.
Qed.

(* ------------------------------------------------------------------ *)
(* 10. sequences of data elements                                      *)
(* ------------------------------------------------------------------ *)

Lemma lexes_last : forall s t com,
  s <> [] ->
  lex_next (mkLexer (s ++ [] ++ []) false com) = Val (STok t (mkLexer (skip_ws []) false com)) ->
  lexes (mkLexer s false com) [t].
Proof.
  intros s t com Hne H. cbn [app] in H. rewrite app_nil_r in H.
  eapply lexes_tok; [exact H | | apply lexes_end; reflexivity].
  cbn [chars]. destruct s as [|x s]; [congruence|]. cbn [skip_ws skip_while length]. lia.
Qed.

(* a data element followed by a comma and another data element *)
Lemma lexes_then_comma : forall s t x R com ts,
  s <> [] -> datum_start x = true ->
  (lex_next (mkLexer (s ++ [] ++ 44 :: x :: R) false com)
   = Val (STok t (mkLexer (skip_ws (44 :: x :: R)) false com))) ->
  lexes (mkLexer (x :: R) false com) ts ->
  lexes (mkLexer (s ++ 44 :: x :: R) false com) (t :: TDataSeparator :: ts).
Proof.
  intros s t x R com ts Hne Hx H Hk. cbn [app] in H.
  change (skip_ws (44 :: x :: R)) with (44 :: x :: R) in H.
  eapply lexes_tok; [exact H | |].
  - cbn [chars]. rewrite app_length. destruct s as [|y s]; [congruence|]. cbn [length]. lia.
  - eapply lexes_tok; [apply (lex_comma [] x R com eq_refl Hx) | cbn [chars length]; lia | exact Hk].
Qed.

Theorem error_rt : forall e, all_ascii (error_body e) = true ->
  tokenize_params (text (RErrItem e))
  = Val [IOk (TDec (fmt_Z (ecode e))); IOk TDataSeparator; IOk (TString (double_q 34 (error_body e)))]
  /\ undouble 34 (double_q 34 (error_body e)) = error_body e.
Proof.
  intros e Hb. split; [|apply undouble_double].
  assert (Hm : all_ascii (error_message e) = true).
  { unfold error_body, all_ascii in Hb. rewrite forallb_app in Hb. apply andb_prop in Hb. tauto. }
  unfold text. rewrite error_text by exact Hm. cbn [fst].
  unfold tokenize_params, lexer_params.
  change [IOk (TDec (fmt_Z (ecode e))); IOk TDataSeparator; IOk (TString (double_q 34 (error_body e)))]
    with (map IOk [TDec (fmt_Z (ecode e)); TDataSeparator; TString (double_q 34 (error_body e))]).
  apply lexes_tokenize_from.
  apply lexes_then_comma; [apply fmt_Z_nonempty | reflexivity | |].
  - apply lex_Z; [reflexivity | cbn; auto].
  - apply lexes_last; [discriminate|]. apply lex_string34; [exact Hb | reflexivity | exact I].
Qed.

Lemma lexes_int_list : forall ns n com,
  lexes (mkLexer (intercalate [44] (map fmt_Z (n :: ns))) false com)
        (TDec (fmt_Z n) :: flat_map (fun k => [TDataSeparator; TDec (fmt_Z k)]) ns).
Proof.
  induction ns as [|k ns IH]; intros n com.
  - cbn [map intercalate flat_map]. apply lexes_last; [apply fmt_Z_nonempty|].
    apply lex_Z; [reflexivity | exact I].
  - cbn [map]. rewrite intercalate_cons2. cbn [flat_map app].
    specialize (IH k com). cbn [map] in IH.
    destruct (fmt_Z_head k) as (x & tl & Heq & Hx).
    assert (HR : exists R, intercalate [44] (fmt_Z k :: map fmt_Z ns) = x :: R).
    { rewrite intercalate_flat, Heq. eexists. reflexivity. }
    destruct HR as [R HR]. rewrite HR in *.
    apply lexes_then_comma; [apply fmt_Z_nonempty | exact Hx | | exact IH].
    apply lex_Z; [reflexivity | cbn; auto].
Qed.

Lemma map_IOk_flat_map : forall ns,
  map IOk (flat_map (fun k => [TDataSeparator; TDec (fmt_Z k)]) ns)
  = flat_map (fun k => [IOk TDataSeparator; IOk (TDec (fmt_Z k))]) ns.
Proof. induction ns as [|k ns IH]; [reflexivity|]. cbn [flat_map map app]. rewrite IH. reflexivity. Qed.

Lemma fmt_ok_int : forall z, fmt_ok (RInt z).
Proof. intros z. unfold fmt_ok. rewrite int_text. reflexivity. Qed.

Theorem int_list_rt : forall n ns,
  tokenize_params (text (RList (map RInt (n :: ns)))) =
  Val ((IOk (TDec (fmt_Z n))) :: flat_map (fun k => [IOk TDataSeparator; IOk (TDec (fmt_Z k))]) ns).
Proof.
  intros n ns. unfold text. cbn [map]. rewrite list_text.
  2:{ change (RInt n :: map RInt ns) with (map RInt (n :: ns)).
      apply Forall_forall. intros d Hd. apply in_map_iff in Hd. destruct Hd as (z & <- & _). apply fmt_ok_int. }
  cbn [fst]. change (RInt n :: map RInt ns) with (map RInt (n :: ns)).
  rewrite map_map.
  rewrite (map_ext (fun z => text (RInt z)) fmt_Z) by (intros z; unfold text; rewrite int_text; reflexivity).
  rewrite <- map_IOk_flat_map.
  change (IOk (TDec (fmt_Z n)) :: map IOk (flat_map (fun k => [TDataSeparator; TDec (fmt_Z k)]) ns))
    with (map IOk (TDec (fmt_Z n) :: flat_map (fun k => [TDataSeparator; TDec (fmt_Z k)]) ns)).
  unfold tokenize_params, lexer_params. apply lexes_tokenize_from. apply lexes_int_list.
Qed.

Print Assumptions int_text.
Print Assumptions fmt_N_digits.
Print Assumptions bool_rt.
Print Assumptions string_text.
Print Assumptions string_non_ascii.
Print Assumptions string_rt.
Print Assumptions string_exact_when_no_quote.
Print Assumptions list_empty.
Print Assumptions list_text.
Print Assumptions error_text.
Print Assumptions block_text.
Print Assumptions block_too_long.
Print Assumptions block_rt.
Print Assumptions int_dec_rt.
Print Assumptions char_rt.
Print Assumptions expr_rt.
Print Assumptions radix_rt.
Print Assumptions error_rt.
Print Assumptions int_list_rt.
