(* Enum.v — model of #[derive(ScpiEnum)] (scpi-derive/src/lib.rs), ScpiEnum::short_form
   (scpi/src/option.rs) and the blanket ResponseData impl for derived enums
   (scpi/src/parser/response/mod.rs).  An enum definition is the list of its variants'
   mnemonics in declaration order (a variant is identified by its index; unit and
   single-field variants behave alike here).  Model file: no proofs. *)
From VF Require Import Base Gen_Errors Lexer Mnemonic.

Definition enum_def := list (list byte).

(* from_mnemonic: `match s { x if mnemonic_match(M0, x) => Some(V0), ..., _ => None }` *)
Fixpoint from_mnemonic_at (defs : enum_def) (s : list byte) (i : nat) : option nat :=
  match defs with
  | [] => None
  | m :: defs' => if mnemonic_match m s then Some i else from_mnemonic_at defs' s (S i)
  end.
Definition from_mnemonic (defs : enum_def) (s : list byte) : option nat := from_mnemonic_at defs s 0.

(* mnemonic(): the table *)
Definition mnemonic_of (defs : enum_def) (i : nat) : option (list byte) := nth_error defs i.

(* TryFrom<Token>: character data selects a variant or is an illegal parameter; anything else a type error *)
Definition enum_try_from (defs : enum_def) (tok : token) : res nat :=
  match tok with
  | TChar s => match from_mnemonic defs s with Some i => Ok i | None => Err IllegalParameterValue end
  | _ => Err DataTypeError
  end.

(* ScpiEnum::short_form: leading run of upper-case letters and digits *)
Fixpoint take_while (p : byte -> bool) (l : list byte) : list byte :=
  match l with x :: l' => if p x then x :: take_while p l' else [] | [] => [] end.
Definition short_form (m : list byte) : list byte := take_while (fun c => is_upper c || is_digit c) m.
(* trailing digits of the mnemonic *)
Definition trailing_digits (m : list byte) : list byte := rev (take_while is_digit (rev m)).
(* response data: the short form, followed by the numeric suffix when the short form does not contain it *)
Definition enum_response (m : list byte) : list byte :=
  let s := short_form m in
  if Nat.ltb (length s) (length m) then s ++ trailing_digits m else s.
