(* Run.v — the case runner: one canonical result string per case, mirroring
   the Rust harness' output format (harness/src/k_*.rs).  Model file: no proofs. *)
From VF Require Import Base Show Gen_Errors Gen_Esr ErrTable Queue.
Open Scope string_scope.

(* ---- kind queue (C12) ---- *)
Definition show_qout (o : qout error) : string :=
  match o with
  | OPop None => "N"
  | OPop (Some e) => show_error e
  | OLen n => "L" ++ show_nat n ++ (if Nat.eqb n 0 then "e" else "")
  end.
Definition run_queue (cap : nat) (ops : list (qop error)) : string :=
  match q_run error queue_overflow_error (if Nat.eqb cap 0 then None else Some cap) [] ops with
  | Panic s => "PANIC " ++ s
  | Val (q, out) => join " " (map show_qout out ++ ["|"] ++ map show_error q)
  end.

(* ---- kind errtab (C14) ---- *)
Definition show_errtab_entry (c : Z) : string :=
  match get_error c with
  | Some v => show_Z c ++ ":S" ++ show_Z (get_code v) ++ ":" ++ show_bytes (get_message v)
              ++ ":" ++ show_N (esr_mask (get_code v)) ++ ":" ++ show_N (esr_mask c)
  | None => show_Z c ++ ":N:" ++ show_N (esr_mask c)
  end.
Definition run_errtab (lo hi : Z) : string :=
  join ";" (map (fun i => show_errtab_entry (lo + Z.of_nat i)%Z) (seq 0 (Z.to_nat (hi - lo + 1)))).

(* ---- kind mm (C03) ---- *)
From VF Require Import Mnemonic.
Definition run_mm (def : list N) (cands : list (list N)) : string :=
  join " " (map (fun c =>
    let m := mnemonic_match def c in
    show_bool m ++ show_bool (mnemonic_compare def c) ++ show_bool m ++ show_bool m ++ "F") cands).

(* ---- kind dev (C13, C15, C16): device-level histories ---- *)
From VF Require Import Fmt Status.
Inductive dstep :=
| DMsg (mav : bool) (units : list sop)
| DSetCond (r : regname) (c : N)
| DSetTst (t : option Z).

Definition render_item (i : ritem) : list N :=
  match i with
  | RNum n => fmt_N n
  | RInt z => fmt_Z z
  | RErr e => fmt_Z (ecode e) ++ [44]
              ++ fmt_quoted (error_message e ++ match eext e with Some x => 59 :: x | None => [] end)
  end.
Definition render_units (us : list (list ritem)) : list N :=
  match us with
  | [] => []
  | _ => intercalate [59] (map (fun u => intercalate [44] (map render_item u)) us) ++ [10]
  end.

Definition show_reg (r : evreg) : string :=
  show_N (condition r) ++ "," ++ show_N (event r) ++ "," ++ show_N (enable r) ++ ","
  ++ show_N (ntr_filter r) ++ "," ++ show_N (ptr_filter r).
Definition show_dev (d : dev) (hook : nat) : string :=
  "q=" ++ match queue d with [] => "-" | q => join "," (map show_error q) end
  ++ ";esr=" ++ show_N (esr d) ++ ";ese=" ++ show_N (ese d) ++ ";sre=" ++ show_N (sre d)
  ++ ";o=" ++ show_reg (oper d) ++ ";u=" ++ show_reg (ques d) ++ ";h=" ++ show_nat hook.

Fixpoint run_dev_steps (d : dev) (steps : list dstep) : list string :=
  match steps with
  | [] => []
  | DMsg mav units :: rest =>
    match msg_run mav d units [] with
    | (d', out, None) => ("OK " ++ show_bytes (render_units out) ++ " " ++ show_dev d' 0) :: run_dev_steps d' rest
    | (d', _, Some e) => (show_error e ++ " - " ++ show_dev d' 1) :: run_dev_steps d' rest
    end
  | DSetCond r c :: rest =>
    let d' := put_reg d r (reg_set_condition (get_reg d r) c) in
    ("- - " ++ show_dev d' 0) :: run_dev_steps d' rest
  | DSetTst t :: rest =>
    let d' := set_tst d t in
    ("- - " ++ show_dev d' 0) :: run_dev_steps d' rest
  end.
Definition run_dev (steps : list dstep) : string := join " | " (run_dev_steps dev_init steps).

(* ---- kind lex (C04, C01): the token stream up to and including the first error ---- *)
From VF Require Import Lexer.
Definition show_token (t : token) : string :=
  match t with
  | THeaderMnemonicSeparator => ":" | THeaderQuerySuffix => "?" | TUnitSeparator => ";"
  | THeaderSeparator => "_" | TDataSeparator => ","
  | TMnemonic s => "M" ++ show_bytes s
  | TChar s => "C" ++ show_bytes s
  | TDec s => "D" ++ show_bytes s
  | TDecSuffix v s => "S" ++ show_bytes v ++ "/" ++ show_bytes s
  | TNonDec n => "N" ++ show_N n
  | TString s => "Q" ++ show_bytes s
  | TBlock s => "B" ++ show_bytes s
  | TExpr s => "X" ++ show_bytes s
  end.
Definition show_titem (i : titem) : string :=
  match i with IOk t => show_token t | IErr e => "E" ++ show_Z e end.
Definition run_lex (params : bool) (input : list N) : string :=
  match (if params then tokenize_params input else tokenize input) with
  | Panic s => "PANIC " ++ s
  | Val [] => "-"
  | Val l => join " " (map show_titem l)
  end.

(* grammar-stream cases of C04: the AST is rendered and tokenised by the SPEC (Grammar.v); any
   disagreement between the spec's rendering and the generator's bytes, a non-well-formed AST,
   or spec tokens differing from the model lexer's tokens shows up as a marker *)
From VF Require Import Grammar.
Definition run_lexspec (m : msg) (pybytes : list N) : string :=
  let r := run_lex false pybytes in
  let spec := match tokens_of m with [] => "-" | l => join " " (map show_token l) end in
  r ++ (if wf_msg m then "" else " !wf")
    ++ (if bytes_eqb (render_msg m) pybytes then "" else " !render")
    ++ (if String.eqb spec r then "" else " !tokens").

(* ---- kind tree (C01, C02, C05, C06, C10, C11): scripted handlers on a run-time tree ---- *)
From VF Require Import Response Tree Scripted.
Definition show_lentry (e : lentry) : string :=
  match e with
  | LCall id q => show_N id ++ (if q then "q" else "e")
  | LTok t => "p" ++ show_token t
  | LTyped => "pT"
  | LAbsent => "pA"
  | LPullErr c => "pE" ++ show_Z c
  end.
Definition show_run (capd : bool) (r : outcome (run_result slog)) : string :=
  match r with
  | Panic s => "PANIC " ++ s
  | Val r =>
    (match r_err r with None => "OK" | Some e => show_error e end)
    ++ " out=" ++ show_bytes (r_out r)
    ++ " hook=" ++ (match r_hook r with [] => "-" | l => join "," (map show_error l) end)
    ++ " alloc=" ++ (if capd then "0" else "x")
    ++ " log=" ++ (match r_dev r with [] => "-" | l => join "," (map show_lentry l) end)
  end.
Definition run_tree (cap : option nat) (sub : list (tree slog)) (msgs : list (list N)) : string :=
  let root := Branch [82; 79; 79; 84]%N false sub in
  join " | " (map (fun m => show_run (match cap with Some _ => true | None => false end)
                                     (run root m [] (mkFmt cap []))) msgs).

(* ---- C02 spec validation: all designations of a header vs the dispatcher's resolution ---- *)
From VF Require Import HeaderSpec Grammar.
Definition show_desig (x : command slog * tree slog) : string :=
  show_N (cid (fst x)) ++ "@" ++ show_bytes (node_name (snd x)).
Definition run_desig (sub : list (tree slog)) (ms : list (list N)) (query : bool) : string :=
  let root := Branch [82; 79; 79; 84]%N false sub in
  let toks := List.app (map IOk (tokens_path ms)) (if query then [IOk THeaderQuerySuffix] else []) in
  (match desig root root ms with [] => "-" | l => join "," (map show_desig l) end)
  ++ " " ++ match resolve root root toks with
            | RFound c q lf _ => "R" ++ show_N (cid c) ++ (if q then "q" else "e") ++ "@" ++ show_bytes (node_name lf)
            | RFail e _ => "E" ++ show_Z e
            end.

(* ---- kind conv (C07, C08): TryFrom<Token> of the first token of the lexed bytes ---- *)
From VF Require Import Conv.
From Coq Require Import Floats.SpecFloat.
Inductive cty := CInt (t : ity) | CFloat (t : fty) | CBool | CBytes (t : bty).
Fixpoint hex_of_Z_aux (n : nat) (z : Z) (acc : string) : string :=
  match n with O => acc | S n' => hex_of_Z_aux n' (z / 16) (String (digit_char (Z.to_N (z mod 16))) acc) end.
Definition show_res {A} (r : outcome (res A)) (f : A -> string) : string :=
  match r with
  | Panic s => "PANIC " ++ s
  | Val (Ok a) => f a
  | Val (Err e) => "E" ++ show_Z e
  end.
Definition conv_show (ty : cty) (t : token) : string :=
  match ty with
  | CInt it => show_res (conv_int it t) (fun z => "I" ++ show_Z z)
  | CFloat ft => show_res (conv_float ft t)
                   (fun v => "F" ++ hex_of_Z_aux (match ft with F32 => 8 | F64 => 16 end) (sf_bits ft v) "")
  | CBool => show_res (conv_bool t) (fun b => if b then "B1" else "B0")
  | CBytes bt => show_res (conv_bytes bt t) (fun s => "Y" ++ show_bytes s)
  end.
Definition run_conv (ty : cty) (input : list N) : string :=
  match tokenize_params input with
  | Panic s => "PANIC " ++ s
  | Val [] => "-"
  | Val (IErr e :: _) => "L" ++ show_Z e
  | Val (IOk t :: _) => if is_data t then conv_show ty t else "N"
  end.

(* ---- kind fmt (C09): response text of a value and its round trip through lexer + conversion ---- *)
Definition run_fmt (d : rdata) (back : option cty) : string :=
  match response_text d with
  | (_, Some e) => "E" ++ show_Z e ++ " -"
  | (text, None) =>
    show_bytes text ++ " " ++
    match back with
    | None => "-"
    | Some ty =>
      match tokenize_params text with
      | Panic s => "PANIC " ++ s
      | Val [] => "-"
      | Val (IErr e :: _) => "L" ++ show_Z e
      | Val (IOk t :: rest) =>
        (if is_data t then conv_show ty t else "N") ++ (match rest with [] => "" | _ => "+MORE" end)
      end
    end
  end.

(* ---- kind nv (C17): NumericValue<T>::try_from + NumericBuilder ---- *)
From VF Require Import Numeric.
Definition show_resZ (r : res Z) : string := match r with Ok z => "I" ++ show_Z z | Err e => "E" ++ show_Z e end.
Definition show_sfbits (ft : fty) (v : spec_float) : string :=
  "F" ++ hex_of_Z_aux (match ft with F32 => 8 | F64 => 16 end) (sf_bits ft v) "".
Definition run_nv_int (t : ity) (input : list N) (ops : list (@bop Z)) : string :=
  match tokenize_params input with
  | Val (IOk tok :: _) =>
    match nv_try_from (conv_int t) tok with
    | Panic s => "PANIC " ++ s
    | Val (Err e) => "E" ++ show_Z e ++ " -"
    | Val (Ok v) =>
      (match v with NVal z => "VI" ++ show_Z z | NMax => "MAX" | NMin => "MIN" | NDef => "DEF" | NUp => "UP" | NDown => "DOWN" end)
      ++ " " ++ show_resZ (finish Z.leb (build (ity_max t) (ity_min t) v ops))
    end
  | Val (IErr e :: _) => "L" ++ show_Z e
  | _ => "N"
  end.
Definition run_nv_float (t : fty) (input : list N) (ops : list (@bop spec_float)) : string :=
  match tokenize_params input with
  | Val (IOk tok :: _) =>
    match nv_try_from (conv_float t) tok with
    | Panic s => "PANIC " ++ s
    | Val (Err e) => "E" ++ show_Z e ++ " -"
    | Val (Ok v) =>
      (match v with NVal z => "V" ++ show_sfbits t z | NMax => "MAX" | NMin => "MIN" | NDef => "DEF" | NUp => "UP" | NDown => "DOWN" end)
      ++ " " ++ match finish SFleb (build (sf_max t false) (sf_max t true) v ops) with
                | Ok z => show_sfbits t z | Err e => "E" ++ show_Z e end
    end
  | Val (IErr e :: _) => "L" ++ show_Z e
  | _ => "N"
  end.

(* ---- kind enum (C20): derived enums ---- *)
From VF Require Import Enum.
Definition show_optnat (o : option nat) : string := match o with Some i => "V" ++ show_nat i | None => "N" end.
(* candidate: from_mnemonic, and TryFrom of the first token of the lexed candidate *)
Definition run_enum (defs : enum_def) (cand : list N) : string :=
  show_optnat (from_mnemonic defs cand) ++ " " ++
  match tokenize_params cand with
  | Val (IOk t :: _) => if is_data t then match enum_try_from defs t with Ok i => "V" ++ show_nat i | Err e => "E" ++ show_Z e end else "N"
  | Val (IErr e :: _) => "L" ++ show_Z e
  | _ => "N"
  end.
(* per variant: mnemonic, short form, response text and the variant the response text selects *)
Definition run_enumv (defs : enum_def) : string :=
  join ";" (map (fun m => show_bytes m ++ "," ++ show_bytes (short_form m) ++ "," ++ show_bytes (enum_response m) ++ ","
                          ++ show_optnat (from_mnemonic defs (enum_response m))) defs).

(* ---- kinds nlist / clist (C19, C01) ---- *)
From VF Require Import Lists.
Definition show_litem {E} (f : E -> string) (i : litem E) : string :=
  match i with IEntry e => f e | IError e => show_error e end.
Definition show_nentry (e : nentry) : string :=
  match e with NNum s => "n" ++ show_bytes s | NRange a b => "r" ++ show_bytes a ++ ":" ++ show_bytes b end.
Definition run_nlist (expr : list N) : string :=
  match nlist_entries expr with
  | Panic s => "PANIC " ++ s
  | Val [] => "-"
  | Val l => join " " (map (show_litem show_nentry) l)
  end.
Definition show_tuple (r : outcome (res (list Z))) : string :=
  match r with
  | Panic s => "PANIC " ++ s
  | Val (Ok zs) => join "_" (map show_Z zs)
  | Val (Err e) => "E" ++ show_Z e
  end.
Definition show_spec (s : cspec) : string :=
  show_nat (sp_dim s) ++ "/" ++
  (match spec_values (sp_text s) with
   | Panic m => "PANIC " ++ m
   | Val [] => "-"
   | Val ds => join "!" (map (fun d => match d with Some z => show_Z z | None => "E" ++ show_Z ExpressionError end) ds)
   end)
  ++ "/" ++ show_tuple (spec_to_tuple 1 s) ++ "/" ++ show_tuple (spec_to_tuple 2 s) ++ "/" ++ show_tuple (spec_to_tuple 3 s)
  ++ "/" ++ show_tuple (spec_to_utuple 1 s) ++ "/" ++ show_tuple (spec_to_utuple 2 s).
Definition show_centry (e : centry) : string :=
  match e with
  | CSpec s => "s" ++ show_spec s
  | CRange a b => "r" ++ show_spec a ++ "~" ++ show_spec b
  | CPath p => "p" ++ show_bytes p
  end.
Definition run_clist (expr : list N) : string :=
  match clist_entries expr with
  | None => "NONE"
  | Some (Panic s) => "PANIC " ++ s
  | Some (Val []) => "-"
  | Some (Val l) => join " " (map (fun i => match i with IEntry e => show_centry e | IError e => "E" ++ show_Z (ecode e) end) l)
  end.

(* C19 grammar-stream cases: the AST is rendered and read by the SPEC (ListGrammar.v); markers on any disagreement *)
From VF Require Import ListGrammar.
Definition run_nlspec (l : list nl_ast) (pybytes : list N) : string :=
  let r := run_nlist pybytes in
  let spec := match l with [] => "-" | _ => join " " (map (fun e => show_nentry (nl_denotes e)) l) end in
  r ++ (if forallb wf_nl_entry l then "" else " !wf")
    ++ (if bytes_eqb (render_nl l) pybytes then "" else " !render")
    ++ (if String.eqb spec r then "" else " !entries").
Definition run_clspec (l : list cl_ast) (pybytes : list N) : string :=
  let r := run_clist pybytes in
  let spec := match l with [] => "-" | _ => join " " (map (fun e => show_centry (cl_denotes e)) l) end in
  r ++ (if forallb wf_cl_entry l then "" else " !wf")
    ++ (if bytes_eqb (render_cl l) pybytes then "" else " !render")
    ++ (if String.eqb spec r then "" else " !entries").

(* ---- kinds unit / ampl / db (C18) ---- *)
From Coq Require Import QArith.
From VF Require Import SuffixSpec Suffix.
Definition show_Q (x : Q) : string := let r := Qred x in "Q" ++ show_Z (Qnum r) ++ "/" ++ show_Z (Zpos (Qden r)).
Definition show_resQ (r : res Q) : string := match r with Ok x => show_Q x | Err e => "E" ++ show_Z e end.
Definition first_data (input : list N) (f : token -> string) : string :=
  match tokenize_params input with
  | Val (IOk t :: _) => if is_data t then f t else "N"
  | Val (IErr e :: _) => "L" ++ show_Z e
  | Panic s => "PANIC " ++ s
  | _ => "N"
  end.
Definition run_unit (q : string) (input : list N) : string := first_data input (fun t => show_resQ (conv_unit q t)).
Definition run_ampl (q : string) (input : list N) : string :=
  first_data input (fun t => let '(c, r) := conv_amplitude q t in
    match r with
    | Ok x => (match c with AmpNone => "None " | AmpPeak => "Peak " | AmpPP => "PP " | AmpRms => "Rms " end) ++ show_Q x
    | Err e => "E" ++ show_Z e
    end).
Definition run_db (q : string) (input : list N) : string :=
  first_data input (fun t => match conv_db q t with
    | DbNone v => "DbNone " ++ show_Q v | DbLinear x => "Linear " ++ show_Q x
    | DbLog v r => "Log " ++ show_Q v ++ " " ++ show_Q r | DbErr e => "E" ++ show_Z e end).

(* ---- kind dev, full stack (C13, C15, C16): real message bytes through lexer, dispatcher and the contrib handlers ---- *)
From VF Require Import Contrib.
Inductive dstep2 :=
| DMsg2 (mav : bool) (msg : list N)
| DSetCond2 (r : regname) (c : N)
| DSetBits2 (r : regname) (mask : N)          (* EventRegister::set_condition_bits *)
| DClrBits2 (r : regname) (mask : N)          (* EventRegister::clear_condition_bits *)
| DSetTst2 (t : option Z).
Fixpoint run_dev2_steps (d : dev) (steps : list dstep2) : list string :=
  match steps with
  | [] => []
  | DMsg2 mav msg :: rest =>
    match dev_message d mav msg with
    | Panic s => ["PANIC " ++ s]
    | Val (d', out, None) => ("OK " ++ show_bytes out ++ " " ++ show_dev d' 0) :: run_dev2_steps d' rest
    | Val (d', _, Some e) => (show_error e ++ " - " ++ show_dev d' 1) :: run_dev2_steps d' rest
    end
  | DSetCond2 r c :: rest =>
    let d' := put_reg d r (reg_set_condition (get_reg d r) c) in
    ("- - " ++ show_dev d' 0) :: run_dev2_steps d' rest
  | DSetBits2 r m :: rest =>
    let d' := put_reg d r (reg_set_condition (get_reg d r) (N.lor (Status.condition (get_reg d r)) m)) in
    ("- - " ++ show_dev d' 0) :: run_dev2_steps d' rest
  | DClrBits2 r m :: rest =>
    let d' := put_reg d r (reg_set_condition (get_reg d r) (N.land (Status.condition (get_reg d r)) (not16 m))) in
    ("- - " ++ show_dev d' 0) :: run_dev2_steps d' rest
  | DSetTst2 t :: rest =>
    let d' := set_tst d t in
    ("- - " ++ show_dev d' 0) :: run_dev2_steps d' rest
  end.
Definition run_dev2 (steps : list dstep2) : string := join " | " (run_dev2_steps dev_init steps).
(* full-stack result, cross-checked against the operation-level model the theorems of C13/C15/C16 are stated for *)
Definition run_dev_both (steps : list dstep2) (ops : list dstep) : string :=
  let a := run_dev2 steps in
  if String.eqb a (run_dev ops) then a else a ++ " !operation-level-model-differs".
(* the model's tree in the harness' `devtree` notation *)
Fixpoint show_tree (t : tree cdev) : string :=
  match t with
  | Leaf n d _ => "L" ++ (if d then "d" else "") ++ show_bytes n ++ ";"
  | Branch n d sub => "B" ++ (if d then "d" else "") ++ show_bytes n ++ "(" ++
      (fix go (l : list (tree cdev)) : string := match l with [] => "" | x :: r => show_tree x ++ go r end) sub ++ ");"
  end.
Definition run_devtree : string := show_tree contrib_tree.
