(* Run.v — the case runner: one canonical result string per case, mirroring
   the Rust harness' output format (harness/src/k_*.rs).  Model file: no proofs. *)
From VF Require Import Base Show Gen_Errors Gen_Esr ErrTable Queue.
Open Scope string_scope.

(* ---- kind queue (C12) ---- *)
Definition show_qout (o : qout error) : string :=
  match o with
  | OPop None => "N"
  | OPop (Some e) => show_error e
  | OLen n => "L" ++ show_nat n ++ (if Nat.eqb n 0 then "e" else "")
  end.
Definition run_queue (cap : nat) (ops : list (qop error)) : string :=
  match q_run error queue_overflow_error (if Nat.eqb cap 0 then None else Some cap) [] ops with
  | Panic s => "PANIC " ++ s
  | Val (q, out) => join " " (map show_qout out ++ ["|"] ++ map show_error q)
  end.

(* ---- kind errtab (C14) ---- *)
Definition show_errtab_entry (c : Z) : string :=
  match get_error c with
  | Some v => show_Z c ++ ":S" ++ show_Z (get_code v) ++ ":" ++ show_bytes (get_message v)
              ++ ":" ++ show_N (esr_mask (get_code v)) ++ ":" ++ show_N (esr_mask c)
  | None => show_Z c ++ ":N:" ++ show_N (esr_mask c)
  end.
Definition run_errtab (lo hi : Z) : string :=
  join ";" (map (fun i => show_errtab_entry (lo + Z.of_nat i)%Z) (seq 0 (Z.to_nat (hi - lo + 1)))).

(* ---- kind mm (C03) ---- *)
From VF Require Import Mnemonic.
Definition run_mm (def : list N) (cands : list (list N)) : string :=
  join " " (map (fun c =>
    let m := mnemonic_match def c in
    show_bool m ++ show_bool (mnemonic_compare def c) ++ show_bool m ++ show_bool m ++ "F") cands).
