(* Show.v — canonical printers used by the case runner (model file, no proofs). *)
From Coq Require Import Ascii.
From VF Require Import Base.
Open Scope string_scope.

Definition digit_char (d : N) : ascii :=
  ascii_of_N (if d <? 10 then 48 + d else 87 + d)%N.

(* decimal printing of N on fuel = number of bits + 1 (always enough) *)
Fixpoint show_N_aux (fuel : nat) (n : N) (acc : string) : string :=
  match fuel with
  | O => acc
  | S f =>
    let acc' := String (digit_char (n mod 10)) acc in
    if (n / 10 =? 0)%N then acc' else show_N_aux f (n / 10) acc'
  end.
Definition show_N (n : N) : string := show_N_aux (S (N.to_nat (N.size n))) n "".
Definition show_Z (z : Z) : string :=
  match z with
  | Z0 => "0"
  | Zpos p => show_N (Npos p)
  | Zneg p => "-" ++ show_N (Npos p)
  end.
Definition show_nat (n : nat) : string := show_N (N.of_nat n).
Definition show_bool (b : bool) : string := if b then "T" else "F".

Definition hex_byte (b : N) : string :=
  String (digit_char ((b / 16) mod 16)) (String (digit_char (b mod 16)) "").
Fixpoint hex_bytes (l : list N) : string :=
  match l with [] => "" | b :: l' => hex_byte b ++ hex_bytes l' end.
(* "-" for the empty byte string so that fields never vanish *)
Definition show_bytes (l : list N) : string :=
  match l with [] => "-" | _ => hex_bytes l end.

Fixpoint join (sep : string) (l : list string) : string :=
  match l with
  | [] => ""
  | [x] => x
  | x :: l' => x ++ sep ++ join sep l'
  end.

Definition show_error (e : error) : string :=
  "E" ++ show_Z (ecode e)
  ++ match ecustom e with None => "" | Some m => "c" ++ show_bytes m end
  ++ match eext e with None => "" | Some x => "x" ++ show_bytes x end.
