(* Contrib_proofs.v — the full-stack device model (Contrib.v: bytes -> lexer -> dispatcher -> contrib
   handlers -> response formatter -> error hook) refines the operation-level device model (Status.v)
   on the canonical program text of the abstract operations (ContribSpec.v). *)
From VF Require Import Base Gen_Errors Gen_Consts ErrTable Fmt Lexer Grammar Grammar_proofs Response Conv Tree Queue
  Status Contrib ContribSpec Fmt_proofs Resp_proofs Tree_proofs.
From Coq Require Import Lia ZifyBool ZifyN ZifyNat.
Open Scope N_scope.

(* ------------------------------------------------------------------ *)
(* 0. the extra hypothesis: every queued error can be formatted         *)
(* ------------------------------------------------------------------ *)
(* ResponseData for Error fails with ExecutionError when the message text of an error WITHOUT
   extended part is not ASCII (Response.chunks_of, RErrItem).  Standard errors always have ASCII
   texts, a custom error text is arbitrary: a device state whose queue holds such an error makes
   SYST:ERR:NEXT? / ALL? fail in the full stack, while the operation-level model answers. *)

(* ------------------------------------------------------------------ *)
(* 1. the canonical text as a Grammar AST                              *)
(* ------------------------------------------------------------------ *)
Definition reg_mn (r : regname) : list byte := match r with Oper => b_ "OPER" | Ques => b_ "QUES" end.
Definition reg_hdr (r : regname) (m : list byte) (q : bool) : header := mkHeader true false [b_ "STAT"; reg_mn r; m] q.
Definition com_hdr (m : list byte) (q : bool) : header := mkHeader false true [m] q.

Definition sop_hdr (o : sop) : header :=
  match o with
  | SReg r RRdEvent => reg_hdr r (b_ "EVEN") true
  | SReg r RRdCondition => reg_hdr r (b_ "COND") true
  | SReg r RRdEnable => reg_hdr r (b_ "ENAB") true
  | SReg r RRdPtr => reg_hdr r (b_ "PTR") true
  | SReg r RRdNtr => reg_hdr r (b_ "NTR") true
  | SReg r (RWrEnable _) => reg_hdr r (b_ "ENAB") false
  | SReg r (RWrPtr _) => reg_hdr r (b_ "PTR") false
  | SReg r (RWrNtr _) => reg_hdr r (b_ "NTR") false
  | SCls => com_hdr (b_ "CLS") false
  | SPreset => mkHeader true false [b_ "STAT"; b_ "PRES"] false
  | SWrEse _ => com_hdr (b_ "ESE") false
  | SWrSre _ => com_hdr (b_ "SRE") false
  | SRdEse => com_hdr (b_ "ESE") true
  | SRdSre => com_hdr (b_ "SRE") true
  | SRdEsr => com_hdr (b_ "ESR") true
  | SRdStb => com_hdr (b_ "STB") true
  | SOpc => com_hdr (b_ "OPC") false
  | SOpcQ => com_hdr (b_ "OPC") true
  | STstQ => com_hdr (b_ "TST") true
  | SRst => com_hdr (b_ "RST") false
  | SWai => com_hdr (b_ "WAI") false
  | SErrNext => mkHeader true false [b_ "SYST"; b_ "ERR"; b_ "NEXT"] true
  | SErrCount => mkHeader true false [b_ "SYST"; b_ "ERR"; b_ "COUN"] true
  | SErrAll => mkHeader true false [b_ "SYST"; b_ "ERR"; b_ "ALL"] true
  | SFail _ => com_hdr (b_ "ERR") false
  | _ => com_hdr (b_ "CLS") false
  end.
Definition sop_arg (o : sop) : option Z :=
  match o with
  | SReg _ (RWrEnable v) | SReg _ (RWrPtr v) | SReg _ (RWrNtr v) | SWrEse v | SWrSre v => Some (Z.of_N v)
  | SFail e => Some (ecode e)
  | _ => None
  end.

Definition arg_text (a : option Z) : list byte := match a with Some z => 32 :: fmt_Z z | None => [] end.
Definition arg_toks (a : option Z) : list token :=
  match a with Some z => [THeaderSeparator; TDec (fmt_Z z)] | None => [] end.
Definition unit_of (h : header) (a : option Z) : munit :=
  mkUnit h (match a with Some _ => [32] | None => [] end)
           (match a with Some z => [(DDec (num_of_Z z), [], [])] | None => [] end).
Definition sop_unit (o : sop) : munit := unit_of (sop_hdr o) (sop_arg o).
Definition utoks (o : sop) : list token := tokens_header (sop_hdr o) ++ arg_toks (sop_arg o).

Lemma render_unit_of : forall h a, render_unit (unit_of h a) = render_header h ++ arg_text a.
Proof.
  intros h [z|]; unfold render_unit, unit_of; cbn [u_header u_hsep u_args render_args render_datum arg_text app].
  - rewrite render_num_of_Z, app_nil_r. reflexivity.
  - reflexivity.
Qed.

Lemma tokens_unit_of : forall h a, tokens_unit (unit_of h a) = tokens_header h ++ arg_toks a.
Proof.
  intros h [z|]; unfold tokens_unit, unit_of; cbn [u_header u_hsep u_args tokens_args token_of_datum arg_toks app].
  - rewrite render_num_of_Z. reflexivity.
  - reflexivity.
Qed.

Lemma wf_unit_of : forall h a, wf_header h = true -> wf_unit (unit_of h a) = true.
Proof.
  intros h [z|] Hh; unfold wf_unit, unit_of; cbn [u_header u_hsep u_args forallb wf_datum]; rewrite Hh.
  - rewrite wf_num_of_Z. reflexivity.
  - reflexivity.
Qed.

Lemma fmt_Z_of_N : forall v, fmt_Z (Z.of_N v) = fmt_N v.
Proof. intros [|p]; reflexivity. Qed.

Lemma sop_text_shape : forall o t, sop_text o = Some t ->
  t = render_header (sop_hdr o) ++ arg_text (sop_arg o).
Proof.
  intros o t H.
  destruct o as [r ro| | |v|v| | | | | | | | | | | | |tt|e]; try destruct ro as [c|v|v|v| | | | | | |]; try destruct r;
    cbn [sop_text] in H; try discriminate H.
  all: try (injection H as <-; cbn [sop_hdr sop_arg arg_text]; try rewrite fmt_Z_of_N;
            try generalize (fmt_N v); intros; vm_compute; reflexivity).
  destruct (ecustom e); [discriminate|]. destruct (eext e); [discriminate|].
  destruct (get_error (ecode e)); [|discriminate].
  injection H as <-. cbn [sop_hdr sop_arg arg_text]. generalize (fmt_Z (ecode e)). intros; vm_compute; reflexivity.
Qed.

Lemma sop_hdr_wf : forall o, wf_header (sop_hdr o) = true.
Proof.
  intros o. destruct o as [r ro| | |v|v| | | | | | | | | | | | |tt|e]; try destruct ro; try destruct r; vm_compute; reflexivity.
Qed.

(* the token stream of the whole message *)
Fixpoint toks_units (us : list sop) : list token :=
  match us with
  | [] => []
  | [o] => utoks o
  | o :: us' => utoks o ++ TUnitSeparator :: toks_units us'
  end.
Definition tail_of (us : list sop) : list token :=
  match us with [] => [] | _ => TUnitSeparator :: toks_units us end.
Lemma toks_units_cons : forall o us, toks_units (o :: us) = utoks o ++ tail_of us.
Proof. intros o [|o' us]; cbn [toks_units tail_of]; [rewrite app_nil_r|]; reflexivity. Qed.

Definition ast_units (us : list sop) : list (munit * list byte) := map (fun o => (sop_unit o, [])) us.

Lemma tokens_ast_units : forall us, tokens_units (ast_units us) = toks_units us.
Proof.
  induction us as [|o us IH]; [reflexivity|].
  destruct us as [|o' us].
  - cbn [ast_units map tokens_units toks_units]. apply tokens_unit_of.
  - change (ast_units (o :: o' :: us)) with ((sop_unit o, []) :: (sop_unit o', []) :: ast_units us).
    rewrite tokens_units_cons2.
    change ((sop_unit o', []) :: ast_units us) with (ast_units (o' :: us)).
    rewrite IH. unfold sop_unit at 1. rewrite tokens_unit_of. reflexivity.
Qed.

Definition unit_text (o : sop) : list byte := match sop_text o with Some t => t | None => [] end.

Lemma render_ast_units : forall us, forallb renderable us = true ->
  render_units (ast_units us) = units_text us.
Proof.
  induction us as [|o us IH]; intros Hr; [reflexivity|].
  cbn [forallb] in Hr. apply andb_prop in Hr. destruct Hr as [Ho Hus].
  assert (Hu : render_unit (sop_unit o) = unit_text o).
  { unfold unit_text, renderable in *. destruct (sop_text o) as [t|] eqn:Et; [|discriminate].
    unfold sop_unit. rewrite render_unit_of. symmetry. apply sop_text_shape. exact Et. }
  destruct us as [|o' us].
  - cbn [ast_units map render_units]. unfold units_text. cbn [map intercalate]. exact Hu.
  - specialize (IH Hus).
    change (ast_units (o :: o' :: us)) with ((sop_unit o, []) :: (sop_unit o', []) :: ast_units us).
    rewrite render_units_cons2.
    change ((sop_unit o', []) :: ast_units us) with (ast_units (o' :: us)).
    cbn [app]. rewrite IH, Hu. unfold units_text. cbn [map intercalate]. reflexivity.
Qed.

Lemma wf_ast_units : forall us, forallb (fun uw => wf_unit (fst uw) && wf_ws (snd uw)) (ast_units us) = true.
Proof.
  induction us as [|o us IH]; [reflexivity|].
  cbn [ast_units map forallb fst snd]. fold (ast_units us). rewrite IH.
  unfold sop_unit. rewrite wf_unit_of by apply sop_hdr_wf. reflexivity.
Qed.

Theorem tokenize_units : forall us, forallb renderable us = true ->
  tokenize (units_text us) = Val (map IOk (toks_units us)).
Proof.
  intros us Hr. destruct us as [|o us].
  - reflexivity.
  - pose proof (lex_faithful (mkMsg [] (ast_units (o :: us)) false)) as H.
    unfold render_msg, tokens_of, wf_msg in H. cbn [m_lead m_units m_nl app] in H.
    rewrite app_nil_r, render_ast_units, tokens_ast_units in H by exact Hr.
    apply H. rewrite wf_ast_units. reflexivity.
Qed.

(* ------------------------------------------------------------------ *)
(* 2. header resolution in the contrib tree                            *)
(* ------------------------------------------------------------------ *)
(* the tree with its commands abstracted, so that resolution can be computed without unfolding handlers *)
Definition rproj {D} (r : @rres D) := match r with RFound c q _ t => Some (c, q, t) | RFail _ _ => None end.

Section TW.
Variable f : nat -> command cdev.
Definition regbr_with (name : list byte) (k : nat) : tree cdev :=
  Branch name false [
    Leaf (b_ "EVENt") true (f (k + 1)%nat);
    Leaf (b_ "CONDition") false (f (k + 2)%nat);
    Leaf (b_ "ENABle") false (f (k + 3)%nat);
    Leaf (b_ "NTRansition") false (f (k + 4)%nat);
    Leaf (b_ "PTRansition") false (f (k + 5)%nat) ].
Definition tree_with : tree cdev :=
  Branch [] false [
    Leaf (b_ "*CLS") false (f 1%nat); Leaf (b_ "*ESE") false (f 2%nat); Leaf (b_ "*ESR") false (f 3%nat); Leaf (b_ "*IDN") false (f 4%nat);
    Leaf (b_ "*OPC") false (f 5%nat); Leaf (b_ "*RST") false (f 6%nat); Leaf (b_ "*SRE") false (f 7%nat); Leaf (b_ "*STB") false (f 8%nat);
    Leaf (b_ "*TST") false (f 9%nat); Leaf (b_ "*WAI") false (f 10%nat);
    Branch (b_ "STATus") false [ regbr_with (b_ "OPERation") 10; regbr_with (b_ "QUEStionable") 20;
                                 Leaf (b_ "PRESet") false (f 30%nat) ];
    Branch (b_ "SYSTem") false [ Branch (b_ "ERRor") false [ Leaf (b_ "NEXT") true (f 31%nat); Leaf (b_ "ALL") false (f 32%nat);
                                                             Leaf (b_ "COUNt") false (f 33%nat) ];
                                 Leaf (b_ "VERSion") false (f 34%nat) ];
    Leaf (b_ "*ERR") false (f 40%nat) ].
End TW.

Definition contrib_cmds (n : nat) : command cdev :=
  match n with
  | 1 => cls_cmd | 2 => ese_cmd | 3 => esr_cmd | 4 => idn_cmd | 5 => opc_cmd | 6 => rst_cmd | 7 => sre_cmd | 8 => stb_cmd
  | 9 => tst_cmd | 10 => wai_cmd
  | 11 => reg_query Oper RRdEvent 11 | 12 => reg_query Oper RRdCondition 12 | 13 => reg_both Oper RWrEnable RRdEnable 13
  | 14 => reg_both Oper RWrNtr RRdNtr 14 | 15 => reg_both Oper RWrPtr RRdPtr 15
  | 21 => reg_query Ques RRdEvent 21 | 22 => reg_query Ques RRdCondition 22 | 23 => reg_both Ques RWrEnable RRdEnable 23
  | 24 => reg_both Ques RWrNtr RRdNtr 24 | 25 => reg_both Ques RWrPtr RRdPtr 25
  | 30 => preset_cmd | 31 => err_next_cmd | 32 => err_all_cmd | 33 => err_count_cmd | 34 => version_cmd
  | 40 => err_cmd
  | _ => cls_cmd
  end%nat.

Lemma contrib_tree_with : contrib_tree = tree_with contrib_cmds.
Proof. reflexivity. Qed.


Definition reg_idx (r : regname) : nat := match r with Oper => 10 | Ques => 20 end.
Definition sop_idx (o : sop) : nat :=
  match o with
  | SReg r RRdEvent => reg_idx r + 1
  | SReg r RRdCondition => reg_idx r + 2
  | SReg r RRdEnable | SReg r (RWrEnable _) => reg_idx r + 3
  | SReg r RRdNtr | SReg r (RWrNtr _) => reg_idx r + 4
  | SReg r RRdPtr | SReg r (RWrPtr _) => reg_idx r + 5
  | SCls => 1 | SWrEse _ | SRdEse => 2 | SRdEsr => 3 | SOpc | SOpcQ => 5 | SRst => 6 | SWrSre _ | SRdSre => 7
  | SRdStb => 8 | STstQ => 9 | SWai => 10 | SPreset => 30 | SErrNext => 31 | SErrAll => 32 | SErrCount => 33
  | SFail _ => 40
  | _ => 0
  end%nat.

Definition rest_ok (rest : list titem) : Prop :=
  rest = [] \/ (exists r, rest = IOk THeaderSeparator :: r) \/ (exists r, rest = IOk TUnitSeparator :: r).

Lemma resolve_with : forall f o rest, renderable o = true -> rest_ok rest ->
  rproj (resolve (tree_with f) (tree_with f) (map IOk (tokens_header (sop_hdr o)) ++ rest))
  = Some (f (sop_idx o), h_query (sop_hdr o), skip_header_sep rest).
Proof.
  intros f o rest Hr Hrest.
  destruct o as [r ro| | |v|v| | | | | | | | | | | | |tt|e]; try destruct ro as [c|v|v|v| | | | | | |]; try destruct r;
    try discriminate Hr.
  all: destruct Hrest as [->|[[r ->]|[r ->]]]; vm_compute; reflexivity.
Qed.

Lemma resolve_with_abs : forall f o t rest, renderable o = true -> rest_ok rest ->
  tokens_header (sop_hdr o) = THeaderMnemonicSeparator :: t ->
  rproj (resolve (tree_with f) (tree_with f) (map IOk t ++ rest))
  = Some (f (sop_idx o), h_query (sop_hdr o), skip_header_sep rest).
Proof.
  intros f o t rest Hr Hrest Ht.
  destruct o as [r ro| | |v|v| | | | | | | | | | | | |tt|e]; try destruct ro as [c|v|v|v| | | | | | |]; try destruct r;
    try discriminate Hr; try discriminate Ht.
  all: injection Ht as <-; destruct Hrest as [->|[[r ->]|[r ->]]]; vm_compute; reflexivity.
Qed.

Lemma hdr_first : forall o, renderable o = true ->
  (exists t, tokens_header (sop_hdr o) = THeaderMnemonicSeparator :: t) \/
  (exists m t, tokens_header (sop_hdr o) = TMnemonic (42 :: m) :: t).
Proof.
  intros o Hr.
  destruct o as [r ro| | |v|v| | | | | | | | | | | | |tt|e]; try destruct ro as [c|v|v|v| | | | | | |];
    try discriminate Hr.
  all: first [ left; eexists; reflexivity | right; do 2 eexists; reflexivity ].
Qed.

Definition sop_cmd (o : sop) : command cdev := contrib_cmds (sop_idx o).

Definition same_res (r1 r2 : xres cdev) : Prop :=
  match r1, r2 with
  | XOk _ s1, XOk _ s2 => s1 = s2
  | XErr e1 s1, XErr e2 s2 => e1 = e2 /\ s1 = s2
  | _, _ => False
  end.

Lemma run_handler_toks : forall (c : command cdev) q leaf s t toks,
  run_handler c q leaf (with_toks s t) toks = run_handler c q leaf s toks.
Proof. reflexivity. Qed.

Lemma same_res_leaf : forall (c : command cdev) q l1 l2 s toks,
  same_res (run_handler c q l1 s toks) (run_handler c q l2 s toks).
Proof.
  intros. unfold run_handler. destruct q.
  - destruct (response_unit (x_fmt s)); [|cbn; auto].
    destruct (run_prog _ _ _ _) as [[[? ?] ?] [e|]]; cbn; auto.
  - destruct (run_prog _ _ _ _) as [[[? ?] ?] [e|]]; cbn; auto.
Qed.

Lemma unit_body_unit : forall o leaf s rest, renderable o = true -> rest_ok rest ->
  x_toks s = map IOk (tokens_header (sop_hdr o)) ++ rest ->
  exists r, unit_body contrib_tree leaf s = UExec r /\
            same_res r (run_handler (sop_cmd o) (h_query (sop_hdr o)) leaf s (skip_header_sep rest)).
Proof.
  intros o leaf s rest Hr Hrest Htoks.
  destruct (hdr_first o Hr) as [[t Ht]|[m [t Ht]]].
  - pose proof (resolve_with_abs contrib_cmds o t rest Hr Hrest Ht) as Hres.
    unfold unit_body. rewrite Htoks, Ht. cbn [map app].
    unfold exec. cbn [x_toks with_toks]. rewrite contrib_tree_with.
    destruct (resolve _ _ _) as [c q lf tk|e tk]; cbn [rproj] in Hres; [|discriminate].
    injection Hres as -> -> ->. eexists; split; [reflexivity|].
    rewrite run_handler_toks. apply same_res_leaf.
  - pose proof (resolve_with contrib_cmds o rest Hr Hrest) as Hres.
    unfold unit_body. rewrite Htoks, Ht. cbn [map app starts_with_star].
    unfold exec. rewrite Htoks, Ht. cbn [map app]. rewrite Ht in Hres. cbn [map app] in Hres.
    rewrite contrib_tree_with.
    destruct (resolve _ _ _) as [c q lf tk|e tk]; cbn [rproj] in Hres; [|discriminate].
    injection Hres as -> -> ->.
    fold (sop_cmd o).
    pose proof (same_res_leaf (sop_cmd o) (h_query (sop_hdr o)) lf leaf s (skip_header_sep rest)) as Hs.
    destruct (run_handler (sop_cmd o) (h_query (sop_hdr o)) lf s (skip_header_sep rest)) as [l1 s1|e1 s1];
      eexists; (split; [reflexivity|]).
    + destruct (run_handler _ _ leaf _ _); cbn in *; auto.
    + exact Hs.
Qed.

(* ------------------------------------------------------------------ *)
(* 3. the handlers                                                     *)
(* ------------------------------------------------------------------ *)
Lemma run_answer : forall (s' : cdev) x toks b, snd (chunks_of x) = None ->
  run_prog (answer s' x) toks (mkFmt None b) (Some runit_new)
  = (toks, s', mkFmt None (b ++ List.concat (fst (chunks_of x))), None).
Proof.
  intros s' x toks b H. unfold answer. cbn [run_prog]. unfold ru_data.
  cbn [ru_result runit_new has_data has_header push_all]. rewrite format_data_None, H.
  cbn [ru_result option_map]. reflexivity.
Qed.

Lemma run_pull_int : forall t (s : cdev) k z rest f u, (ity_min t <= z <= ity_max t)%Z ->
  run_prog (pull_int t s k) (IOk (TDec (fmt_Z z)) :: rest) f u = run_prog (k z) rest f u.
Proof.
  intros t s k z rest f u H. unfold pull_int. cbn [run_prog next_token next_optional_token is_data].
  destruct (int_dec_rt t z H) as [_ ->]. reflexivity.
Qed.

Definition items_text (b : list byte) (items : option (list ritem)) : list byte :=
  match items with
  | None => []
  | Some it => match b with [] => [] | _ => [59] end ++ intercalate [44] (map render_ritem it)
  end.

Definition tail_ok (tail : list token) : Prop := tail = [] \/ exists t, tail = TUnitSeparator :: t.

Definition handler_post (mav : bool) (d : dev) (o : sop) (b : list byte) (leaf : tree cdev) (tail : list token) (r : xres cdev) : Prop :=
  match sop_step mav d o with
  | (d', items, err) => exists tr',
      r = match err with
          | Some e => XErr e (mkX (map IOk tail) (d', mav) (mkFmt None b) tr')
          | None => XOk leaf (mkX (map IOk tail) (d', mav) (mkFmt None (b ++ items_text b items)) tr')
          end
  end.

Lemma skip_tail : forall tail, tail_ok tail -> skip_header_sep (map IOk tail) = map IOk tail.
Proof. intros tail [->|[t ->]]; reflexivity. Qed.


Lemma run_query_answer : forall (c : command cdev) leaf T dv b tr toks s' x items,
  qu c dv = answer s' x -> snd (chunks_of x) = None ->
  List.concat (fst (chunks_of x)) = intercalate [44] (map render_ritem items) ->
  exists tr', run_handler c true leaf (mkX T dv (mkFmt None b) tr) toks
              = XOk leaf (mkX toks s' (mkFmt None (b ++ items_text b (Some items))) tr').
Proof.
  intros c leaf T dv b tr toks s' x items Hq Hs Ht. unfold run_handler. cbn [x_fmt x_dev x_trace].
  rewrite response_unit_None, Hq, run_answer by exact Hs. rewrite Ht. unfold items_text.
  rewrite <- app_assoc. eexists. reflexivity.
Qed.

Lemma run_event_done : forall (c : command cdev) leaf T dv b tr toks s',
  ev c dv = Done s' RetOk ->
  exists tr', run_handler c false leaf (mkX T dv (mkFmt None b) tr) toks
              = XOk leaf (mkX toks s' (mkFmt None (b ++ items_text b None)) tr').
Proof.
  intros c leaf T dv b tr toks s' He. unfold run_handler. cbn [x_fmt x_dev x_trace].
  rewrite He. cbn [run_prog items_text]. rewrite app_nil_r. eexists. reflexivity.
Qed.

Lemma run_event_pull : forall (c : command cdev) leaf T dv b tr rest t k z s',
  ev c dv = pull_int t dv k -> (ity_min t <= z <= ity_max t)%Z -> k z = Done s' RetOk ->
  exists tr', run_handler c false leaf (mkX T dv (mkFmt None b) tr) (IOk (TDec (fmt_Z z)) :: rest)
              = XOk leaf (mkX rest s' (mkFmt None (b ++ items_text b None)) tr').
Proof.
  intros c leaf T dv b tr rest t k z s' He Hz Hk. unfold run_handler. cbn [x_fmt x_dev x_trace].
  rewrite He, run_pull_int, Hk by exact Hz. cbn [run_prog items_text]. rewrite app_nil_r. eexists. reflexivity.
Qed.


Lemma double_q_quotes : forall s, double_q 34 s = double_quotes s.
Proof. induction s as [|c s IH]; [reflexivity|]. cbn [double_q double_quotes]. rewrite IH. reflexivity. Qed.

Lemma err_chunks : forall e, err_printable e = true ->
  snd (chunks_of (RErrItem e)) = None /\ List.concat (fst (chunks_of (RErrItem e))) = render_ritem (RErr e).
Proof.
  intros e He. unfold err_printable in He. cbn [chunks_of render_ritem]. unfold fmt_quoted.
  destruct (eext e) as [x|].
  - split; [reflexivity|]. cbn [fst]. repeat rewrite concat_app. repeat rewrite quoted_body_concat.
    rewrite <- double_q_quotes, double_q_app. cbn [double_q]. change (59 =? 34) with false. cbv iota.
    cbn [List.concat app]. repeat rewrite app_nil_r. repeat rewrite <- app_assoc. reflexivity.
  - rewrite He. split; [reflexivity|]. cbn [fst]. repeat rewrite concat_app. rewrite quoted_body_concat.
    rewrite <- double_q_quotes. cbn [List.concat app]. repeat rewrite app_nil_r. repeat rewrite <- app_assoc. reflexivity.
Qed.

Definition emit_all (s0 : cdev) : list error -> hprog cdev :=
  fix emit (l : list error) : hprog cdev :=
    match l with
    | [] => Done s0 RetFinish
    | e :: l' => Emit (RErrItem e) (emit l')
    end.

Lemma run_emit_all : forall l s0 toks b, forallb err_printable l = true ->
  run_prog (emit_all s0 l) toks (mkFmt None b) (Some (mkRunit None false true))
  = (toks, s0, mkFmt None (b ++ List.concat (map (fun e => 44 :: render_ritem (RErr e)) l)), None).
Proof.
  induction l as [|e l IH]; intros s0 toks b Hl.
  - cbn [emit_all run_prog map List.concat ru_result option_map]. rewrite app_nil_r. reflexivity.
  - cbn [forallb] in Hl. apply andb_prop in Hl. destruct Hl as [He Hl].
    destruct (err_chunks e He) as [Hs Ht].
    cbn [emit_all run_prog]. fold (emit_all s0). unfold ru_data. cbn [ru_result has_data has_header].
    rewrite push_all_None, format_data_None, Hs, Ht. cbn [List.concat app].
    rewrite IH by exact Hl. cbn [map List.concat]. repeat rewrite <- app_assoc. reflexivity.
Qed.

Lemma run_emit_first : forall e l s0 toks b, forallb err_printable (e :: l) = true ->
  run_prog (emit_all s0 (e :: l)) toks (mkFmt None b) (Some runit_new)
  = (toks, s0, mkFmt None (b ++ intercalate [44] (map render_ritem (map RErr (e :: l)))), None).
Proof.
  intros e l s0 toks b Hl. cbn [forallb] in Hl. apply andb_prop in Hl. destruct Hl as [He Hl].
  destruct (err_chunks e He) as [Hs Ht].
  cbn [emit_all run_prog]. fold (emit_all s0). unfold ru_data. cbn [ru_result has_data has_header runit_new push_all].
  rewrite format_data_None, Hs, Ht, run_emit_all by exact Hl.
  cbn [map]. rewrite intercalate_flat, map_map, map_map, <- app_assoc. reflexivity.
Qed.

Lemma handler_step : forall o mav d b tr leaf T tail, renderable o = true -> queue_printable d = true -> tail_ok tail ->
  handler_post mav d o b leaf tail
    (run_handler (sop_cmd o) (h_query (sop_hdr o)) leaf (mkX T (d, mav) (mkFmt None b) tr)
       (skip_header_sep (map IOk (arg_toks (sop_arg o) ++ tail)))).
Proof.
  intros o mav d b tr leaf T tail Hr Hq Htail.
  destruct o as [r ro| | |v|v| | | | | | | | | | | | |tt|e]; try destruct ro as [c|v|v|v| | | | | | |];
    try discriminate Hr.
  all: unfold handler_post; cbn [sop_arg arg_toks app map]; try rewrite (skip_tail tail Htail); cbn [skip_header_sep].
  all: try destruct r; destruct d as [q es ee sr op qs ts].
  all: cbn [sop_cmd sop_idx contrib_cmds reg_idx Nat.add sop_hdr com_hdr reg_hdr h_query].
  all: cbn [sop_step get_reg put_reg reg_step oper ques queue esr ese sre tst_result option_map set_oper set_ques].
  all: try (eapply run_query_answer; [reflexivity | reflexivity | 
        cbn [chunks_of fst List.concat map render_ritem intercalate]; rewrite app_nil_r; try rewrite fmt_Z_of_N; try rewrite nat_N_Z; reflexivity]).
  all: try (eapply run_event_done; reflexivity).

  all: try (unfold renderable in Hr; cbn [sop_text sop_wf] in Hr;
            eapply run_event_pull; [reflexivity | cbn [ity_min ity_max]; lia | cbv beta; rewrite N2Z.id; reflexivity]).


  - (* SErrNext *)
    unfold queue_printable in Hq. cbn [queue] in Hq.
    destruct q as [|e0 q0].
    + eapply run_query_answer; [reflexivity | apply err_chunks; reflexivity |].
      cbn [map intercalate]. apply err_chunks. reflexivity.
    + cbn [forallb] in Hq. apply andb_prop in Hq. destruct Hq as [He0 Hq0].
      eapply run_query_answer; [reflexivity | apply err_chunks; exact He0 |].
      cbn [map intercalate]. apply err_chunks. exact He0.
  - (* SErrCount *)
    eapply run_query_answer; [reflexivity | reflexivity |].
    cbn [chunks_of fst List.concat map render_ritem intercalate]. rewrite app_nil_r, <- nat_N_Z, fmt_Z_of_N. reflexivity.
  - (* SErrAll *)
    unfold queue_printable in Hq. cbn [queue] in Hq.
    destruct q as [|e0 q0].
    + eapply run_query_answer; [reflexivity | apply err_chunks; reflexivity |].
      cbn [map intercalate]. apply err_chunks. reflexivity.
    + unfold run_handler. cbn [x_fmt x_dev x_trace]. rewrite response_unit_None.
      change (qu err_all_cmd ({| queue := e0 :: q0; esr := es; ese := ee; sre := sr; oper := op; ques := qs; tst_result := ts |}, mav))
        with (emit_all (set_queue {| queue := e0 :: q0; esr := es; ese := ee; sre := sr; oper := op; ques := qs; tst_result := ts |} [], mav) (e0 :: q0)).
      rewrite run_emit_first by exact Hq. unfold items_text. rewrite <- app_assoc. eexists. reflexivity.
  - (* SFail *)
    unfold renderable in Hr. cbn [sop_text sop_wf] in Hr. destruct e as [code cu ex]. cbn [ecode ecustom eext] in *.
    destruct cu; [discriminate|]. destruct ex; [discriminate|]. destruct (get_error code) eqn:Eg; [|discriminate].
    unfold run_handler, err_cmd, cmd. cbn [ev x_fmt x_dev x_trace].
    rewrite run_pull_int by (cbn [ity_min ity_max]; lia).
    destruct Htail as [->|[t ->]]; cbn [run_prog map next_optional_token is_data]; rewrite Eg; eexists; reflexivity.
Qed.

(* ------------------------------------------------------------------ *)
(* 4. one unit through the dispatcher                                  *)
(* ------------------------------------------------------------------ *)
Definition unit_post (mav : bool) (d : dev) (o : sop) (b : list byte) (tail : list token) (r : xres cdev) : Prop :=
  match sop_step mav d o with
  | (d', items, err) => exists tr',
      match err with
      | Some e => r = XErr e (mkX (map IOk tail) (d', mav) (mkFmt None b) tr')
      | None => exists lf, r = XOk lf (mkX (map IOk tail) (d', mav) (mkFmt None (b ++ items_text b items)) tr')
      end
  end.

Lemma unit_step : forall o mav d b tr leaf tail, renderable o = true -> queue_printable d = true -> tail_ok tail ->
  exists r, unit_body contrib_tree leaf (mkX (map IOk (utoks o ++ tail)) (d, mav) (mkFmt None b) tr) = UExec r /\
            unit_post mav d o b tail r.
Proof.
  intros o mav d b tr leaf tail Hr Hq Htail.
  set (s := mkX (map IOk (utoks o ++ tail)) (d, mav) (mkFmt None b) tr).
  assert (Hrest : rest_ok (map IOk (arg_toks (sop_arg o) ++ tail))).
  { destruct (sop_arg o) as [z|]; cbn [arg_toks app map].
    - right; left. eexists; reflexivity.
    - destruct Htail as [->|[t ->]]; [left; reflexivity | right; right; eexists; reflexivity]. }
  assert (Htoks : x_toks s = map IOk (tokens_header (sop_hdr o)) ++ map IOk (arg_toks (sop_arg o) ++ tail)).
  { unfold s, utoks. cbn [x_toks]. rewrite <- map_app, app_assoc. reflexivity. }
  destruct (unit_body_unit o leaf s _ Hr Hrest Htoks) as [r [Hb Hsame]].
  exists r. split; [exact Hb|].
  pose proof (handler_step o mav d b tr leaf (map IOk (utoks o ++ tail)) tail Hr Hq Htail) as Hh.
  fold s in Hh. unfold handler_post in Hh. unfold unit_post.
  destruct (sop_step mav d o) as [[d' items] err]. destruct Hh as [tr' Hh]. exists tr'.
  rewrite Hh in Hsame. destruct err as [e|]; destruct r as [lf s1|e1 s1]; cbn [same_res] in Hsame; try contradiction.
  - destruct Hsame as [-> ->]. reflexivity.
  - subst s1. exists lf. reflexivity.
Qed.

(* ------------------------------------------------------------------ *)
(* 5. invariants of the operation-level step                           *)
(* ------------------------------------------------------------------ *)
Lemma step_printable : forall o mav d, renderable o = true -> queue_printable d = true ->
  queue_printable (fst (fst (sop_step mav d o))) = true.
Proof.
  intros o mav d Hr Hq. unfold queue_printable in *.
  destruct o as [r ro| | |v|v| | | | | | | | | | | | |tt|e]; try destruct ro as [c|v|v|v| | | | | | |];
    try discriminate Hr; try destruct r; destruct d as [q es ee sr op qs ts]; cbn [queue] in Hq;
    cbn [sop_step get_reg put_reg reg_step oper ques queue esr ese sre tst_result option_map set_oper set_ques
         set_ese set_sre set_esr set_queue scpi_cls scpi_preset scpi_opc fst snd]; try exact Hq; try reflexivity.
  - rewrite forallb_app, Hq. reflexivity.
  - destruct q as [|e0 q0]; cbn [fst queue set_queue]; [reflexivity|].
    cbn [forallb] in Hq. apply andb_prop in Hq. tauto.
  - destruct q as [|e0 q0]; cbn [fst queue set_queue]; reflexivity.
Qed.

Lemma step_items_nonempty : forall o mav d d' items err,
  sop_step mav d o = (d', Some items, err) -> items <> [].
Proof.
  intros o mav d d' items err H.
  destruct o as [r ro| | |v|v| | | | | | | | | | | | |tt|e]; try destruct ro as [c|v|v|v| | | | | | |];
    cbn [sop_step reg_step option_map] in H; try (injection H as <- <- <-; discriminate); try discriminate H.
  - destruct (queue d); injection H as <- <- <-; discriminate.
  - destruct (queue d); injection H as <- <- <-; discriminate.
Qed.

(* ------------------------------------------------------------------ *)
(* 6. the response buffer along the message                            *)
(* ------------------------------------------------------------------ *)
Definition acc_ok (acc : list (list ritem)) : Prop := Forall (fun u => u <> []) acc.
Definition acc_next (acc : list (list ritem)) (items : option (list ritem)) : list (list ritem) :=
  match items with Some it => acc ++ [it] | None => acc end.

Lemma render_ritem_nonempty : forall i, render_ritem i <> [].
Proof.
  intros [n|z|e]; cbn [render_ritem].
  - apply fmt_N_nonempty.
  - apply fmt_Z_nonempty.
  - intros H. apply app_eq_nil in H. destruct H as [H _]. exact (fmt_Z_nonempty _ H).
Qed.

Lemma unit_render_nonempty : forall u, u <> [] -> intercalate [44] (map render_ritem u) <> [].
Proof.
  intros u Hu. apply intercalate_nonempty.
  - apply Forall_forall. intros t Ht. apply in_map_iff in Ht. destruct Ht as [i [<- _]]. apply render_ritem_nonempty.
  - destruct u; [congruence | discriminate].
Qed.

Lemma render_partial_nil : forall acc, acc_ok acc -> render_partial acc = [] -> acc = [].
Proof.
  intros acc Hok H. destruct acc as [|u acc]; [reflexivity|]. exfalso.
  revert H. apply intercalate_nonempty; [|discriminate].
  apply Forall_forall. intros t Ht. apply in_map_iff in Ht. destruct Ht as [u' [<- Hin]].
  apply unit_render_nonempty. unfold acc_ok in Hok. rewrite Forall_forall in Hok. apply Hok. exact Hin.
Qed.

Lemma buf_step : forall acc items, acc_ok acc -> (forall it, items = Some it -> it <> []) ->
  render_partial acc ++ items_text (render_partial acc) items = render_partial (acc_next acc items)
  /\ acc_ok (acc_next acc items).
Proof.
  intros acc [it|] Hok Hit; cbn [acc_next items_text].
  - split.
    + unfold render_partial at 3. rewrite map_app. cbn [map]. rewrite intercalate_snoc.
      fold (render_partial acc).
      destruct acc as [|u acc]; [reflexivity|].
      cbn [map].
      destruct (render_partial (u :: acc)) eqn:E; [|reflexivity].
      apply render_partial_nil in E; [discriminate | exact Hok].
    + apply Forall_app. split; [exact Hok|]. constructor; [|constructor]. apply Hit. reflexivity.
  - rewrite app_nil_r. split; [reflexivity | exact Hok].
Qed.

Lemma finish_ok : forall toks (dv : cdev) acc tr, acc_ok acc ->
  finish_message (mkX toks dv (mkFmt None (render_partial acc)) tr)
  = (mkX toks dv (mkFmt None (render_response acc)) tr, Ok tt).
Proof.
  intros toks dv acc tr Hok. unfold finish_message. cbn [x_fmt buf x_toks x_dev x_trace].
  destruct (render_partial acc) eqn:E.
  - apply render_partial_nil in E; [|exact Hok]. subst acc. reflexivity.
  - unfold message_end. rewrite push_None. destruct acc as [|u acc]; [discriminate E|].
    unfold render_response. fold (render_partial (u :: acc)). rewrite E. reflexivity.
Qed.

(* msg_run without the final push_error *)
Fixpoint msg_run0 (mav : bool) (d : dev) (units : list sop) (acc : list (list ritem))
  : dev * list (list ritem) * option error :=
  match units with
  | [] => (d, acc, None)
  | o :: units' =>
    match sop_step mav d o with
    | (d', _, Some e) => (d', acc, Some e)
    | (d', items, None) => msg_run0 mav d' units' (acc_next acc items)
    end
  end.

Lemma msg_run_0 : forall mav us d acc,
  msg_run mav d us acc =
  let '(d', out, e) := msg_run0 mav d us acc in
  (match e with Some x => push_error d' x | None => d' end, out, e).
Proof.
  induction us as [|o us IH]; intros d acc; [reflexivity|].
  cbn [msg_run msg_run0]. destruct (sop_step mav d o) as [[d' items] [e|]]; [destruct items; reflexivity|].
  destruct items as [it|]; cbn [acc_next]; apply IH.
Qed.

(* ------------------------------------------------------------------ *)
(* 7. the unit loop                                                    *)
(* ------------------------------------------------------------------ *)
Lemma tail_of_ok : forall us, tail_ok (tail_of us).
Proof. intros [|o us]; [left; reflexivity | right; eexists; reflexivity]. Qed.

Lemma loop_ok : forall mav us fuel leaf d acc tr,
  forallb renderable us = true -> queue_printable d = true -> acc_ok acc ->
  (length (toks_units us) < fuel)%nat ->
  match msg_run0 mav d us acc with
  | (d', out, e) =>
    exists s', unit_loop fuel contrib_tree leaf (mkX (map IOk (toks_units us)) (d, mav) (mkFmt None (render_partial acc)) tr)
               = Val (s', e)
            /\ x_dev s' = (d', mav)
            /\ buf (x_fmt s') = match e with None => render_response out | Some _ => render_partial out end
  end.
Proof.
  intros mav. induction us as [|o us IH]; intros fuel leaf d acc tr Hr Hq Hok Hf.
  - destruct fuel as [|fu]; [cbn in Hf; lia|].
    cbn [msg_run0 toks_units map unit_loop]. unfold unit_body. cbn [x_toks].
    rewrite finish_ok by exact Hok. eexists. split; [reflexivity|]. split; reflexivity.
  - cbn [forallb] in Hr. apply andb_prop in Hr. destruct Hr as [Ho Hus].
    rewrite toks_units_cons in *. destruct fuel as [|fu]; [lia|].
    cbn [unit_loop msg_run0].
    destruct (unit_step o mav d (render_partial acc) tr leaf (tail_of us) Ho Hq (tail_of_ok us)) as [r [Hb Hpost]].
    rewrite Hb. unfold unit_post in Hpost.
    pose proof (step_printable o mav d Ho Hq) as Hq'.
    pose proof (step_items_nonempty o mav d) as Hne.
    destruct (sop_step mav d o) as [[d1 items] err]. cbn [fst] in Hq'.
    destruct Hpost as [tr' Hpost]. destruct err as [e|].
    + subst r. eexists. split; [reflexivity|]. split; reflexivity.
    + destruct Hpost as [lf ->].
      destruct (buf_step acc items Hok) as [Hbuf Hok'].
      { intros it ->. eapply Hne. reflexivity. }
      rewrite Hbuf. unfold unit_after. cbn [x_toks].
      destruct us as [|o' us'].
      * cbn [tail_of map msg_run0]. rewrite finish_ok by exact Hok'.
        eexists. split; [reflexivity|]. split; reflexivity.
      * cbn [tail_of map]. cbn [with_toks x_dev x_fmt x_trace].
        apply IH; try assumption.
        rewrite app_length in Hf. cbn [tail_of length] in Hf. lia.
Qed.

(* ------------------------------------------------------------------ *)
(* 8. the refinement theorem                                           *)
(* ------------------------------------------------------------------ *)
(* The statement without [queue_printable d] is FALSE:
   d = a device whose queue holds the custom error (1, [200]) (non-ASCII text, no extended part),
   us = [SErrNext]: the full stack returns ExecutionError (-200) with "1," written, the
   operation-level model answers 1,"\200".  See [contrib_refines_ops_counterexample]. *)
Theorem contrib_refines_ops : forall mav d us,
  queue_printable d = true -> forallb renderable us = true ->
  dev_message d mav (units_text us) = Val (op_message d mav us).
Proof.
  intros mav d us Hq Hr. unfold dev_message, run.
  rewrite (tokenize_units us Hr). cbn [obind]. unfold run_tokens.
  pose proof (loop_ok mav us (S (length (map IOk (toks_units us)))) contrib_tree d [] [] Hr Hq (Forall_nil _)) as H.
  rewrite map_length in H. specialize (H (Nat.lt_succ_diag_r _)).
  unfold op_message. rewrite msg_run_0.
  destruct (msg_run0 mav d us []) as [[d' out] e].
  destruct H as [s' [Hl [Hd Hb]]].
  change (render_partial []) with (@nil byte) in Hl. rewrite map_length.
  match goal with |- context [unit_loop ?f ?r ?l ?s] => assert (Hl' : unit_loop f r l s = Val (s', e)) by exact Hl; rewrite Hl' end.
  cbn [obind].
  cbn [r_err r_dev r_out]. unfold cd. rewrite Hd, Hb. cbn [fst].
  destruct e; reflexivity.
Qed.

Definition cex_dev : dev := mkDev [mkError 1%Z (Some [200]) None] 0 0 0 reg_default reg_default None.
Theorem contrib_refines_ops_counterexample :
  forallb renderable [SErrNext] = true /\
  dev_message cex_dev false (units_text [SErrNext]) <> Val (op_message cex_dev false [SErrNext]).
Proof. split; [reflexivity|]. vm_compute. intros H. discriminate H. Qed.


(* ------------------------------------------------------------------ *)
(* 9. the hypothesis is an invariant of the device                     *)
(* ------------------------------------------------------------------ *)
Lemma std_messages_ascii : forall c v, get_error c = Some v -> all_ascii (get_message v) = true.
Proof.
  intros c v H. unfold get_error in H.
  assert (Ht : forallb (fun cm => all_ascii (snd cm)) std_errors = true) by (vm_compute; reflexivity).
  revert H Ht. generalize std_errors. induction l as [|[c' m] l IH]; intros H Ht; [discriminate H|].
  cbn [find_code] in H. cbn [forallb snd] in Ht. apply andb_prop in Ht. destruct Ht as [Hm Hl].
  destruct (c' =? c)%Z.
  - injection H as <-. exact Hm.
  - apply IH; assumption.
Qed.

Lemma step_error_printable : forall o mav d d' items e, renderable o = true ->
  sop_step mav d o = (d', items, Some e) -> err_printable e = true.
Proof.
  intros o mav d d' items e Hr H.
  destruct o as [r ro| | |v|v| | | | | | | | | | | | |tt|e0]; try destruct ro as [c|v|v|v| | | | | | |];
    try discriminate Hr; cbn [sop_step reg_step] in H; try discriminate H.
  - destruct (queue d); discriminate H.
  - destruct (queue d); discriminate H.
  - injection H as _ _ <-. unfold renderable in Hr. cbn [sop_text] in Hr.
    unfold err_printable, error_message.
    destruct (ecustom e0); [discriminate|]. destruct (eext e0); [discriminate|].
    destruct (get_error (ecode e0)) eqn:Eg; [|discriminate]. eapply std_messages_ascii. exact Eg.
Qed.

Lemma msg_run0_printable : forall mav us d acc, forallb renderable us = true -> queue_printable d = true ->
  queue_printable (fst (fst (msg_run0 mav d us acc))) = true
  /\ forall e, snd (msg_run0 mav d us acc) = Some e -> err_printable e = true.
Proof.
  intros mav. induction us as [|o us IH]; intros d acc Hr Hq.
  - split; [exact Hq | discriminate].
  - cbn [forallb] in Hr. apply andb_prop in Hr. destruct Hr as [Ho Hus].
    cbn [msg_run0]. pose proof (step_printable o mav d Ho Hq) as Hq'.
    pose proof (step_error_printable o mav d) as He.
    destruct (sop_step mav d o) as [[d1 items] [e|]]; cbn [fst snd] in *.
    + split; [exact Hq'|]. intros e' H. injection H as <-. eapply He; [exact Ho | reflexivity].
    + apply IH; assumption.
Qed.

Theorem queue_printable_init : queue_printable dev_init = true.
Proof. reflexivity. Qed.

Theorem queue_printable_preserved : forall mav d us,
  queue_printable d = true -> forallb renderable us = true ->
  queue_printable (fst (fst (op_message d mav us))) = true.
Proof.
  intros mav d us Hq Hr. unfold op_message. rewrite msg_run_0.
  destruct (msg_run0_printable mav us d [] Hr Hq) as [H1 H2].
  destruct (msg_run0 mav d us []) as [[d' out] [e|]]; cbn [fst snd] in *; [|exact H1].
  unfold queue_printable, push_error, set_queue, set_esr. cbn [queue].
  rewrite forallb_app. fold (queue_printable d'). rewrite H1. cbn [forallb]. rewrite (H2 e eq_refl). reflexivity.
Qed.

(* consequently the refinement holds along any session of messages started from the initial device *)

Theorem contrib_refines_ops_session : forall msgs mav us,
  forallb (fun m => forallb renderable (snd m)) msgs = true -> forallb renderable us = true ->
  dev_message (session_ops dev_init msgs) mav (units_text us) = Val (op_message (session_ops dev_init msgs) mav us).
Proof.
  intros msgs mav us Hm Hr. apply contrib_refines_ops; [|exact Hr].
  revert Hm. generalize queue_printable_init. generalize dev_init.
  induction msgs as [|[mv u] msgs IH]; intros d Hq Hm; [exact Hq|].
  cbn [forallb snd] in Hm. apply andb_prop in Hm. destruct Hm as [Hu Hm].
  cbn [session_ops]. apply IH; [|exact Hm]. apply queue_printable_preserved; assumption.
Qed.


(* ------------------------------------------------------------------ *)
(* 10. the hypothesis is necessary                                     *)
(* ------------------------------------------------------------------ *)
Lemma run_emit_sticky : forall l (s0 : cdev) toks f z hh hd,
  run_prog (emit_all s0 l) toks f (Some (mkRunit (Some z) hh hd)) = (toks, s0, f, Some (std_error z)).
Proof.
  induction l as [|e l IH]; intros s0 toks f z hh hd.
  - reflexivity.
  - cbn [emit_all run_prog]. fold (emit_all s0). unfold ru_data. cbn [ru_result has_header]. apply IH.
Qed.

Lemma run_emit_fails : forall l (s0 : cdev) toks b hd, forallb err_printable l = false ->
  exists f' x, run_prog (emit_all s0 l) toks (mkFmt None b) (Some (mkRunit None false hd)) = (toks, s0, f', Some x).
Proof.
  induction l as [|e l IH]; intros s0 toks b hd Hl; [discriminate Hl|].
  cbn [forallb] in Hl. cbn [emit_all run_prog]. fold (emit_all s0). unfold ru_data. cbn [ru_result has_data has_header].
  rewrite push_all_None, format_data_None.
  destruct (err_printable e) eqn:He.
  - destruct (err_chunks e He) as [Hs _]. rewrite Hs. cbn [andb] in Hl. apply IH. exact Hl.
  - unfold err_printable in He. cbn [chunks_of]. destruct (eext e); [discriminate He|]. rewrite He. cbn [snd fst].
    rewrite run_emit_sticky. eauto.
Qed.

Lemma op_err_all_none : forall d mav, snd (op_message d mav [SErrAll]) = None.
Proof. intros d mav. unfold op_message. cbn [msg_run sop_step]. destruct (queue d); reflexivity. Qed.

Theorem queue_printable_necessary : forall d mav, queue_printable d = false ->
  dev_message d mav (units_text [SErrAll]) <> Val (op_message d mav [SErrAll]).
Proof.
  intros d mav Hq Heq.
  assert (Hsome : exists dv out e, dev_message d mav (units_text [SErrAll]) = Val (dv, out, Some e)).
  { unfold dev_message, run. rewrite (tokenize_units [SErrAll] eq_refl). cbn [obind]. unfold run_tokens.
    set (s := @mkX cdev (map IOk (toks_units [SErrAll])) (d, mav) (mkFmt None []) []).
    destruct (unit_body_unit SErrAll contrib_tree s [] eq_refl (or_introl eq_refl)) as [r [Hb Hsame]].
    { unfold s. vm_compute. reflexivity. }
    cbn [unit_loop]. fold s. rewrite Hb.
    assert (Hh : exists e s1, run_handler (sop_cmd SErrAll) (h_query (sop_hdr SErrAll)) contrib_tree s (skip_header_sep []) = XErr e s1).
    { unfold queue_printable in Hq. destruct d as [q es ee sr op qs ts]. cbn [queue] in Hq.
      destruct q as [|e0 q0]; [discriminate Hq|].
      unfold run_handler, s. cbn [sop_cmd sop_idx contrib_cmds sop_hdr h_query x_fmt x_dev x_trace].
      rewrite response_unit_None. cbn [app skip_header_sep].
      change (qu err_all_cmd ({| queue := e0 :: q0; esr := es; ese := ee; sre := sr; oper := op; ques := qs; tst_result := ts |}, mav))
        with (emit_all (set_queue {| queue := e0 :: q0; esr := es; ese := ee; sre := sr; oper := op; ques := qs; tst_result := ts |} [], mav) (e0 :: q0)).
      destruct (run_emit_fails (e0 :: q0) (set_queue {| queue := e0 :: q0; esr := es; ese := ee; sre := sr; oper := op; ques := qs; tst_result := ts |} [], mav) [] [] false Hq) as [f' [x Hrun]].
      unfold runit_new. rewrite Hrun. eauto. }
    destruct Hh as [e [s1 Hh]]. rewrite Hh in Hsame.
    destruct r as [lf s2|e2 s2]; cbn [same_res] in Hsame; [contradiction|]. destruct Hsame as [-> ->].
    cbn [obind r_err r_dev r_out]. eauto. }
  destruct Hsome as [dv [out [e Hs]]]. rewrite Hs in Heq. injection Heq as Heq.
  pose proof (op_err_all_none d mav) as Hn. rewrite <- Heq in Hn. discriminate Hn.
Qed.

(* the refinement holds for a device state exactly when its queue is printable *)
Theorem contrib_refines_ops_iff : forall d,
  (forall mav us, forallb renderable us = true -> dev_message d mav (units_text us) = Val (op_message d mav us))
  <-> queue_printable d = true.
Proof.
  intros d. split.
  - intros H. destruct (queue_printable d) eqn:Hq; [reflexivity|]. exfalso.
    exact (queue_printable_necessary d false Hq (H false [SErrAll] eq_refl)).
  - intros Hq mav us Hr. apply contrib_refines_ops; assumption.
Qed.

Print Assumptions contrib_refines_ops.
Print Assumptions contrib_refines_ops_counterexample.
Print Assumptions contrib_refines_ops_session.
Print Assumptions contrib_refines_ops_iff.
