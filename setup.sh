#!/bin/sh
# Build the framework from files on disk only (offline): regenerate the tables from
# /repo, full .vo build of the Coq development, debug+release build of the harness.
set -e
cd "$(dirname "$0")"
export CARGO_NET_OFFLINE=true
python3 tools/translate.py
python3 - <<'PY'
import sys, os
sys.path.insert(0, os.path.join(os.getcwd(), "tools"))
import vlib
ok, out = vlib.coq_make([], timeout=3000)
print(out[-3000:])
sys.exit(0 if ok else 1)
PY
cp /repo/Cargo.lock harness/Cargo.lock
(cd harness && cargo build --offline --quiet && cargo build --offline --quiet --release)
echo "setup: ok"
