let rec pos_of_int n = if n = 1 then Model.XH else if n land 1 = 0 then Model.XO (pos_of_int (n lsr 1)) else Model.XI (pos_of_int (n lsr 1))
let rec int_of_pos = function Model.XH -> 1 | Model.XO p -> 2 * int_of_pos p | Model.XI p -> 2 * int_of_pos p + 1
let z_of_int n = if n = 0 then Model.Z0 else if n > 0 then Model.Zpos (pos_of_int n) else Model.Zneg (pos_of_int (-n))
let () =
  match Model.dec2sf (z_of_int 53) (z_of_int 1024) false (pos_of_int 1) (z_of_int (-1)) with
  | Model.S754_finite (_, m, _) -> Printf.printf "m=%d\n" (int_of_pos m)
  | _ -> print_endline "other"
