From Coq Require Import ZArith List NArith.
From Coq Require Import Floats.SpecFloat.
From Coq Require Extraction ExtrOcamlBasic.
Import ListNotations.
Open Scope Z_scope.
Definition dec2sf (prec emax : Z) (s : bool) (m : positive) (e10 : Z) : spec_float :=
  if 0 <=? e10 then
    binary_round prec emax s (m * Pos.pow 10 (Z.to_pos e10)) 0
  else
    let '(mz, ez, lz) := SFdiv_core_binary prec emax (Zpos m) 0 (Zpos (Pos.pow 10 (Z.to_pos (- e10)))) 0 in
    binary_round_aux prec emax s mz ez lz.
Fixpoint sum (l : list N) : N := match l with [] => 0%N | x :: t => (x + sum t)%N end.
Extraction "model.ml" dec2sf sum.
