From Coq Require Import NArith ZArith List Lia Bool.
From Coq Require Import ZifyBool ZifyN ZifyNat.
Import ListNotations.
Open Scope N_scope.
Arguments N.add : simpl never. Arguments N.sub : simpl never. Arguments N.eqb : simpl never.
Arguments N.ltb : simpl never. Arguments N.leb : simpl never.

Definition byte := N.
Definition is_digit (b : byte) := (48 <=? b) && (b <=? 57).
Definition is_upper (b : byte) := (65 <=? b) && (b <=? 90).
Definition is_lower (b : byte) := (97 <=? b) && (b <=? 122).
Definition is_alpha b := is_upper b || is_lower b.
Definition is_mnch b := is_alpha b || is_digit b || (b =? 95).
Definition is_ws (b : byte) := (b =? 32) || (b =? 9) || (b =? 10) || (b =? 12) || (b =? 13).

Inductive token := THSep | TQuery | TUnitSep | THeaderSep | TMnemonic (s : list byte).
Inductive res (A : Type) := Ok (a : A) | Err (code : Z).
Arguments Ok {A}. Arguments Err {A}.

Fixpoint skip_ws (c : list byte) : list byte :=
  match c with b :: c' => if is_ws b then skip_ws c' else c | [] => [] end.

(* returns (mnemonic bytes, rest) *)
Fixpoint mn_loop (cur : list byte) (len : nat) : res (list byte * list byte) :=
  match cur with
  | ch :: cur' =>
    if is_mnch ch then
      if Nat.ltb 12 (S len) then Err (-112)%Z
      else match mn_loop cur' (S len) with Ok (m, r) => Ok (ch :: m, r) | Err e => Err e end
    else Ok ([], cur)
  | [] => Ok ([], [])
  end.

Record st := { in_header : bool; in_common : bool }.

Definition tok_next (s : st) (c : list byte) : option (res token * st * list byte) :=
  match c with
  | [] => None
  | x :: c' =>
    if x =? 58 (* : *) then
      match c' with
      | y :: _ => if negb (is_alpha y) then Some (Err (-103)%Z, s, c') else
                  if negb (in_header s) || in_common s then Some (Err (-103)%Z, s, c') else Some (Ok THSep, s, c')
      | [] => if negb (in_header s) || in_common s then Some (Err (-103)%Z, s, c') else Some (Ok THSep, s, c')
      end
    else if x =? 63 (* ? *) then
      match c' with
      | y :: _ => if negb (is_ws y) && negb (y =? 59) then Some (Err (-102)%Z, s, c') else
                  if negb (in_header s) then Some (Err (-102)%Z, s, c') else Some (Ok TQuery, {| in_header := false; in_common := in_common s |}, c')
      | [] => if negb (in_header s) then Some (Err (-102)%Z, s, c') else Some (Ok TQuery, {| in_header := false; in_common := in_common s |}, c')
      end
    else if x =? 59 (* ; *) then Some (Ok TUnitSep, {| in_header := true; in_common := false |}, skip_ws c')
    else if x =? 10 then (match c' with [] => None | _ :: c'' => Some (Err (-102)%Z, s, c'') end)
    else if is_ws x then Some (Ok THeaderSep, {| in_header := false; in_common := in_common s |}, skip_ws c')
    else if is_alpha x then
      if in_header s then
        match mn_loop c 0 with Ok (m, r) => Some (Ok (TMnemonic m), s, r) | Err e => Some (Err e, s, c') end
      else Some (Err (-999)%Z, s, c')   (* data: not in this fragment *)
    else Some (Err (-102)%Z, s, c')
  end.

Fixpoint tokenize (fuel : nat) (s : st) (c : list byte) : list (res token) :=
  match fuel with
  | O => []
  | S f => match tok_next s c with
           | None => []
           | Some (Ok t, s', c') => Ok t :: tokenize f s' c'
           | Some (Err e, _, _) => [Err e]
           end
  end.
Definition tokenize_all c := tokenize (S (length c)) {| in_header := true; in_common := false |} c.

(* ---- grammar fragment: relative/absolute compound headers, optional ?, separated by ; with optional ws after ; ---- *)
Record hdr := { absolute : bool; path : list (list byte); query : bool }.
Definition wf_mn (m : list byte) := exists a t, m = a :: t /\ is_alpha a = true /\ forallb is_mnch t = true /\ (length m <= 12)%nat.
Definition wf_hdr (h : hdr) := path h <> [] /\ Forall wf_mn (path h).
Fixpoint render_path (p : list (list byte)) : list byte :=
  match p with [] => [] | [m] => m | m :: p' => m ++ [58] ++ render_path p' end.
Definition render_hdr (h : hdr) := (if absolute h then [58] else []) ++ render_path (path h) ++ (if query h then [63] else []).
Fixpoint toks_path (p : list (list byte)) : list token :=
  match p with [] => [] | [m] => [TMnemonic m] | m :: p' => TMnemonic m :: THSep :: toks_path p' end.
Definition toks_hdr (h : hdr) := (if absolute h then [THSep] else []) ++ toks_path (path h) ++ (if query h then [TQuery] else []).

(* key step lemma: reading a well-formed mnemonic followed by a non-mnemonic byte *)
Lemma mn_loop_exact : forall t rest len,
  forallb is_mnch t = true -> (len + length t <= 12)%nat ->
  (match rest with [] => True | r :: _ => is_mnch r = false end) ->
  mn_loop (t ++ rest) len = Ok (t, rest).
Proof.
  induction t as [|ch t IH]; intros rest len Hall Hlen Hrest.
  - cbn [app]. destruct rest as [|r rest]; cbn [mn_loop]; [reflexivity|]. rewrite Hrest. reflexivity.
  - cbn [app mn_loop]. cbn [forallb] in Hall. apply andb_prop in Hall. destruct Hall as [Hc Ht].
    rewrite Hc. cbn [length] in Hlen.
    destruct (Nat.ltb_spec 12 (S len)); [lia|].
    rewrite IH; [reflexivity|assumption|lia|assumption].
Qed.
Print Assumptions mn_loop_exact.
