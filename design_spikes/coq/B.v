From Coq Require Import ZArith Floats.SpecFloat.
From Flocq Require Import Core BinarySingleNaN.
Lemma bra_bridge : forall prec emax s m e l,
  BinarySingleNaN.binary_round_aux prec emax mode_NE s m e l = SpecFloat.binary_round_aux prec emax s m e l.
Proof.
  intros. unfold BinarySingleNaN.binary_round_aux, SpecFloat.binary_round_aux.
  destruct (shr_fexp prec emax m e l) as [mrs' e'] eqn:E1.
  assert (H : choice_mode mode_NE s (shr_m mrs') (loc_of_shr_record mrs') = round_nearest_even (shr_m mrs') (loc_of_shr_record mrs')).
  { unfold choice_mode, round_nearest_even, Round.round_N. destruct (loc_of_shr_record mrs') as [|[| |]]; try reflexivity.
    destruct (Z.even (shr_m mrs')); reflexivity. }
  rewrite H.
  destruct (shr_fexp prec emax (round_nearest_even (shr_m mrs') (loc_of_shr_record mrs')) e' loc_Exact) as [mrs'' e''].
  destruct (shr_m mrs''); try reflexivity.
Qed.
Print Assumptions bra_bridge.
