From Coq Require Import NArith ZArith List Lia Bool.
From Coq Require Import String.
Notation length := List.length.
From Coq Require Import ZifyBool ZifyN ZifyNat.
Import ListNotations.
Open Scope N_scope.
Arguments N.add : simpl never. Arguments N.sub : simpl never. Arguments N.eqb : simpl never.
Arguments N.ltb : simpl never. Arguments N.leb : simpl never.

Inductive outcome (A : Type) := Val (a : A) | Panic (site : string).
Arguments Val {A}. Arguments Panic {A}.
Definition bind {A B} (x : outcome A) (f : A -> outcome B) : outcome B :=
  match x with Val a => f a | Panic s => Panic s end.
Notation "'let*' x ':=' e 'in' f" := (bind e (fun x => f)) (at level 200, x pattern, right associativity).

Definition byte := N.
Definition is_digit (b : byte) := (48 <=? b) && (b <=? 57).
Definition is_upper (b : byte) := (65 <=? b) && (b <=? 90).
Definition is_lower (b : byte) := (97 <=? b) && (b <=? 122).
Definition is_alpha b := is_upper b || is_lower b.
Definition is_alnum b := is_alpha b || is_digit b.

(* checked primitives *)
Definition usub (a b : nat) : outcome nat := if Nat.ltb a b then Panic "usub"%string else Val (a - b)%nat.
Definition slice_to (s : list byte) (k : nat) : outcome (list byte) :=
  if Nat.ltb (length s) k then Panic "slice"%string else Val (firstn k s).

Inductive token := TMnemonic (s : list byte) | TOther.
Inductive res (A : Type) := Ok (a : A) | Err (code : Z).
Arguments Ok {A}. Arguments Err {A}.

(* while chars.clone().next().map_or(false, pred) { common=false; chars.next(); len+=1; if len>12 {return Err} } *)
Fixpoint mn_loop (cur : list byte) (common : bool) (len : N) : res (list byte) :=
  match cur with
  | ch :: cur' =>
    if is_alnum ch || (ch =? 95) || ((ch =? 42) && common) then
      let len' := len + 1 in
      if 12 <? len' then Err (-112)%Z else mn_loop cur' false len'
    else Ok cur
  | [] => Ok cur
  end.

Definition read_mnemonic (cur : list byte) (common : bool) : outcome (res (token * list byte)) :=
  let s := cur in
  match mn_loop cur common 0 with
  | Err e => Val (Err e)
  | Ok rest =>
    let* k := usub (length s) (length rest) in
    let* sl := slice_to s k in
    Val (Ok (TMnemonic sl, rest))
  end.

Lemma mn_loop_suffix : forall cur common len rest,
  mn_loop cur common len = Ok rest -> exists pre, cur = pre ++ rest.
Proof.
  induction cur as [|ch cur IH]; intros common len rest H; cbn [mn_loop] in H.
  - inversion H; subst. exists []. reflexivity.
  - destruct (is_alnum ch || (ch =? 95) || (ch =? 42) && common) eqn:E.
    + destruct (12 <? len + 1) eqn:E2; [discriminate|].
      apply IH in H. destruct H as [pre ->]. exists (ch :: pre). reflexivity.
    + inversion H; subst. exists []. reflexivity.
Qed.

Theorem read_mnemonic_no_panic : forall cur common, exists r, read_mnemonic cur common = Val r.
Proof.
  intros cur common. unfold read_mnemonic.
  destruct (mn_loop cur common 0) as [rest|e] eqn:E; [|eauto].
  apply mn_loop_suffix in E. destruct E as [pre ->].
  unfold usub. rewrite app_length.
  destruct (Nat.ltb_spec (length pre + length rest) (length rest)); [lia|].
  cbn [bind]. unfold slice_to. rewrite app_length.
  destruct (Nat.ltb_spec (length pre + length rest) (length pre + length rest - length rest)); [lia|].
  cbn [bind]. eauto.
Qed.
Print Assumptions read_mnemonic_no_panic.
