From Coq Require Import ZArith List Floats.SpecFloat String.
From Flocq Require Import Core.Core IEEE754.BinarySingleNaN IEEE754.Bits.
Import ListNotations.
Open Scope Z_scope.

Definition prec64 := 53. Definition emax64 := 1024.
Definition prec32 := 24. Definition emax32 := 128.

(* correctly rounded m * 10^e10, spec-float level *)
Definition dec2sf (prec emax : Z) (s : bool) (m : positive) (e10 : Z) : spec_float :=
  if 0 <=? e10 then
    binary_round prec emax mode_NE s (m * Pos.pow 10 (Z.to_pos e10)) 0  (* placeholder; fix e10=0 *)
  else
    let '(mz, ez, lz) := SFdiv_core_binary prec emax (Zpos m) 0 (Zpos (Pos.pow 10 (Z.to_pos (- e10)))) 0 in
    binary_round_aux prec emax mode_NE s mz ez lz.

Definition bits64 (f : spec_float) : Z :=
  match f with
  | S754_zero s => if s then 2^63 else 0
  | S754_infinity s => (if s then 2^63 else 0) + 2047 * 2^52
  | S754_nan => -1
  | S754_finite s m e =>
     let sgn := if s then 2^63 else 0 in
     if (Zpos m) <? 2^52 then sgn + Zpos m   (* subnormal, e = -1074 *)
     else sgn + (e + 1075) * 2^52 + (Zpos m - 2^52)
  end.

Eval vm_compute in dec2sf 53 1024 false 1 (-1).
Eval vm_compute in bits64 (dec2sf 53 1024 false 1 (-1)).   (* 0.1 = 0x3FB999999999999A = 4591870180066957722 *)
Eval vm_compute in bits64 (dec2sf 53 1024 false 24703282292062327 (-340)). (* -> 0 *)
Eval vm_compute in bits64 (dec2sf 53 1024 false 24703282292062328 (-340)). (* -> 1 *)
Eval vm_compute in bits64 (dec2sf 53 1024 false 17976931348623157 (292)). (* max *)
Eval vm_compute in bits64 (dec2sf 53 1024 false 1 (400)). (* inf *)
Time Eval vm_compute in bits64 (dec2sf 53 1024 false 123456789 (-4000)).
Time Eval vm_compute in bits64 (dec2sf 53 1024 false 123456789 (4000)).
Check Bdiv_correct_aux.
Check binary_round_correct.
Definition longs := String.concat "" (List.repeat "0123456789abcdef"%string 40).
Eval vm_compute in longs.
Eval vm_compute in [longs; longs].
