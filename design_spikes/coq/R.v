From Coq Require Import ZArith Reals Lia Lra Psatz.
From Flocq Require Import Core Sterbenz BinarySingleNaN.
Open Scope R_scope.

Section S.
Variable prec emax : Z.
Context (Hprec : Prec_gt_0 prec) (Hmax : Prec_lt_emax prec emax).
Let emin := (3 - emax - prec)%Z.
Let fexp := FLT_exp emin prec.

(* fractional part of a representable number is representable *)
Lemma frac_format : forall x : R,
  generic_format radix2 fexp x ->
  generic_format radix2 fexp (x - IZR (Ztrunc x)).
Proof.
  intros x Hx.
  destruct (Req_dec (x - IZR (Ztrunc x)) 0) as [->|Hnz]; [apply generic_format_0|].
  (* x = m * 2^e with e = cexp x *)
  set (e := cexp radix2 fexp x).
  set (m := Ztrunc (scaled_mantissa radix2 fexp x)).
  assert (Hxe : x = F2R (Float radix2 m e)) by (unfold m, e; exact Hx).
  destruct (Z_le_gt_dec 0 e) as [He|He].
  - (* integer: frac = 0 contradiction *)
    exfalso. apply Hnz.
    assert (Hint : x = IZR (m * Zpower radix2 e)).
    { rewrite Hxe. unfold F2R; cbn [Fnum Fexp]. rewrite mult_IZR, IZR_Zpower by assumption. reflexivity. }
    rewrite Hint at 1 2. rewrite Ztrunc_IZR. lra.
  - (* e < 0 : frac = (m - T*2^-e) * 2^e *)
    set (T := Ztrunc x).
    assert (Hfr : x - IZR T = F2R (Float radix2 (m - T * Zpower radix2 (-e)) e)).
    { rewrite Hxe at 1. unfold F2R; cbn [Fnum Fexp]. rewrite minus_IZR, mult_IZR, IZR_Zpower by lia.
      rewrite Rmult_minus_distr_r. f_equal.
      rewrite Rmult_assoc, <- bpow_plus. replace (-e + e)%Z with 0%Z by lia. simpl. ring. }
    rewrite Hfr. apply generic_format_F2R. intros Hm.
    rewrite <- Hfr.
    (* cexp (frac) <= e because |frac| <= |x| *)
    unfold e, cexp, fexp.
    apply (@monotone_exp _ (FLT_exp_monotone emin prec)).
    apply mag_le_abs; [exact Hnz|].
    (* |x - trunc x| <= |x| *)
    unfold T.
    destruct (Rle_or_lt 0 x) as [Hpos|Hneg].
    + rewrite Ztrunc_floor by assumption.
      pose proof (Zfloor_lb x). pose proof (Zfloor_ub x).
      assert (0 <= IZR (Zfloor x)) by (apply IZR_le; apply Zfloor_lub; simpl; lra).
      rewrite !Rabs_pos_eq; lra.
    + rewrite Ztrunc_ceil by lra.
      pose proof (Zceil_ub x). pose proof (Zceil_lb x).
      assert (IZR (Zceil x) <= 0) by (apply IZR_le; apply Zceil_glb; simpl; lra).
      rewrite !Rabs_left1; lra.
Qed.
End S.
Print Assumptions frac_format.
