use scpi::parser::expression::{channel_list, numeric_list};
use scpi::tree::prelude::*;
use std::io::{self, BufRead};
fn hex(b: &[u8]) -> String { b.iter().map(|x| format!("{:02x}", x)).collect() }
fn unhex(s: &str) -> Vec<u8> { (0..s.len()/2).map(|i| u8::from_str_radix(&s[2*i..2*i+2],16).unwrap()).collect() }
fn spec(s: channel_list::ChannelSpec) -> String { let mut v=vec![]; for (k,d) in s.into_iter().enumerate() { match d { Ok(n) => v.push(n.to_string()), Err(_) => { v.push("E".into()); break; } } if k>8 {break;} } format!("{}[{}]", s.dimension(), v.join("!")) }
fn main(){
  for line in io::stdin().lock().lines() {
    let line=line.unwrap(); let mut it=line.split_whitespace(); let kind=it.next().unwrap(); let input=unhex(it.next().unwrap_or(""));
    let mut out=vec![];
    if kind=="chan" {
      match channel_list::ChannelList::new(&input) { None => out.push("NOTCHAN".to_string()), Some(cl) => for (k,item) in cl.enumerate() { match item { Err(_) => { out.push("E".into()); break; }, Ok(channel_list::Token::ChannelSpec(s)) => out.push(format!("S{}", spec(s))), Ok(channel_list::Token::ChannelRange(a,b)) => out.push(format!("R{}:{}", spec(a), spec(b))), Ok(channel_list::Token::PathName(p)) => out.push(format!("P{}", hex(p))), Ok(_) => out.push("?".into()) } if k>64 {break;} } }
    } else {
      for (k,item) in numeric_list::NumericList::new(&input).enumerate() { match item { Err(_) => { out.push("E".into()); break; }, Ok(numeric_list::Token::Numeric(Token::DecimalNumericProgramData(a))) => out.push(format!("N{}", hex(a))), Ok(numeric_list::Token::NumericRange(Token::DecimalNumericProgramData(a), Token::DecimalNumericProgramData(b))) => out.push(format!("R{}:{}", hex(a), hex(b))), Ok(_) => out.push("?".into()) } if k>64 {break;} }
    }
    println!("{}", out.join(" "));
  }
}
