use scpi::parser::tokenizer::{Token, Tokenizer};
use scpi::error::{Error, ErrorCode};
use scpi::tree::prelude::*;
use scpi::parser::expression::{channel_list, numeric_list};
use std::convert::TryFrom;

fn toks(s: &[u8]) {
    let mut t = Tokenizer::new(s);
    let mut out = vec![];
    for _ in 0..20 {
        match t.next() { None => break, Some(x) => { let e = x.is_err(); out.push(format!("{:?}", x)); if e {break;} } }
    }
    println!("{:?} => {}", String::from_utf8_lossy(s), out.join(" | "));
}

fn main() {
    println!("--- tokenizer");
    for s in [&b"CMD #H+FF"[..], b"CMD #H-1", b"CMD #HG", b"CMD #H", b"CMD #2+5ABCDE", b"CMD #HFFFFFFFFFFFFFFFFF", b" CMD", b"CMD ,1", b"CMD 1,", b"CMD 1 \n CMD2", b"CMD 1.E5", b"CMD (a;b)", b"(abc)", b"CMD:", b"CMD 'a''b'", b"CMD 1e", b"CMD 1 E5", b"*IDN?;", b"A;;B", b"*ABCDEFGHIJKL", b"*ABCDEFGHIJKLM", b"CMD #0abc\n", b"CMD #0abc", b"CMD #10", b"CMD #9000000001", b"CMD? 1", b"CMD?1"] {
        toks(s);
    }
    println!("--- ints");
    macro_rules! ti { ($t:ty, $s:expr) => { println!("{} {:?} -> {:?}", stringify!($t), $s, <$t>::try_from(Token::DecimalNumericProgramData($s.as_bytes())).map_err(|e: Error| e.get_code())); } }
    ti!(i32, "0.0"); ti!(i32, "0e0"); ti!(u8, "-0"); ti!(u8, "-0.4"); ti!(i32, "2147483647.4"); ti!(i32,"-2147483648.4"); ti!(u8,"255.4"); ti!(i32,"1e-320"); ti!(u8, "1e-40");
    ti!(i32, "0.49999999999999994"); ti!(u8, "0.49999997"); ti!(i32, "1."); ti!(i32, ".5"); ti!(i32, "+.5E+1"); ti!(i32, "007"); ti!(i32, "2.5"); ti!(i32, "-2.5"); ti!(i32,"1e400"); ti!(u8,"+5");
    ti!(u64, "18446744073709551615"); ti!(u64, "18446744073709551615.0"); ti!(u64, "1.8446744073709552e19"); ti!(i64, "9223372036854775807.0"); ti!(i64, "9.223372036854775808e18"); ti!(i64, "-9223372036854775808.0"); ti!(i64,"-9.3e18");
    ti!(u64, "1.8446744073709553e19"); ti!(i64, "9223372036854775808");
    println!("bool 0.0 -> {:?}", bool::try_from(Token::DecimalNumericProgramData(b"0.0")).map_err(|e| e.get_code()));
    println!("bool -0 -> {:?}", bool::try_from(Token::DecimalNumericProgramData(b"-0")).map_err(|e| e.get_code()));
    println!("bool 0.4 -> {:?}", bool::try_from(Token::DecimalNumericProgramData(b"0.4")).map_err(|e| e.get_code()));
    println!("--- floats");
    macro_rules! tf { ($t:ty, $s:expr) => { println!("{} {:?} -> {:?}", stringify!($t), $s, <$t>::try_from(Token::DecimalNumericProgramData($s.as_bytes())).map_err(|e: Error| e.get_code())); } }
    tf!(f32, "1e40"); tf!(f32, "-1e40"); tf!(f64, "1e400"); tf!(f64, "1e-400"); tf!(f64, "1."); tf!(f64, ".5"); tf!(f64, "+.5E+1"); tf!(f64,"4.9e-324"); tf!(f64,"2.4703282292062327e-324"); tf!(f64,"2.4703282292062328e-324");
    println!("--- chanlist");
    for s in [&b"@1!2"[..], b"@1!!2", b"@1-2", b"@1,", b"@+", b"@1!", b"@1'abc'", b"@'a' ,1", b"@1:2:3", b"@1!2:3", b"@!1"] {
        let r = std::panic::catch_unwind(|| {
            let cl = channel_list::ChannelList::new(s).unwrap();
            let mut out = vec![];
            for item in cl { match item { Ok(channel_list::Token::ChannelSpec(sp)) => { let mut v = vec![]; for (k,e) in sp.into_iter().enumerate() { let bad = e.is_err(); v.push(e); if bad || k>8 {break;} } out.push(format!("Spec dim={} {:?} t2={:?} t3={:?}", sp.dimension(), v, <(isize,isize)>::try_from(sp).map_err(|e| e.get_code()), <(isize,isize,isize)>::try_from(sp).map_err(|e| e.get_code()))); }, Ok(t) => out.push(format!("{:?}", t)), Err(e) => { out.push(format!("Err {:?}", e)); break; } } }
            out
        });
        println!("{:?} => {:?}", String::from_utf8_lossy(s), r);
    }
    println!("--- numlist");
    for s in [&b"1-2"[..], b".5", b"1,.5", b"1,2:3", b"1 2", b"1+2", b"1,-2", b"-1:-2", b"1,", b"1:2:3"] {
        let nl = numeric_list::NumericList::new(s);
        let mut out = vec![];
        for item in nl { match item { Ok(t) => out.push(format!("{:?}", t)), Err(e) => { out.push(format!("Err {:?}", e)); break; } } }
        println!("{:?} => {:?}", String::from_utf8_lossy(s), out);
    }
}
