use scpi::{tree::prelude::*, parser::format::*};
use std::convert::TryFrom;
fn main(){
  let mut t = Tokenizer::new_params(b"(abc)");
  let tok = t.next().unwrap().unwrap();
  println!("{:?} -> {:?}", tok, Expression::try_from(tok).map_err(|e| e.get_code()));
  let mut t = Tokenizer::new_params(b"#13abc");
  let tok = t.next().unwrap().unwrap();
  println!("{:?} -> {:?}", tok, Expression::try_from(tok).map_err(|e| e.get_code()));
  // uom
  use scpi::units::uom::si::f32::*; use scpi::units::uom::si::{energy::joule, time::second, thermodynamic_temperature::kelvin, angle::radian, frequency::hertz};
  let e: Energy = Energy::try_from(Token::DecimalNumericSuffixProgramData(b"1", b"MJ")).unwrap(); println!("1 MJ = {} J", e.get::<joule>());
  let e: Energy = Energy::try_from(Token::DecimalNumericSuffixProgramData(b"1", b"mw.hr")).unwrap(); println!("1 mW.hr = {} J", e.get::<joule>());
  let e: Time = Time::try_from(Token::DecimalNumericSuffixProgramData(b"1", b"ann")).unwrap(); println!("1 ANN = {} s", e.get::<second>());
  let e: ThermodynamicTemperature = ThermodynamicTemperature::try_from(Token::DecimalNumericProgramData(b"1")).unwrap(); println!("1 (bare) = {} K", e.get::<kelvin>());
  let e: ThermodynamicTemperature = ThermodynamicTemperature::try_from(Token::DecimalNumericSuffixProgramData(b"1", b"FAR")).unwrap(); println!("1 FAR = {} K", e.get::<kelvin>());
  let e: Angle = Angle::try_from(Token::DecimalNumericSuffixProgramData(b"1", b"GON")).unwrap(); println!("1 GON = {} rad", e.get::<radian>());
  let e: Frequency = Frequency::try_from(Token::DecimalNumericSuffixProgramData(b"1", b"mhz")).unwrap(); println!("1 mhz = {} Hz", e.get::<hertz>());
  println!("{:?}", Frequency::try_from(Token::DecimalNumericSuffixProgramData(b"1", b"MAHZ1")).map_err(|e| e.get_code()).is_ok());
}
