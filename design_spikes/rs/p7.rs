use scpi::tree::prelude::*;
use std::io::{self, BufRead};
fn hex(b: &[u8]) -> String { b.iter().map(|x| format!("{:02x}", x)).collect() }
fn unhex(s: &str) -> Vec<u8> { (0..s.len()/2).map(|i| u8::from_str_radix(&s[2*i..2*i+2],16).unwrap()).collect() }
fn main(){
  for line in io::stdin().lock().lines() {
    let line=line.unwrap(); let input=unhex(line.trim());
    let mut out=vec![];
    let mut t=Tokenizer::new(&input);
    loop { match t.next() { None => break, Some(Err(e)) => { out.push(format!("E{}", Error::new(e).get_code())); break; }, Some(Ok(tok)) => out.push(match tok {
      Token::HeaderMnemonicSeparator => "HS".into(), Token::HeaderQuerySuffix => "Q".into(), Token::ProgramMessageUnitSeparator => "US".into(), Token::ProgramHeaderSeparator => "PH".into(), Token::ProgramDataSeparator => "DS".into(),
      Token::ProgramMnemonic(s) => format!("M:{}", hex(s)), Token::CharacterProgramData(s) => format!("C:{}", hex(s)), Token::DecimalNumericProgramData(s) => format!("D:{}", hex(s)), Token::DecimalNumericSuffixProgramData(a,b) => format!("S:{}:{}", hex(a), hex(b)),
      Token::NonDecimalNumericProgramData(n) => format!("N:{}", n), Token::StringProgramData(s) => format!("T:{}", hex(s)), Token::ArbitraryBlockData(s) => format!("B:{}", hex(s)), Token::ExpressionProgramData(s) => format!("X:{}", hex(s)) }) } }
    println!("{}", out.join(" "));
  }
}
