use std::collections::VecDeque;
use scpi::{tree::prelude::*, error::Result, cmd_both, cmd_qonly, cmd_nquery};
use scpi::option::ScpiEnum;
use scpi_contrib::{ieee488::prelude::*, scpi1999::prelude::*};
use scpi_contrib::{ieee488_cls, ieee488_ese, ieee488_esr, ieee488_idn, ieee488_opc, ieee488_rst, ieee488_sre, ieee488_stb, ieee488_tst, ieee488_wai, scpi_status, scpi_system};

struct Dev { esr:u8, ese:u8, sre:u8, operation: EventRegister, questionable: EventRegister, errors: VecDeque<Error>, herr: Vec<i16>, log: Vec<String> }
impl Dev { fn new()->Self{ Dev{esr:0,ese:0,sre:0,operation:Default::default(),questionable:Default::default(),errors:VecDeque::new(),herr:vec![],log:vec![]} } }
impl Device for Dev { fn handle_error(&mut self, err: Error){ self.herr.push(err.get_code()); self.push_error(err) } }
impl ScpiDevice for Dev {}
impl IEEE4882 for Dev {
  fn stb(&self)->u8{ self.scpi_stb() } fn sre(&self)->u8{self.sre} fn set_sre(&mut self,v:u8){self.sre=v} fn esr(&self)->u8{self.esr} fn set_esr(&mut self,v:u8){self.esr=v} fn ese(&self)->u8{self.ese} fn set_ese(&mut self,v:u8){self.ese=v}
  fn tst(&mut self)->Result<()>{Ok(())} fn rst(&mut self)->Result<()>{Ok(())} fn cls(&mut self)->Result<()>{self.scpi_cls()} fn opc(&mut self)->Result<()>{self.scpi_opc()}
}
impl ErrorQueue for Dev { fn push_back_error(&mut self, e:Error){self.errors.push_back(e)} fn pop_front_error(&mut self)->Option<Error>{self.errors.pop_front()} fn num_errors(&self)->usize{self.errors.len()} fn clear_errors(&mut self){self.errors.clear()} }
impl GetEventRegister<Questionable> for Dev { fn register(&self)->&EventRegister{&self.questionable} fn register_mut(&mut self)->&mut EventRegister{&mut self.questionable} }
impl GetEventRegister<Operation> for Dev { fn register(&self)->&EventRegister{&self.operation} fn register_mut(&mut self)->&mut EventRegister{&mut self.operation} }

#[derive(Copy, Clone, PartialEq, Debug, scpi_derive::ScpiEnum)]
enum MyEnum { #[scpi(mnemonic = b"BINary")] Binary, #[scpi(mnemonic = b"ASCii1")] Ascii1, #[scpi(mnemonic = b"ASCii2")] Ascii2, #[scpi(mnemonic = b"L125")] L125, #[scpi(mnemonic = b"P5V")] P5v }

struct One; // pulls one i32 param; query echoes it
impl Command<Dev> for One { cmd_both!();
 fn event(&self, d:&mut Dev, _c:&mut Context, mut p: Parameters)->Result<()> { let x: i32 = p.next_data()?; d.log.push(format!("One({})",x)); Ok(()) }
 fn query(&self, d:&mut Dev, _c:&mut Context, mut p: Parameters, mut r: ResponseUnit)->Result<()> { let x: f64 = p.next_data()?; d.log.push(format!("One?({})",x)); r.data(x).finish() } }
struct Zero; impl Command<Dev> for Zero { cmd_both!();
 fn event(&self, d:&mut Dev, _c:&mut Context, _p: Parameters)->Result<()> { d.log.push("Zero".into()); Ok(()) }
 fn query(&self, d:&mut Dev, _c:&mut Context, _p: Parameters, mut r: ResponseUnit)->Result<()> { d.log.push("Zero?".into()); r.data(7u8).data(&b"a\"b"[..]).finish() } }
struct En; impl Command<Dev> for En { cmd_qonly!();
 fn query(&self, _d:&mut Dev, _c:&mut Context, mut p: Parameters, mut r: ResponseUnit)->Result<()> { let e: MyEnum = p.next_data()?; r.data(e).finish() } }
struct ErrC; impl Command<Dev> for ErrC { cmd_nquery!();
 fn event(&self, _d:&mut Dev, _c:&mut Context, _p: Parameters)->Result<()> { Err(Error::new(ErrorCode::DeviceSpecificError).extended(b"say \"hi\"")) } }
struct Oper; impl Command<Dev> for Oper { cmd_nquery!();
 fn event(&self, d:&mut Dev, _c:&mut Context, mut p: Parameters)->Result<()> { let c:u16=p.next_data()?; d.get_register_mut::<Operation>().set_condition(c); Ok(()) } }

const TREE: Node<Dev> = Branch { name: b"", default: false, sub: &[
  ieee488_cls!(), ieee488_ese!(), ieee488_esr!(), ieee488_idn!(b"GPA", b"T", b"0", b"0"), ieee488_opc!(), ieee488_rst!(), ieee488_sre!(), ieee488_stb!(), ieee488_tst!(), ieee488_wai!(), scpi_status!(), scpi_system!(),
  Leaf{name:b"ONE",default:false,handler:&One}, Leaf{name:b"ZERO",default:false,handler:&Zero}, Leaf{name:b"ENum",default:false,handler:&En}, Leaf{name:b"ERRC",default:false,handler:&ErrC}, Leaf{name:b"*OPER",default:false,handler:&Oper},
  Leaf{name:b"*ABCDEFGHIJK",default:false,handler:&Zero},
]};

fn run(d:&mut Dev, s:&[u8], mav: bool) {
  let mut ctx = Context::default(); ctx.mav = mav; let mut buf = Vec::new(); d.herr.clear(); d.log.clear();
  let r = TREE.run(s, d, &mut ctx, &mut buf);
  println!("{:?} -> {:?} buf={:?} handle_error={:?} log={:?} q={:?} esr={}", String::from_utf8_lossy(s), r.map_err(|e| e.get_code()), String::from_utf8_lossy(&buf), d.herr, d.log, d.errors.iter().map(|e| e.get_code()).collect::<Vec<_>>(), d.esr);
}
fn main(){
  let mut d = Dev::new();
  for s in [&b"ZERO?;"[..], b"ZERO?;\n", b"ZERO?\n", b"ZERO? \n", b"ZERO?;ZERO;ZERO?", b"ONE ,1", b"ONE 1,", b"ONE 1,2", b" ZERO?", b"ZERO? ", b"ONE", b"ONE 1;ZERO 2;ZERO", b"ONE? 1e10", b"ONE? 1e-7", b"ONE? 0.13", b"ONE? 123456789012345678901234567890", b"ONE? 1.5e300",
     b"EN? ASC2", b"EN? L125", b"EN? P5V", b"EN? ASC", b"EN? BIN", b"ERRC", b"SYST:ERR?", b"*ABCDEFGHIJK?", b"(abc)", b"ZERO(1)", b"ZERO:", b"ZERO?;;ZERO?", b"*IDN?;*IDN?", b"ZERO? 1 \n ZERO"] { run(&mut d, s, false); }
  println!("--- CLS");
  let mut d = Dev::new();
  run(&mut d, b"FOO", false); run(&mut d, b"*CLS", false); run(&mut d, b"SYST:ERR:COUN?", false);
  println!("--- MAV/MSS");
  let mut d = Dev::new();
  run(&mut d, b"*SRE 16;*STB?", true); run(&mut d, b"*STB?", false);
  println!("--- summary");
  let mut d = Dev::new();
  run(&mut d, b"STAT:OPER:ENAB 1;*OPER 1;*OPER 0;*STB?;:STAT:OPER?;*STB?", false);
  run(&mut d, b"*OPER 1;STAT:OPER?;*STB?", false);
  println!("--- preset");
  run(&mut d, b"STAT:PRES;:STAT:OPER:COND?", false);
  run(&mut d, b"*OPER 1;STAT:OPER?", false);
  println!("--- ESE");
  run(&mut d, b"*ESE 255.4;*ESE?", false); run(&mut d, b"*ESE 256", false); run(&mut d, b"*ESE 0.0;*ESE?", false); run(&mut d, b"*ESE #HFF;*ESE?", false);
  println!("short_form L125={:?} ASCii2={:?}", String::from_utf8_lossy(MyEnum::L125.short_form()), String::from_utf8_lossy(MyEnum::Ascii2.short_form()));
  // arrayvec
  println!("--- arrayvec");
  for cap in 0..12usize { macro_rules! go { ($($c:literal),*) => { match cap { $($c => { let mut b = arrayvec::ArrayVec::<u8,$c>::new(); let mut ctx=Context::default(); let mut d=Dev::new(); let r = TREE.run(b"ZERO?;ZERO?", &mut d, &mut ctx, &mut b); println!("cap {} -> {:?} {:?}", cap, r.map_err(|e| e.get_code()), String::from_utf8_lossy(&b)); })* _=>{} } } } go!(0,1,2,3,4,5,6,7,8,9,10,11); }
}
