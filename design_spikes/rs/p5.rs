// Prototype of the planned C07 repair, run against boundary literals; oracle is in Python.
use std::io::{self, BufRead};
macro_rules! conv {
    ($name:ident, $from:ty, $f:ty) => {
        fn $name(lit: &[u8]) -> Result<$from, i16> {
            lexical_core::parse::<$from>(lit).or_else(|e| {
                if matches!(e, lexical_core::Error::InvalidDigit(_)) {
                    let value = lexical_core::parse::<$f>(lit).map_err(|_| -120i16)?;
                    let lo = <$from>::MIN as $f;                              // exact: 0 or -2^k
                    let hi = ((<$from>::MAX / 2 + 1) as $f) * 2.0;            // exact: MAX + 1 = 2^k
                    // rounds (half away from zero) into [MIN, MAX]  <=>  MIN - 0.5 < value < MAX + 0.5
                    if !(value - lo > -0.5) || !(value - hi < -0.5) {
                        return Err(-222);
                    }
                    let t = value as $from;                                    // truncation, in range
                    let frac = value - (t as $f);                              // exact
                    Ok(if frac >= 0.5 { t + 1 } else if frac <= -0.5 { t - 1 } else { t })
                } else if matches!(e, lexical_core::Error::Overflow(_) | lexical_core::Error::Underflow(_)) { Err(-222) } else { Err(-120) }
            })
        }
    };
}
conv!(c_u8, u8, f32); conv!(c_i8, i8, f32); conv!(c_u16, u16, f32); conv!(c_i16, i16, f32);
conv!(c_u32, u32, f64); conv!(c_i32, i32, f64); conv!(c_u64, u64, f64); conv!(c_i64, i64, f64);
fn main() {
    for line in io::stdin().lock().lines() {
        let line = line.unwrap(); let mut it = line.split_whitespace(); let ty = it.next().unwrap(); let lit = it.next().unwrap().as_bytes();
        let r = match ty { "u8" => c_u8(lit).map(|x| x as i128), "i8" => c_i8(lit).map(|x| x as i128), "u16" => c_u16(lit).map(|x| x as i128), "i16" => c_i16(lit).map(|x| x as i128),
            "u32" => c_u32(lit).map(|x| x as i128), "i32" => c_i32(lit).map(|x| x as i128), "u64" => c_u64(lit).map(|x| x as i128), "i64" => c_i64(lit).map(|x| x as i128), _ => panic!() };
        match r { Ok(v) => println!("{} {} ok {}", ty, String::from_utf8_lossy(lit), v), Err(e) => println!("{} {} err {}", ty, String::from_utf8_lossy(lit), e) }
    }
}
