use scpi::{tree::prelude::*, parser::format::*};
use std::convert::TryFrom;
fn fmt<T: ResponseData>(t: T) -> String { let mut v: Vec<u8> = Vec::new(); let r = t.format_response_data(&mut v); format!("{:?} {:?}", r.map_err(|e| e.get_code()), String::from_utf8_lossy(&v)) }
fn main(){
  println!("{}", fmt(Error::new(ErrorCode::DeviceSpecificError).extended(b"say \"hi\"")));
  println!("{}", fmt(Error::custom(5, b"my \"custom\"")));
  println!("{}", fmt(Error::custom(5, b"my custom").extended(b"a;b")));
  println!("hex -1i8: {}", fmt(Hex(-1i8))); println!("hex 255u8: {}", fmt(Hex(255u8))); println!("bin 5u8: {}", fmt(Binary(5u8))); println!("oct i64 min: {}", fmt(Octal(i64::MIN)));
  for x in [1.0f32, 1e10, 1e-7, 0.1, 3.4028235e38, 1e-45, 16777216.0, 123456.7, 0.0, -0.0, 9.9e37] { println!("f32 {:e}: {}", x, fmt(x)); }
  for x in [1.0f64, 1e21, 1e22, 1e-5, 1e-4, 5e-324, 1.7976931348623157e308, 123456789.0, 1e9, 1e15, 1e16,1e17, 9.9e37] { println!("f64 {:e}: {}", x, fmt(x)); }
  println!("{}", fmt(Arbitrary(b"ABC"))); println!("{}", fmt(Arbitrary(&[0u8;10][..]))); println!("{}", fmt("str")); println!("{}", fmt(&b"a\"\"b\"c"[..])); println!("{}", fmt(&b""[..])); println!("{}", fmt(Vec::<u8>::new())); println!("{}", fmt(vec![1u8,2,3]));
  println!("{}", fmt(i64::MIN)); println!("{}", fmt(u64::MAX));
  macro_rules! ti { ($t:ty, $s:expr) => { println!("{} {:?} -> {:?}", stringify!($t), $s, <$t>::try_from(Token::DecimalNumericProgramData($s.as_bytes())).map_err(|e: Error| e.get_code())); } }
  ti!(i64, "4503599627370497.0"); ti!(i64, "4503599627370497"); ti!(i64,"-4503599627370497.0"); ti!(u16,"65535.4"); ti!(u16, "65534.6"); ti!(i16,"-32768.4"); ti!(i32, "1e9"); ti!(i32,"12345678901e-1"); ti!(u8, "2.5e2"); ti!(u8,"25.55e1");
  ti!(i32, "1e"); ti!(i32, ""); ti!(i32, "+"); ti!(i32, "1.5.5");
  println!("{:?}", lexical_core::parse_partial::<isize>(b"!2")); println!("{:?}", lexical_core::parse_partial::<isize>(b"")); println!("{:?}", lexical_core::parse_partial::<isize>(b"+")); println!("{:?}", lexical_core::parse_partial::<isize>(b"-5!")); println!("{:?}", lexical_core::parse_partial::<isize>(b"99999999999999999999"));
  println!("{:?}", lexical_core::parse::<usize>(b"+5")); println!("{:?}", lexical_core::parse::<usize>(b"-5")); println!("{:?}", lexical_core::parse::<f64>(b"1e")); println!("{:?}", lexical_core::parse::<f64>(b"."));println!("{:?}", lexical_core::parse::<f64>(b"+.e1"));
  // mnemonic
  use scpi::parser::{mnemonic_match, mnemonic_compare};
  for (d,c) in [("TRIGger","trig"),("TRIGger","trigg"),("TRIGger","trigger"),("TRIGger","trigger1"),("TRIGger","trig01"),("TRIGger2","trig2"),("TRIGger2","trig"),("TRIGger1","trig"),("*IDN","*idn"),("","a"),("A","")] { println!("{} ~ {} : match={} compare={}", d, c, mnemonic_match(d.as_bytes(), c.as_bytes()), mnemonic_compare(d.as_bytes(), c.as_bytes())); }
}
