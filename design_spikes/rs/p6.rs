// Exhaustive small-alphabet sweep of the real code: any panic / -300 internal error?
use scpi::{tree::prelude::*, error::Result, cmd_both};
use scpi::parser::expression::{channel_list, numeric_list};
use scpi::parser::format::*;
use std::convert::TryFrom;
use std::panic;
struct Dev; impl Device for Dev { fn handle_error(&mut self, _e: Error) {} }
struct Pull(u8);
fn conv_all(tok: Token) -> Result<()> {
    // try every conversion; internal error => report
    macro_rules! t { ($ty:ty) => { if let Err(e) = <$ty>::try_from(tok) { if e.get_code() == -300 { return Err(e); } } } }
    t!(u8); t!(i8); t!(u16); t!(i16); t!(u32); t!(i32); t!(u64); t!(i64); t!(usize); t!(isize); t!(f32); t!(f64); t!(bool); t!(&[u8]); t!(&str); t!(Arbitrary); t!(Character); t!(Expression);
    if let Ok(nl) = numeric_list::NumericList::try_from(tok) { for (k,it) in nl.enumerate() { if it.is_err() || k > 64 { break; } } }
    if let Ok(cl) = channel_list::ChannelList::try_from(tok) { for (k,it) in cl.enumerate() { match it { Err(_) => break, Ok(channel_list::Token::ChannelSpec(s)) => { for (j,d) in s.into_iter().enumerate() { if d.is_err() || j > 8 { break; } } let _ = <(isize,isize)>::try_from(s); let _ = <(usize,usize,usize)>::try_from(s); let _ = usize::try_from(s); }, Ok(channel_list::Token::ChannelRange(a,b)) => { for (j,d) in a.into_iter().enumerate() { if d.is_err() || j > 8 { break; } } for (j,d) in b.into_iter().enumerate() { if d.is_err() || j > 8 { break; } } }, Ok(_) => {} } if k > 64 { break; } } }
    Ok(())
}
impl Command<Dev> for Pull { cmd_both!();
  fn event(&self, _d:&mut Dev, _c:&mut Context, mut p: Parameters)->Result<()> { for _ in 0..self.0 { if let Some(t) = p.next_optional_token()? { conv_all(t)?; } } Ok(()) }
  fn query(&self, _d:&mut Dev, _c:&mut Context, mut p: Parameters, mut r: ResponseUnit)->Result<()> { for _ in 0..self.0 { let t = p.next_token()?; conv_all(t)?; } r.data(1u8).finish() } }
const TREE: Node<Dev> = Branch { name: b"", default: false, sub: &[
  Leaf{name:b"*A",default:false,handler:&Pull(1)},
  Leaf{name:b"A",default:false,handler:&Pull(2)},
  Branch{name:b"B",default:false,sub:&[ Leaf{name:b"",default:true,handler:&Pull(0)}, Leaf{name:b"A1",default:false,handler:&Pull(1)}, Branch{name:b"Ab",default:true,sub:&[Leaf{name:b"Ba2",default:true,handler:&Pull(3)}]} ]},
]};
fn main(){
  panic::set_hook(Box::new(|_| {}));
  let alpha: &[u8] = b"*:?;, \nAbEH10+-.#'\"()@!_/\x00\x80";
  let maxlen: usize = std::env::args().nth(1).map(|s| s.parse().unwrap()).unwrap_or(4);
  let mut total=0u64; let mut panics=0u64; let mut internal=0u64; let mut shown=0;
  for len in 0..=maxlen {
    let mut idx = vec![0usize; len];
    loop {
      let body: Vec<u8> = idx.iter().map(|&i| alpha[i]).collect();
      for prefix in [&b""[..], b"A ", b"A (", b"A (@", b"B:A ", b"A #", b"A 1"] {
        let mut s = prefix.to_vec(); s.extend_from_slice(&body);
        total+=1;
        let r = panic::catch_unwind(|| { let mut d=Dev; let mut c=Context::default(); let mut b=Vec::new(); TREE.run(&s,&mut d,&mut c,&mut b).map_err(|e| e.get_code()) });
        match r { Err(_) => { panics+=1; if shown<25 { shown+=1; println!("PANIC {:?}", String::from_utf8_lossy(&s)); } }, Ok(Err(-300)) => { internal+=1; if shown<25 { shown+=1; println!("INTERNAL {:?}", String::from_utf8_lossy(&s)); } }, _ => {} }
      }
      // increment
      let mut k=0; loop { if k==len { break; } idx[k]+=1; if idx[k]<alpha.len() { break; } idx[k]=0; k+=1; }
      if k==len { break; }
    }
  }
  println!("total={} panics={} internal={}", total, panics, internal);
}
