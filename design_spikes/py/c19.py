import random, subprocess, sys
rnd=random.Random(5)
def digits(a=1,b=3): return ''.join(rnd.choice('0123456789') for _ in range(rnd.randint(a,b)))
def integer(): return rnd.choice(['','+','-'])+digits()
def spec():
    n=rnd.randint(1,3); parts=[integer() for _ in range(n)]
    return '!'.join(parts), '%d[%s]'%(n,'!'.join(str(int(p)) for p in parts)), n
def nrf(first=False):
    s=rnd.choice(['','+','-']); k=rnd.randint(0,2 if not first else 1)
    m = digits() if k==0 else (digits()+'.'+digits(0,3) if k==1 else '.'+digits())
    e = (rnd.choice('eE')+rnd.choice(['','+','-'])+digits(1,2)) if rnd.random()<0.3 else ''
    return s+m+e
cases=[]
for _ in range(30000):
    if rnd.random()<0.5:
        ents=[];exp=[]
        for _ in range(rnd.randint(0,6)):
            k=rnd.choice(['s','r','p'])
            if k=='s': t,e,_=spec(); ents.append(t); exp.append('S'+e)
            elif k=='r':
                t1,e1,n=spec()
                while True:
                    t2,e2,n2=spec()
                    if n2==n: break
                ents.append(t1+':'+t2); exp.append('R%s:%s'%(e1,e2))
            else:
                q=rnd.choice(['"',"'"]); body=''
                for _ in range(rnd.randint(0,6)):
                    c=chr(rnd.randint(0,127))
                    if c in '"\';()': c = q+q if c==q else 'x'
                    body+=c
                ents.append(q+body+q); exp.append('P'+body.encode().hex())
        s='@'+','.join(ents)
        cases.append(('chan',s.encode('latin1'),' '.join(exp)))
    else:
        ents=[];exp=[]
        for i in range(rnd.randint(0,6)):
            a=nrf(first=(i==0))
            if rnd.random()<0.3:
                b=nrf(); ents.append(a+':'+b); exp.append('R%s:%s'%(a.encode().hex(),b.encode().hex()))
            else: ents.append(a); exp.append('N'+a.encode().hex())
        cases.append(('num',','.join(ents).encode(),' '.join(exp)))
inp='\n'.join('%s %s'%(k,b.hex()) for k,b,_ in cases)+'\n'
res=subprocess.run(['/tmp/scratch/target/release/p8'],input=inp.encode(),capture_output=True).stdout.decode().splitlines()
assert len(res)==len(cases), (len(res),len(cases))
bad=0
for (k,b,exp),got in zip(cases,res):
    if exp!=got:
        bad+=1
        if bad<12: print('DIFF',k,b,'\n  exp',exp,'\n  got',got)
print(len(cases),bad)
