import random
M=0xFFFF
def run(h):
    cond=0;ev=0;en=0;ntr=0;ptr=M
    for op in h:
        k=op[0]
        if k=='C':
            c=op[1]; tr=cond^c; ev|= tr & ((c&ptr)|((~c&M)&ntr)); cond=c
        elif k=='P': ptr=op[1]
        elif k=='N': ntr=op[1]
        elif k=='E': en=op[1]
        elif k=='RE': ev=0
        elif k=='CLS': ev=0
        elif k=='PRE': en=0;cond=0;ptr=M;ntr=0
    return ev
def last(h,kind,init,preset):
    v=init
    for op in h:
        if op[0]==kind: v=op[1]
        elif op[0]=='PRE': v=preset
    return v
def latched(i,h):
    # exists split h1 ++ [C c] ++ h2, no RE/CLS in h2
    for j,op in enumerate(h):
        if op[0]!='C': continue
        h1=h[:j]; h2=h[j+1:]
        if any(o[0] in ('RE','CLS') for o in h2): continue
        c=op[1]; old=last(h1,'C',0,0); p=last(h1,'P',M,M); n=last(h1,'N',0,0)
        ob=(old>>i)&1; nb=(c>>i)&1
        if ob!=nb and ((nb==1 and (p>>i)&1) or (nb==0 and (n>>i)&1)): return True
    return False
rnd=random.Random(3)
bad=0;tot=0
for t in range(20000):
    h=[]
    for _ in range(rnd.randint(0,12)):
        k=rnd.choice(['C','C','C','P','N','E','RE','CLS','PRE'])
        if k in('C','P','N','E'): h.append((k,rnd.choice([0,1,2,3,0x8000,0x8001,M,rnd.randint(0,M)])))
        else: h.append((k,))
    ev=run(h)
    for i in (0,1,15):
        tot+=1
        if ((ev>>i)&1)!=int(latched(i,h)): bad+=1; print(h,i); break
print(tot,bad)
