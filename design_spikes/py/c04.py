import random, subprocess, sys
rnd=random.Random(int(sys.argv[2]) if len(sys.argv)>2 else 1)
WS=[b' ',b'\t',b'\r',b'\x0c']
def ws(minn=0,maxn=2): return b''.join(rnd.choice(WS) for _ in range(rnd.randint(minn,maxn)))
ALPHA=b'ABCDEFGHIJKLMNOPQRSTUVWXYZabcdefghijklmnopqrstuvwxyz'
MNCH=ALPHA+b'0123456789_'
def hx(b): return b.hex()
def mnemonic(maxlen=12):
    n=rnd.randint(1,maxlen); return bytes([rnd.choice(ALPHA)])+bytes(rnd.choice(MNCH) for _ in range(n-1))
def digits(minn=1,maxn=5): return bytes(rnd.choice(b'0123456789') for _ in range(rnd.randint(minn,maxn)))
def nrf():
    s=rnd.choice([b'',b'+',b'-'])
    k=rnd.randint(0,2)
    if k==0: m=digits()
    elif k==1: m=digits()+b'.'+digits(0,4)
    else: m=b'.'+digits()
    e=b''
    if rnd.random()<0.4: e=rnd.choice([b'e',b'E'])+rnd.choice([b'',b'+',b'-'])+digits(1,3)
    return s+m+e
SUFCH=ALPHA+b'0123456789-/.'
def suffix(first_not_e):
    n=rnd.randint(1,12)
    first=rnd.choice(ALPHA+b'/')
    while first_not_e and first in b'eE': first=rnd.choice(ALPHA+b'/')
    return bytes([first])+bytes(rnd.choice(SUFCH) for _ in range(n-1))
def datum(last):
    """returns (bytes, token string, ends_message)"""
    k=rnd.choice(['chr','dec','decsuf','nondec','str','blk','expr']+(['blk0'] if last else []))
    if k=='chr':
        m=mnemonic(); return m, 'C:'+hx(m), False
    if k=='dec':
        d=nrf(); return d, 'D:'+hx(d), False
    if k=='decsuf':
        d=nrf(); w=ws(0,2); has_exp = (b'e' in d or b'E' in d)
        s=suffix(first_not_e=(w==b'' and not has_exp))
        # if no ws and nrf has no exponent, suffix must not start with e/E; if nrf has exponent already then e is fine
        return d+w+s, 'S:%s:%s'%(hx(d),hx(s)), False
    if k=='nondec':
        r=rnd.choice(['H','h','Q','q','B','b']); base={'h':16,'q':8,'b':2}[r.lower()]
        n=rnd.randint(1,16 if base==16 else (21 if base==8 else 64))
        ds=''.join(rnd.choice('0123456789abcdefABCDEF'[: (10 if base==16 else base)] if base!=16 else '0123456789abcdefABCDEF') for _ in range(n))
        v=int(ds,base)
        if v>=2**64: ds='1'; v=1
        return b'#'+r.encode()+ds.encode(), 'N:%d'%v, False
    if k=='str':
        q=rnd.choice([b"'",b'"'])
        body=b''
        for _ in range(rnd.randint(0,8)):
            c=bytes([rnd.randint(0,127)])
            body+= (q+q) if c==q else c
        return q+body+q, 'T:'+hx(body), False
    if k=='blk':
        payload=bytes(rnd.randint(0,255) for _ in range(rnd.choice([0,1,2,9,10,11,30])))
        l=str(len(payload)).encode(); pad=rnd.randint(0,2); l=b'0'*pad+l
        if len(l)>9: l=l[-9:]
        return b'#'+str(len(l)).encode()+l+payload, 'B:'+hx(payload), False
    if k=='blk0':
        payload=bytes(rnd.randint(0,255) for _ in range(rnd.randint(0,10)))
        return b'#0'+payload+b'\n', 'B:'+hx(payload), True
    if k=='expr':
        body=bytes(c for c in (rnd.randint(0,127) for _ in range(rnd.randint(0,10))) if c not in b'"\';()')
        return b'('+body+b')', 'X:'+hx(body), False
def unit(first,last):
    out=b''; toks=[]
    common = rnd.random()<0.25
    if common:
        m=b'*'+mnemonic(11); out+=m; toks.append('M:'+hx(m))
    else:
        if rnd.random()<0.3: out+=b':'; toks.append('HS')
        n=rnd.randint(1,4)
        for i in range(n):
            m=mnemonic(); out+=m; toks.append('M:'+hx(m))
            if i<n-1: out+=b':'; toks.append('HS')
    q=rnd.random()<0.5
    if q: out+=b'?'; toks.append('Q')
    nargs=rnd.choice([0,0,1,2,3])
    ended=False
    if nargs==0:
        w=ws(0,2); out+=w
        if w: toks.append('PH')
    else:
        out+=ws(1,2); toks.append('PH')
        for i in range(nargs):
            b,t,e=datum(last and i==nargs-1)
            out+=b; toks.append(t)
            if e: ended=True; break
            out+=ws(0,2)
            if i<nargs-1: out+=b','+ws(0,2); toks.append('DS')
    return out,toks,ended
cases=[]
for _ in range(int(sys.argv[1]) if len(sys.argv)>1 else 5000):
    n=rnd.randint(1,4); out=b''; toks=[]; ended=False
    for i in range(n):
        b,t,e=unit(i==0,i==n-1); out+=b; toks+=t
        if e: ended=True; break
        if i<n-1: out+=b';'+ws(0,2); toks.append('US')
    if not ended and rnd.random()<0.4: out+=b'\n'
    cases.append((out,' '.join(toks)))
inp='\n'.join(c[0].hex() for c in cases)+'\n'
res=subprocess.run(['/tmp/scratch/target/release/p7'],input=inp.encode(),capture_output=True).stdout.decode().splitlines()
assert len(res)==len(cases), (len(res),len(cases))
bad=0
for (b,exp),got in zip(cases,res):
    if exp!=got:
        bad+=1
        if bad<15: print('DIFF',b,'\n  exp',exp,'\n  got',got)
print(len(cases),bad)
