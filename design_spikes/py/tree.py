import itertools, random
# node = ('L', name, default, id) | ('B', name, default, [children])
def match(name, m): return name == m and name != ''   # abstract matching: names are atoms; '' never matches
def exec_(node, hdr, ctx):
    """hdr: list of mnemonics remaining. returns (leaf_id or None(-113), ctx)"""
    if node[0]=='L':
        return (node[3], ctx) if not hdr else (None, ctx)
    sub=node[3]
    if hdr:
        m=hdr[0]; ctx=node
        for c in sub:
            if match(c[1], m): return exec_(c, hdr[1:], ctx)
        for c in sub:
            if c[0]=='B' and c[2]: return exec_(c, hdr, ctx)
        return (None, ctx)
    else:
        for c in sub:
            if c[0]=='L' and c[2]: return exec_(c, hdr, ctx)
        for c in sub:
            if c[0]=='B' and c[2]: return exec_(c, hdr, ctx)
        return (None, ctx)
# spec: all (path, leaf) below ctx; spells with omission of default nodes
def paths(node):
    if node[0]=='L': return
    for c in node[3]:
        if c[0]=='L': yield [c]
        else:
            for p in paths(c): yield [c]+p
def spellings(p, h, parent):
    """yield ctx (parent of last matched node) for each way p spells h"""
    # dp over positions
    def go(i, j, lastctx, par):
        if i==len(p):
            if j==len(h): yield lastctx
            return
        n=p[i]
        if j<len(h) and match(n[1], h[j]):
            yield from go(i+1, j+1, par, n)
        if n[2]:
            yield from go(i+1, j, lastctx, n)
    yield from go(0,0,None,parent)
def designated(ctx, h):
    res=[]
    for p in paths(ctx):
        for c in spellings(p,h,ctx):
            res.append((p[-1][3], id(c)))
    return res
def wf(node):
    if node[0]=='L': return True
    sub=node[3]
    if sum(1 for c in sub if c[0]=='L' and c[2])>1: return False
    if sum(1 for c in sub if c[0]=='B' and c[2])>1: return False
    # m-reachable names pairwise distinct (non-overlap)
    def reach(b):
        r=[c[1] for c in b[3] if c[1]!='']
        for c in b[3]:
            if c[0]=='B' and c[2]: r+=reach(c)
        return r
    r=reach(node)
    if len(r)!=len(set(r)): return False
    def endc(b):
        r=[c for c in b[3] if c[0]=='L' and c[2]]
        for c in b[3]:
            if c[0]=='B' and c[2]: r+=endc(c)
        return r
    if len(endc(node))>1: return False
    return all(wf(c) for c in sub)
rnd=random.Random(1)
cnt=[0]
def gen(depth):
    names=['a','b','c','']
    kids=[]
    for _ in range(rnd.randint(1,3)):
        nm=rnd.choice(names); d=rnd.random()<0.4
        if depth==0 or rnd.random()<0.5:
            cnt[0]+=1; kids.append(('L',nm,d,cnt[0]))
        else:
            kids.append(('B',nm,d,gen(depth-1)))
    return kids
def branches(n):
    if n[0]=='B':
        yield n
        for c in n[3]: yield from branches(c)
tot=0;wfc=0;bad_sound=0;bad_complete=0;bad_ctx=0;nonwf_incomplete=0
for t in range(20000):
    root=('B','',False,gen(3))
    iswf=wf(root)
    wfc+=iswf
    for ctx in branches(root):
        for k in range(1,4):
            for h in itertools.product(['a','b','c'],repeat=k):
                h=list(h); tot+=1
                leaf,c=exec_(ctx,h,ctx)
                des=designated(ctx,h)
                if leaf is not None:
                    if (leaf,id(c)) not in des: bad_sound+=1
                if iswf:
                    if leaf is None and des: bad_complete+=1
                    if len(set(des))>1: bad_ctx+=1
                else:
                    if leaf is None and des: nonwf_incomplete+=1
print(tot,wfc,bad_sound,bad_complete,bad_ctx,nonwf_incomplete)
