import sys, subprocess, random, struct
from fractions import Fraction as Fr
import numpy as np
types={'u8':(0,255,32),'i8':(-128,127,32),'u16':(0,65535,32),'i16':(-32768,32767,32),'u32':(0,2**32-1,64),'i32':(-2**31,2**31-1,64),'u64':(0,2**64-1,64),'i64':(-2**63,2**63-1,64)}
def q_of(lit):
    return Fr(lit)  # Fraction parses '1.5e3' style
def rn(lit,w):
    if w==64:
        d=float(lit)
    else:
        d=float(np.float32(lit))
    return d
def nearest(x):
    # x Fraction ; return set of nearest integers
    import math
    fl=math.floor(x); 
    fr=x-fl
    if fr<Fr(1,2): return {fl}
    if fr>Fr(1,2): return {fl+1}
    return {fl,fl+1}
def allowed(ty,lit):
    lo,hi,w=types[ty]
    res=set()
    xs=[q_of(lit)]
    d=rn(lit,w)
    if d in (float('inf'),float('-inf')): res.add(('err',-222))
    else: xs.append(Fr(d))
    for x in xs:
        for n in nearest(x):
            if lo<=n<=hi: res.add(('ok',n))
            else: res.add(('err',-222))
    return res
rnd=random.Random(7)
lits=[]
def spell(fr_str): return fr_str
for ty,(lo,hi,w) in types.items():
    base=['0.0','0e0','-0.0','.0','0.','-0','+0.0','1e-320','1e-40','-1e-40','0.4','0.5','0.6','-0.4','-0.5','-0.6','0.49999999999999994','0.49999997','0.50000001','1.5','2.5','-1.5','-2.5','1e400','-1e400','1e30','-1e30','4503599627370497.0','-4503599627370497.0','9007199254740993.0','16777217.0','8388609.0','8388608.5','4194304.5']
    for b in (lo,hi):
        for d in ['-1.0','-0.6','-0.5','-0.4','.0','+0.4','+0.5','+0.6','+1.0']:
            # b + d as decimal string
            fr=Fr(b)+Fr(d.replace('+',''))
            s=str(int(fr)) if fr.denominator==1 else ('%s' % (float(fr) if False else None))
            # exact decimal formatting
            sign='-' if fr<0 else ''
            a=abs(fr); ip=a.numerator//a.denominator; rem=a-ip
            fs=''
            r=rem
            for _ in range(3):
                r*=10; fs+=str(r.numerator//r.denominator); r-=r.numerator//r.denominator
            base.append('%s%d.%s'%(sign,ip,fs))
        base.append(str(b)); base.append(str(b)+'.0'); base.append('%de0'%b)
        base.append(str(b+1)+'.0'); base.append(str(b-1)+'.0')
    for _ in range(3000):
        k=rnd.choice([0,1,2,3]);
        if k==0: s='%d.%d'%(rnd.randint(lo-5,hi+5), rnd.randint(0,999))
        elif k==1: s='%de%d'%(rnd.randint(-99999,99999), rnd.randint(-8,16))
        elif k==2: s='%d.%de%d'%(rnd.randint(-999,999), rnd.randint(0,99999), rnd.randint(-5,18))
        else: s='%.17g'%(rnd.uniform(lo-2,hi+2)); 
        if 'inf' in s or 'nan' in s: continue
        if 'e' not in s and '.' not in s: s+='.0'
        base.append(s)
    for s in base: lits.append((ty,s))
inp='\n'.join('%s %s'%x for x in lits)+'\n'
out=subprocess.run([sys.argv[1]],input=inp.encode(),capture_output=True).stdout.decode().splitlines()
bad=0
for (ty,lit),line in zip(lits,out):
    f=line.split(); got=(f[2], int(f[3]))
    al=allowed(ty,lit)
    if got not in al:
        bad+=1
        if bad<40: print('BAD',ty,lit,got,al)
print(len(lits),bad)
