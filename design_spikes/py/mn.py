import itertools
def is_up(c): return 'A'<=c<='Z'
def is_lo(c): return 'a'<=c<='z'
def is_dg(c): return '0'<=c<='9'
def cmp_(m, s):
    optional=True
    if len(m) < len(s): return False
    it=iter(s)
    for ch in m:
        x=next(it,None)
        if is_lo(ch) and x is not None: optional=False
        if x is None:
            ok = (not (is_up(ch) or is_dg(ch))) and optional
        else:
            ok = ch.lower()==x.lower()
        if not ok: return False
    return True
def split(m):
    idx=None
    for i in range(len(m)-1,-1,-1):
        if not is_dg(m[i]): idx=i;break
    if idx is None: return None
    if idx==len(m)-1: return None
    return (m[:idx+1], m[idx+1:])
def match(m,s):
    if cmp_(m,s): return True
    a,b=split(m),split(s)
    if a is None and b is None: return False
    if a is not None and b is None: return cmp_(a[0],s) and a[1]=="1"
    if a is None and b is not None: return cmp_(m,b[0]) and b[1]=="1"
    return cmp_(a[0],b[0]) and a[1]==b[1]
# spec
def strip_digits(x):
    i=len(x)
    while i>0 and is_dg(x[i-1]): i-=1
    return x[:i], x[i:]
def spec(d,c):
    db,ds=strip_digits(d); cb,cs=strip_digits(c)
    if ds=="": ds="1"
    if cs=="": cs="1"
    short=''.join(itertools.takewhile(lambda ch: not is_lo(ch), db))
    return ds==cs and (cb.lower()==short.lower() or cb.lower()==db.lower())
ups=['A','B']; los=['a','b']; dgs=['0','1','2']
defs=[]
for nu in range(1,4):
  for U in itertools.product(ups,repeat=nu):
    for nl in range(0,3):
      for L in itertools.product(los,repeat=nl):
        for nd in range(0,3):
          for D in itertools.product(dgs,repeat=nd):
            defs.append(''.join(U+L+D))
alpha=['A','a','B','b','0','1','2','_']
bad=0;tot=0
for d in defs:
  for n in range(0,6):
    for c in itertools.product(alpha,repeat=n):
      c=''.join(c); tot+=1
      if match(d,c)!=spec(d,c):
        bad+=1
        if bad<30: print("DIFF def=%r cand=%r code=%s spec=%s"%(d,c,match(d,c),spec(d,c)))
print(tot,bad)
