//! kind `errtab <lo> <hi>` — C14: dump get_error / get_code / get_message / esr_mask
//! for every code in lo..=hi, one `;`-separated record per code.
use crate::util::*;
use scpi::error::{Error, ErrorCode};

pub fn run(args: &[&str]) -> String {
    let lo: i32 = args[0].parse().unwrap();
    let hi: i32 = args[1].parse().unwrap();
    let mut out = Vec::new();
    for c in lo..=hi {
        let c = c as i16;
        let custom = Error::custom(c, b"x");
        let cm = custom.esr_mask();
        match ErrorCode::get_error(c) {
            Some(ec) => out.push(format!(
                "{}:S{}:{}:{}:{}",
                c,
                ec.get_code(),
                hex(ec.get_message()),
                ec.esr_mask(),
                cm
            )),
            None => out.push(format!("{}:N:{}", c, cm)),
        }
    }
    out.join(";")
}
