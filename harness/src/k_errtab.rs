//! kind `errtab <lo> <hi>` — C14: dump get_error / get_code / get_message / esr_mask
//! for every code in lo..=hi, one `;`-separated record per code.
use crate::util::*;
use scpi::error::{Error, ErrorCode};

pub fn run(args: &[&str]) -> String {
    let lo: i32 = args[0].parse().unwrap();
    let hi: i32 = args[1].parse().unwrap();
    let mut out = Vec::new();
    for c in lo..=hi {
        let c = c as i16;
        let custom = Error::custom(c, b"x");
        let cm = custom.esr_mask();
        match ErrorCode::get_error(c) {
            Some(ec) => out.push(format!(
                "{}:S{}:{}:{}:{}",
                c,
                ec.get_code(),
                hex(ec.get_message()),
                ec.esr_mask(),
                cm
            )),
            None => out.push(format!("{}:N:{}", c, cm)),
        }
    }
    out.join(";")
}

/// kind `dumptab` — exhaustive behavioural extraction of the tables the translator otherwise reads from the source text
/// (used when the source no longer has the shape the regular expressions expect):
/// `E <Debug name> <code> <hex message>` for every standard error (code descending), `M <code> <mask>` runs of equal
/// esr_mask over all i16 codes as `M <lo> <hi> <mask>`, `C <data sep> <header sep> <unit sep> <terminator>`.
pub fn dump(_args: &[&str]) -> String {
    use scpi::parser::response::Formatter;
    let mut out = Vec::new();
    let mut c: i32 = 32767;
    while c >= -32768 {
        if let Some(ec) = ErrorCode::get_error(c as i16) {
            out.push(format!("E {:?} {} {}", ec, ec.get_code(), hex(ec.get_message())));
        }
        c -= 1;
    }
    // runs of equal mask, ascending
    let mask = |c: i32| Error::custom(c as i16, b"x").esr_mask();
    let mut lo: i32 = -32768;
    while lo <= 32767 {
        let m = mask(lo);
        let mut hi = lo;
        while hi < 32767 && mask(hi + 1) == m { hi += 1; }
        out.push(format!("M {} {} {}", lo, hi, m));
        lo = hi + 1;
    }
    // separators through the public Formatter interface
    let mut v: Vec<u8> = Vec::new();
    v.data_separator().unwrap(); v.header_separator().unwrap();
    let (ds, hs) = (v[0], v[1]);
    let mut w: Vec<u8> = Vec::new();
    w.message_start().unwrap();
    w.response_unit().unwrap().data(1u8).finish().unwrap();
    w.response_unit().unwrap().data(2u8).finish().unwrap();
    w.message_end().unwrap();
    // "1;2\n"
    out.push(format!("C {} {} {} {}", ds, hs, w[1], w[w.len() - 1]));
    out.join("|")
}
