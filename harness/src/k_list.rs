//! kinds `nlist <hexexpr>` / `clist <hexexpr>` — C19 (and C01): the expression body (what is between the parentheses)
//! iterated up to and including its first error.
//!   nlist: n<hexnum> | r<hexbegin>:<hexend> | E..
//!   clist: s<spec> | r<spec>~<spec> | p<hexpath> | E.. | NONE (not a channel list)
//!          <spec> = <hextext>/<dim>/<d1>!<d2>..[!E<code>]/<isize>/<(i,i)>/<(i,i,i)>   (conversions: value or E<code>)
use crate::util::*;
use scpi::parser::expression::channel_list::{ChannelList, ChannelSpec, Token as CT};
use scpi::parser::expression::numeric_list::{NumericList, Token as NT};
use scpi::parser::tokenizer::Token;

fn num(t: &Token) -> String { match t { Token::DecimalNumericProgramData(s) => hex(s), other => format!("?{:?}", other) } }

pub fn nlist(expr: &[u8]) -> String {
    let mut out = Vec::new();
    let mut n = 0;
    for e in NumericList::new(expr) {
        n += 1; if n > expr.len() + 2 { out.push("HANG".to_string()); break; }
        match e {
            Ok(NT::Numeric(a)) => out.push(format!("n{}", num(&a))),
            Ok(NT::NumericRange(a, b)) => out.push(format!("r{}:{}", num(&a), num(&b))),
            Err(e) => { out.push(show_error(&e)); break; }
        }
    }
    if out.is_empty() { "-".into() } else { out.join(" ") }
}

fn spec(s: ChannelSpec) -> String {
    let mut dims = Vec::new();
    let mut n = 0;
    for d in s {
        n += 1; if n > 64 { dims.push("HANG".to_string()); break; }
        match d { Ok(v) => dims.push(v.to_string()), Err(e) => { dims.push(format!("E{}", e.get_code())); break; } }
    }
    // the other ways of walking the dimensions (Iterator::nth / skip / step_by / last / count, after a first next() too)
    // must agree with the plain walk when every dimension is a number
    if dims.len() >= 1 && dims.iter().all(|d| !d.starts_with('E') && d != "HANG") {
        let all: Vec<String> = dims.clone();
        let get = |r: Option<core::result::Result<isize, scpi::error::ErrorCode>>| match r { Some(Ok(v)) => v.to_string(), Some(Err(e)) => format!("E{}", e.get_code()), None => "-".to_string() };
        let mut bad = Vec::new();
        for k in 0..all.len() + 1 {
            let mut it = s.into_iter();
            let got = get(it.nth(k));
            if got != all.get(k).cloned().unwrap_or("-".into()) { bad.push(format!("nth({})={}", k, got)); }
            if k >= 1 {
                let mut it = s.into_iter(); let _ = it.next();
                let got = get(it.nth(k - 1));
                if got != all.get(k).cloned().unwrap_or("-".into()) { bad.push(format!("next;nth({})={}", k - 1, got)); }
                let mut it = s.into_iter(); let _ = it.next();
                let got = get(it.skip(k - 1).next());
                if got != all.get(k).cloned().unwrap_or("-".into()) { bad.push(format!("next;skip({})={}", k - 1, got)); }
            }
        }
        let stepped: Vec<String> = s.into_iter().step_by(2).map(|r| get(Some(r))).collect();
        let want: Vec<String> = all.iter().step_by(2).cloned().collect();
        if stepped != want { bad.push(format!("step_by(2)={}", stepped.join("!"))); }
        if s.into_iter().count() != all.len() { bad.push(format!("count={}", s.into_iter().count())); }
        if get(s.into_iter().last()) != *all.last().unwrap() { bad.push("last".to_string()); }
        if !bad.is_empty() { dims.push(format!("ITERATOR-INCONSISTENT[{}]", bad.join(";"))); }
    }
    let c1 = match <isize>::try_from(s) { Ok(v) => v.to_string(), Err(e) => format!("E{}", e.get_code()) };
    let c2 = match <(isize, isize)>::try_from(s) { Ok(v) => format!("{}_{}", v.0, v.1), Err(e) => format!("E{}", e.get_code()) };
    let c3 = match <(isize, isize, isize)>::try_from(s) { Ok(v) => format!("{}_{}_{}", v.0, v.1, v.2), Err(e) => format!("E{}", e.get_code()) };
    let u1 = match <usize>::try_from(s) { Ok(v) => v.to_string(), Err(e) => format!("E{}", e.get_code()) };
    let u2 = match <(usize, usize)>::try_from(s) { Ok(v) => format!("{}_{}", v.0, v.1), Err(e) => format!("E{}", e.get_code()) };
    // ChannelSpec::len / is_empty are documented as the dimension count
    let lennote = if s.len() != s.dimension() || s.is_empty() != (s.dimension() == 0) { format!("LEN-DIFFERS[{}]", s.len()) } else { String::new() };
    format!("{}{}/{}/{}/{}/{}/{}/{}", lennote, s.dimension(), if dims.is_empty() { "-".to_string() } else { dims.join("!") }, c1, c2, c3, u1, u2)
}

pub fn clist(expr: &[u8]) -> String {
    let l = match ChannelList::new(expr) { Some(l) => l, None => return "NONE".into() };
    let mut out = Vec::new();
    let mut n = 0;
    for e in l {
        n += 1; if n > expr.len() + 2 { out.push("HANG".to_string()); break; }
        match e {
            Ok(CT::ChannelSpec(a)) => out.push(format!("s{}", spec(a))),
            Ok(CT::ChannelRange(a, b)) => out.push(format!("r{}~{}", spec(a), spec(b))),
            Ok(CT::PathName(p)) => out.push(format!("p{}", hex(p))),
            Ok(CT::ModuleChannel(a, b)) => out.push(format!("m{}:{}", hex(a), hex(b))),
            Err(e) => { out.push(format!("E{}", e.get_code())); break; }
        }
    }
    if out.is_empty() { "-".into() } else { out.join(" ") }
}

pub fn run(kind: &str, args: &[&str]) -> String {
    let e = unhex(args.get(0).unwrap_or(&"-"));
    if kind == "nlist" { nlist(&e) } else { clist(&e) }
}
