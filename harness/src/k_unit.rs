//! kind `unit <Quantity> <hexbytes>` / `ampl <Quantity> <hexbytes>` / `db <Quantity> <hexbytes>` — C18: the bytes are lexed
//! (new_params), the first token is converted to the uom quantity (f32 storage); the value is reported in the SI base
//! unit of the quantity (`.value`).  Output: V<value> | <class> V<value> | E<code>.
use crate::util::*;
use scpi::error::Error;
use scpi::parser::suffix::{Amplitude, Db};
use scpi::parser::tokenizer::{Token, Tokenizer};
use scpi::units::uom::si::f32::*;

fn v(x: f32) -> String { format!("V{:e}", x) }

macro_rules! quantities {
    ($m:ident, $q:expr, $tok:expr) => {
        match $q {
            "Angle" => $m!(Angle, $tok), "Capacitance" => $m!(Capacitance, $tok), "ElectricCharge" => $m!(ElectricCharge, $tok),
            "ElectricCurrent" => $m!(ElectricCurrent, $tok), "ElectricPotential" => $m!(ElectricPotential, $tok),
            "ElectricalConductance" => $m!(ElectricalConductance, $tok), "ElectricalResistance" => $m!(ElectricalResistance, $tok),
            "Energy" => $m!(Energy, $tok), "Inductance" => $m!(Inductance, $tok), "Power" => $m!(Power, $tok), "Ratio" => $m!(Ratio, $tok),
            "ThermodynamicTemperature" => $m!(ThermodynamicTemperature, $tok), "Time" => $m!(Time, $tok), "Frequency" => $m!(Frequency, $tok),
            _ => panic!("unknown quantity"),
        }
    };
}
macro_rules! plain { ($t:ty, $tok:expr) => { match <$t>::try_from($tok) { Ok(q) => v(q.value), Err(e) => show_error(&e) } }; }
macro_rules! ampl { ($t:ty, $tok:expr) => { match Amplitude::<$t>::try_from($tok) {
    Ok(Amplitude::None(q)) => format!("None {}", v(q.value)), Ok(Amplitude::Peak(q)) => format!("Peak {}", v(q.value)),
    Ok(Amplitude::PeakToPeak(q)) => format!("PP {}", v(q.value)), Ok(Amplitude::Rms(q)) => format!("Rms {}", v(q.value)),
    Err(e) => show_error(&e) } }; }
macro_rules! dbm { ($t:ty, $tok:expr) => { match Db::<f32, $t>::try_from($tok) {
    Ok(Db::None(x)) => format!("DbNone {}", v(x)), Ok(Db::Linear(q)) => format!("Linear {}", v(q.value)),
    Ok(Db::Logarithmic(x, q)) => format!("Log {} {}", v(x), v(q.value)), Err(e) => show_error(&e) } }; }

pub fn run(kind: &str, args: &[&str]) -> String {
    let input = unhex(args.get(1).unwrap_or(&"-"));
    let mut toks = Tokenizer::new_params(&input);
    let tok: Token = match toks.next() { Some(Ok(t)) if t.is_data() => t, Some(Err(e)) => return format!("L{}", e.get_code()), _ => return "N".into() };
    let q = args[0];
    let _e: Option<Error> = None;
    match kind {
        "unit" => quantities!(plain, q, tok),
        "ampl" => quantities!(ampl, q, tok),
        _ => match q {
            "ElectricCurrent" => dbm!(ElectricCurrent, tok), "ElectricPotential" => dbm!(ElectricPotential, tok), "Power" => dbm!(Power, tok), "Ratio" => dbm!(Ratio, tok),
            _ => panic!("no dB table for this quantity"),
        },
    }
}
