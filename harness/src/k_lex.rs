//! kind `lex <h|p> <hexinput>` — C04/C01: the Tokenizer as an Iterator, up to and including
//! its first error.  `h`: Tokenizer::new (header mode), `p`: Tokenizer::new_params.
use crate::util::*;
use scpi::parser::tokenizer::{Token, Tokenizer};

pub fn show_token(t: &Token) -> String {
    match t {
        Token::HeaderMnemonicSeparator => ":".into(),
        Token::HeaderQuerySuffix => "?".into(),
        Token::ProgramMessageUnitSeparator => ";".into(),
        Token::ProgramHeaderSeparator => "_".into(),
        Token::ProgramDataSeparator => ",".into(),
        Token::ProgramMnemonic(s) => format!("M{}", hex(s)),
        Token::CharacterProgramData(s) => format!("C{}", hex(s)),
        Token::DecimalNumericProgramData(s) => format!("D{}", hex(s)),
        Token::DecimalNumericSuffixProgramData(v, s) => format!("S{}/{}", hex(v), hex(s)),
        Token::NonDecimalNumericProgramData(n) => format!("N{}", n),
        Token::StringProgramData(s) => format!("Q{}", hex(s)),
        Token::ArbitraryBlockData(s) => format!("B{}", hex(s)),
        Token::ExpressionProgramData(s) => format!("X{}", hex(s)),
    }
}

pub fn run(args: &[&str]) -> String {
    let input = unhex(args.get(1).unwrap_or(&"-"));
    let toks = if args[0] == "p" { Tokenizer::new_params(&input) } else { Tokenizer::new(&input) };
    let mut out: Vec<String> = Vec::new();
    let mut n = 0usize;
    for t in toks {
        n += 1;
        if n > input.len() + 2 { out.push("HANG".into()); break; }
        match t {
            Ok(t) => out.push(show_token(&t)),
            Err(e) => { out.push(format!("E{}", e.get_code())); break; }
        }
    }
    if out.is_empty() { "-".into() } else { out.join(" ") }
}
