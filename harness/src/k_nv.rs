//! kind `nv <type> <hexbytes> <ops>` — C17: the bytes are lexed (new_params), the first token converted to
//! NumericValue<T>, then resolved with `value.build().<ops in order>.finish()`.
//! ops: comma separated `M<v>` (max) `m<v>` (min) `d<v>` (default), `-` for none; v: decimal for integers,
//! IEEE bits in hex for floats.  Output: `<variant> <result>`: variant V<value>|MAX|MIN|DEF|UP|DOWN|E.., result I../F../E..
use crate::util::*;
use scpi::error::Error;
use scpi::parser::tokenizer::{Token, Tokenizer};
use scpi_contrib::scpi1999::{NumericValue, NumericValueDefaults};
use scpi_contrib::scpi1999::NumericBuilder;
use scpi::units::uom::si::{f32::{Frequency, Time}, frequency::hertz, time::second};

fn go<'a, T>(tok: Token<'a>, ops: &str, parse: impl Fn(&str) -> T, show: impl Fn(&T) -> String) -> String
where T: TryFrom<Token<'a>, Error = Error> + PartialOrd + NumericValueDefaults + Copy {
    let nv = match NumericValue::<T>::try_from(tok.clone()) { Ok(v) => v, Err(e) => return format!("{} -", show_error(&e)) };
    let var = match &nv { NumericValue::Value(t) => format!("V{}", show(t)), NumericValue::Maximum => "MAX".into(), NumericValue::Minimum => "MIN".into(),
                          NumericValue::Default => "DEF".into(), NumericValue::Up => "UP".into(), NumericValue::Down => "DOWN".into() };
    let mut b = nv.build();
    let (mut lmax, mut lmin) = (None, None);
    for o in ops.split(',') {
        if o.is_empty() || o == "-" { continue; }
        let (k, v) = o.split_at(1);
        b = match k { "M" => { lmax = Some(parse(v)); b.max(parse(v)) }, "m" => { lmin = Some(parse(v)); b.min(parse(v)) },
                      "d" => b.default(parse(v)), _ => panic!("bad op") };
    }
    let showr = |r: scpi::error::Result<T>| match r { Ok(t) => show(&t), Err(e) => show_error(&e) };
    // the other public entry points to the same resolution must agree with the builder chain
    let mut note = String::new();
    if let (Some(mx), Some(mn)) = (lmax, lmin) {
        let again = |tk: Token<'a>| NumericValue::<T>::try_from(tk).ok();
        if let (Some(n0), Some(n1), Some(n2)) = (again(tok.clone()), again(tok.clone()), again(tok.clone())) {
            let r0 = showr(n0.build().max(mx).min(mn).finish());
            let r1 = showr(n1.finish_with(mx, mn));
            let r2 = showr(NumericBuilder::new(n2, mx, mn).finish());
            if r1 != r0 { note.push_str(&format!(" FINISH_WITH-DIFFERS[{}]", r1)); }
            if r2 != r0 { note.push_str(&format!(" BUILDER_NEW-DIFFERS[{}]", r2)); }
        }
    }
    // NumericValue::value(): Some exactly for a plain value
    if let Some(n3) = NumericValue::<T>::try_from(tok.clone()).ok() {
        if n3.value().is_some() != var.starts_with('V') { note.push_str(" VALUE()-DIFFERS"); }
    }
    format!("{} {}{}", var, showr(b.finish()), note)
}

pub fn run(args: &[&str]) -> String {
    let input = unhex(args.get(1).unwrap_or(&"-"));
    let ops = args.get(2).unwrap_or(&"-");
    let mut toks = Tokenizer::new_params(&input);
    let tok = match toks.next() { Some(Ok(t)) if t.is_data() => t, Some(Err(e)) => return format!("L{}", e.get_code()), _ => return "N".into() };
    macro_rules! int { ($t:ty) => { go::<$t>(tok, ops, |s| s.parse::<$t>().unwrap(), |v| format!("I{}", v)) }; }
    match args[0] {
        "i8" => int!(i8), "u8" => int!(u8), "i16" => int!(i16), "u16" => int!(u16), "i32" => int!(i32), "u32" => int!(u32), "i64" => int!(i64), "u64" => int!(u64),
        "f32" => go::<f32>(tok, ops, |s| f32::from_bits(u32::from_str_radix(s, 16).unwrap()), |v| format!("F{:08x}", v.to_bits())),
        "f64" => go::<f64>(tok, ops, |s| f64::from_bits(u64::from_str_radix(s, 16).unwrap()), |v| format!("F{:016x}", v.to_bits())),
        // unit quantities (uom, f32 storage): bounds, default and result in the base unit
        "qtime" => go::<Time>(tok, ops, |s| Time::new::<second>(f32::from_bits(u32::from_str_radix(s, 16).unwrap())), |v| format!("F{:08x}", v.get::<second>().to_bits())),
        "qfreq" => go::<Frequency>(tok, ops, |s| Frequency::new::<hertz>(f32::from_bits(u32::from_str_radix(s, 16).unwrap())), |v| format!("F{:08x}", v.get::<hertz>().to_bits())),
        _ => panic!("bad type"),
    }
}
