//! kind `tree <cap> <treespec> <scripts> <hexmsg> [<hexmsg> ...]` — C01, C02, C05, C06, C10, C11:
//! a command tree built at run time from the case, scripted handlers, one or more messages run
//! against the SAME tree object.
//!
//!   cap       `v` = Vec<u8> formatter, `<n>` = ArrayVec<u8, n> (n in the instantiated set)
//!   treespec  children of the root: `L[d]<hexname>#<id>;` | `B[d]<hexname>(<children>);`
//!   scripts   `<id>:<ev-ops>/<qu-ops>` joined by `+`; ops joined by `.`:
//!               r / o        required / optional raw token pull, error propagated (`?`)
//!               R / O        same, error swallowed (logged, handler continues)
//!               r:<ty> o:<ty> typed pull (next_data::<ty> / next_optional_data::<ty>), error propagated
//!               h<hex>       response header        d<item>  response data
//!               F<errspec>   return Err             K        return Ok(())      N  return response.finish()
//!             default end: event Ok(()), query finish()
//!   items     i<int> u<int> b<0|1> s<hex> a<hex> c<hex> x<hex> E<errspec> H<n> Q<n> B<n> l<i>,<i>..|l-
//!             f<f64 bits hex> g<f32 bits hex> X<code> (a ResponseData that fails with <code> before writing)
//! Output per message: `<OK|E..> out=<hex> hook=<errs> alloc=<n> log=<entries>`, joined by ` | `.
use crate::util::*;
use arrayvec::ArrayVec;
use scpi::error::{Error, ErrorCode, Result};
use scpi::parser::expression::channel_list::ChannelList;
use scpi::parser::expression::numeric_list::NumericList;
use scpi::parser::format::{Arbitrary, Binary, Character, Expression, Hex, Octal};
use scpi::parser::response::{Formatter, ResponseData};
use scpi::tree::prelude::*;
use std::alloc::{GlobalAlloc, Layout, System};

pub struct Counting;
// per-thread counter: the case runs on its own thread, the main thread (watchdog, output) must not be counted
thread_local! { static ALLOCS: std::cell::Cell<usize> = const { std::cell::Cell::new(0) }; }
fn bump() { let _ = ALLOCS.try_with(|c| c.set(c.get() + 1)); }
pub fn allocs() -> usize { ALLOCS.try_with(|c| c.get()).unwrap_or(0) }
unsafe impl GlobalAlloc for Counting {
    unsafe fn alloc(&self, l: Layout) -> *mut u8 { bump(); System.alloc(l) }
    unsafe fn dealloc(&self, p: *mut u8, l: Layout) { System.dealloc(p, l) }
    unsafe fn realloc(&self, p: *mut u8, l: Layout, n: usize) -> *mut u8 { bump(); System.realloc(p, l, n) }
}

#[derive(Clone, Copy)]
enum Entry { Call(u32, bool), Tok(u8, usize, usize, usize, usize, u64), Absent, PullErr(i16), Typed }

pub struct TDev { log: Vec<Entry>, arena: Vec<u8>, hook: Vec<Error> }
impl Device for TDev { fn handle_error(&mut self, err: Error) { self.hook.push(err) } }

impl TDev {
    fn put(&mut self, b: &[u8]) -> (usize, usize) { let s = self.arena.len(); self.arena.extend_from_slice(b); (s, b.len()) }
    fn log_tok(&mut self, t: &Token) {
        let e = match t {
            Token::CharacterProgramData(s) => { let (a, l) = self.put(s); Entry::Tok(b'C', a, l, 0, 0, 0) }
            Token::DecimalNumericProgramData(s) => { let (a, l) = self.put(s); Entry::Tok(b'D', a, l, 0, 0, 0) }
            Token::DecimalNumericSuffixProgramData(v, s) => { let (a, l) = self.put(v); let (b, m) = self.put(s); Entry::Tok(b'S', a, l, b, m, 0) }
            Token::NonDecimalNumericProgramData(n) => Entry::Tok(b'N', 0, 0, 0, 0, *n),
            Token::StringProgramData(s) => { let (a, l) = self.put(s); Entry::Tok(b'Q', a, l, 0, 0, 0) }
            Token::ArbitraryBlockData(s) => { let (a, l) = self.put(s); Entry::Tok(b'B', a, l, 0, 0, 0) }
            Token::ExpressionProgramData(s) => { let (a, l) = self.put(s); Entry::Tok(b'X', a, l, 0, 0, 0) }
            _ => Entry::Tok(b'!', 0, 0, 0, 0, 0),          // a non-data token handed to a handler
        };
        self.log.push(e);
    }
    fn show(&self) -> String {
        let mut out: Vec<String> = Vec::new();
        for e in &self.log {
            out.push(match e {
                Entry::Call(id, q) => format!("{}{}", id, if *q { "q" } else { "e" }),
                Entry::Tok(k, a, l, b, m, n) => match k {
                    b'N' => format!("pN{}", n),
                    b'S' => format!("pS{}/{}", hex(&self.arena[*a..a + l]), hex(&self.arena[*b..b + m])),
                    _ => format!("p{}{}", *k as char, hex(&self.arena[*a..a + l])),
                },
                Entry::Absent => "pA".into(),
                Entry::PullErr(c) => format!("pE{}", c),
                Entry::Typed => "pT".into(),
            });
        }
        if out.is_empty() { "-".into() } else { out.join(",") }
    }
}

enum Item { I(i64), U(u64), Bo(bool), S(&'static [u8]), A(&'static [u8]), C(&'static [u8]), X(&'static [u8]), E(Error),
            H(u64), Q(u64), B(u64), L(Vec<i32>), F64(f64), F32(f32), Fail(i16) }

struct FailData(i16);
impl ResponseData for FailData {
    fn format_response_data(&self, _f: &mut dyn Formatter) -> Result<()> {
        Err(match ErrorCode::get_error(self.0) { Some(ec) => Error::new(ec), None => Error::custom(self.0, b"custom") })
    }
}

enum Op { Pull { req: bool, swallow: bool, ty: Option<&'static str> }, Hdr(&'static [u8]), Data(Item), Fail(Error), RetOk, RetFinish }

pub struct Scripted { id: u32, ev: Vec<Op>, qu: Vec<Op> }

fn parse_item(s: &str) -> Item {
    let (k, v) = s.split_at(1);
    match k {
        "i" => Item::I(v.parse().unwrap()), "u" => Item::U(v.parse().unwrap()), "b" => Item::Bo(v == "1"),
        "s" => Item::S(leak(unhex(v))), "a" => Item::A(leak(unhex(v))), "c" => Item::C(leak(unhex(v))), "x" => Item::X(leak(unhex(v))),
        "E" => Item::E(parse_error(v)), "H" => Item::H(v.parse().unwrap()), "Q" => Item::Q(v.parse().unwrap()), "B" => Item::B(v.parse().unwrap()),
        "l" => Item::L(if v == "-" { vec![] } else { v.split(',').map(|x| x.parse().unwrap()).collect() }),
        "f" => Item::F64(f64::from_bits(u64::from_str_radix(v, 16).unwrap())),
        "g" => Item::F32(f32::from_bits(u32::from_str_radix(v, 16).unwrap())),
        "X" => Item::Fail(v.parse().unwrap()),
        _ => panic!("bad item {:?}", s),
    }
}

fn parse_ops(s: &str) -> Vec<Op> {
    let mut ops = Vec::new();
    for o in s.split('.') {
        if o.is_empty() || o == "-" { continue; }
        let (k, v) = o.split_at(1);
        ops.push(match k {
            "r" | "o" | "R" | "O" => Op::Pull {
                req: k == "r" || k == "R", swallow: k == "R" || k == "O",
                ty: v.strip_prefix(':').map(|t| -> &'static str { Box::leak(t.to_string().into_boxed_str()) }),
            },
            "h" => Op::Hdr(leak(unhex(v))),
            "d" => Op::Data(parse_item(v)),
            "F" => Op::Fail(parse_error(v)),
            "K" => Op::RetOk,
            "N" => Op::RetFinish,
            _ => panic!("bad op {:?}", o),
        });
    }
    ops
}

/// typed pull through the library's own Parameters::next_data::<T> / next_optional_data::<T>;
/// Ok(true): converted, Ok(false): absent (optional only)
fn typed_pull(ty: &str, req: bool, params: &mut Parameters) -> Result<bool> {
    macro_rules! pull {
        ($t:ty) => { if req { params.next_data::<$t>().map(|_| true) } else { params.next_optional_data::<$t>().map(|o| o.is_some()) } };
        ($t:ty, $f:expr) => {
            if req { params.next_data::<$t>().and_then($f).map(|_| true) }
            else { match params.next_optional_data::<$t>()? { Some(v) => $f(v).map(|_| true), None => Ok(false) } }
        };
    }
    match ty {
        "i8" => pull!(i8), "u8" => pull!(u8), "i16" => pull!(i16), "u16" => pull!(u16), "i32" => pull!(i32), "u32" => pull!(u32),
        "i64" => pull!(i64), "u64" => pull!(u64), "isize" => pull!(isize), "usize" => pull!(usize),
        "f32" => pull!(f32), "f64" => pull!(f64), "bool" => pull!(bool), "bytes" => pull!(&[u8]), "str" => pull!(&str),
        "arb" => pull!(Arbitrary), "chr" => pull!(Character), "expr" => pull!(Expression),
        "volt" => pull!(scpi::units::ElectricPotential), "freq" => pull!(scpi::units::Frequency), "time" => pull!(scpi::units::Time),
        "amplv" => pull!(scpi::parser::suffix::Amplitude<scpi::units::ElectricPotential>),
        "dbw" => pull!(scpi::parser::suffix::Db<f32, scpi::units::Power>),
        "nvi32" => pull!(scpi_contrib::scpi1999::NumericValue<i32>), "nvf32" => pull!(scpi_contrib::scpi1999::NumericValue<f32>),
        "nlist" => pull!(NumericList, |l: NumericList| -> Result<()> { for e in l { e?; } Ok(()) }),
        "clist" => pull!(ChannelList, |l: ChannelList| -> Result<()> {
            for e in l {
                use scpi::parser::expression::channel_list::Token as CT;
                let specs = match e? { CT::ChannelSpec(a) => vec![a], CT::ChannelRange(a, b) => vec![a, b], _ => vec![] };
                for sp in specs {
                    // every dimension up to the first error (the iterator does not advance past an error)
                    for d in sp { if d.is_err() { break; } }
                    let _ = <isize>::try_from(sp); let _ = <usize>::try_from(sp);
                    let _ = <(isize, isize)>::try_from(sp); let _ = <(usize, usize)>::try_from(sp);
                    let _ = <(isize, isize, isize)>::try_from(sp); let _ = <(usize, usize, usize)>::try_from(sp);
                }
            }
            Ok(())
        }),
        _ => panic!("bad type {}", ty),
    }
}

impl Scripted {
    fn interp(&self, ops: &[Op], query: bool, d: &mut TDev, mut params: Parameters, mut resp: Option<ResponseUnit>) -> Result<()> {
        d.log.push(Entry::Call(self.id, query));
        for op in ops {
            match op {
                Op::Pull { req, swallow, ty } => match ty {
                    None => {
                        let r = if *req { params.next_token().map(Some) } else { params.next_optional_token() };
                        match r {
                            Ok(Some(t)) => d.log_tok(&t),
                            Ok(None) => d.log.push(Entry::Absent),
                            Err(e) => { d.log.push(Entry::PullErr(e.get_code())); if !*swallow { return Err(e); } }
                        }
                    }
                    Some(ty) => match typed_pull(ty, *req, &mut params) {
                        Ok(true) => d.log.push(Entry::Typed),
                        Ok(false) => d.log.push(Entry::Absent),
                        Err(e) => { d.log.push(Entry::PullErr(e.get_code())); if !*swallow { return Err(e); } }
                    },
                },
                Op::Hdr(h) => { if let Some(r) = resp.as_mut() { r.header(h); } }
                Op::Data(it) => {
                    if let Some(r) = resp.as_mut() {
                        match it {
                            Item::I(v) => { r.data(*v); } Item::U(v) => { r.data(*v); } Item::Bo(v) => { r.data(*v); }
                            Item::S(v) => { r.data(*v); } Item::A(v) => { r.data(Arbitrary(v)); } Item::C(v) => { r.data(Character(v)); }
                            Item::X(v) => { r.data(Expression(v)); } Item::E(v) => { r.data(*v); }
                            Item::H(v) => { r.data(Hex(*v)); } Item::Q(v) => { r.data(Octal(*v)); } Item::B(v) => { r.data(Binary(*v)); }
                            Item::L(v) => { let a: ArrayVec<i32, 16> = v.iter().cloned().collect(); r.data(a); }
                            Item::F64(v) => { r.data(*v); } Item::F32(v) => { r.data(*v); } Item::Fail(c) => { r.data(FailData(*c)); }
                        }
                    }
                }
                Op::Fail(e) => return Err(*e),
                Op::RetOk => return Ok(()),
                Op::RetFinish => return match resp.as_mut() { Some(r) => r.finish(), None => Ok(()) },
            }
        }
        match resp.as_mut() { Some(r) => r.finish(), None => Ok(()) }
    }
}

impl Command<TDev> for Scripted {
    // the documented NON-BINDING hint: deliberately unrelated to the forms the script implements, so that a dispatcher
    // that consults it shows up as a difference
    fn meta(&self) -> CommandTypeMeta {
        match self.id % 4 { 0 => CommandTypeMeta::Unknown, 1 => CommandTypeMeta::NoQuery, 2 => CommandTypeMeta::QueryOnly, _ => CommandTypeMeta::Both }
    }
    fn event(&self, d: &mut TDev, _c: &mut Context, params: Parameters) -> Result<()> { self.interp(&self.ev, false, d, params, None) }
    fn query(&self, d: &mut TDev, _c: &mut Context, params: Parameters, resp: ResponseUnit) -> Result<()> {
        self.interp(&self.qu, true, d, params, Some(resp))
    }
}

type TNode = Node<'static, TDev>;

fn parse_children(s: &[u8], pos: &mut usize, scripts: &std::collections::HashMap<u32, (String, String)>) -> Vec<TNode> {
    let mut out = Vec::new();
    while *pos < s.len() && s[*pos] != b')' {
        let kind = s[*pos]; *pos += 1;
        let dflt = if s[*pos] == b'd' { *pos += 1; true } else { false };
        let st = *pos;
        while s[*pos].is_ascii_hexdigit() || s[*pos] == b'-' { *pos += 1; }
        let name: &'static [u8] = leak(unhex(std::str::from_utf8(&s[st..*pos]).unwrap()));
        if kind == b'L' {
            assert_eq!(s[*pos], b'#'); *pos += 1;
            let st = *pos;
            while s[*pos].is_ascii_digit() { *pos += 1; }
            let id: u32 = std::str::from_utf8(&s[st..*pos]).unwrap().parse().unwrap();
            let (e, q) = scripts.get(&id).cloned().unwrap_or_default();
            let h: &'static Scripted = Box::leak(Box::new(Scripted { id, ev: parse_ops(&e), qu: parse_ops(&q) }));
            out.push(Node::Leaf { name, default: dflt, handler: h });
        } else {
            assert_eq!(s[*pos], b'('); *pos += 1;
            let sub: &'static [TNode] = Box::leak(parse_children(s, pos, scripts).into_boxed_slice());
            assert_eq!(s[*pos], b')'); *pos += 1;
            out.push(Node::Branch { name, default: dflt, sub });
        }
        assert_eq!(s[*pos], b';'); *pos += 1;
    }
    out
}

fn run_one<F: Formatter>(root: &TNode, msg: &[u8], d: &mut TDev, ctx: &mut Context, f: &mut F, check_alloc: bool) -> String {
    d.log.clear(); d.arena.clear(); d.hook.clear();
    let before = allocs();
    let r = root.run(msg, d, ctx, f);
    let allocs = allocs() - before;
    let hook: Vec<String> = d.hook.iter().map(show_error).collect();
    format!("{} out={} hook={} alloc={} log={}",
            match r { Ok(()) => "OK".to_string(), Err(e) => show_error(&e) }, hex(f.as_slice()),
            if hook.is_empty() { "-".to_string() } else { hook.join(",") },
            if check_alloc { allocs.to_string() } else { "x".to_string() }, d.show())
}

macro_rules! with_cap {
    ($cap:expr, $root:expr, $msg:expr, $d:expr, $ctx:expr; $($n:literal)*) => {
        match $cap {
            $( $n => { let mut f = ArrayVec::<u8, $n>::new(); run_one($root, $msg, $d, $ctx, &mut f, true) } )*
            _ => panic!("capacity {} not instantiated", $cap),
        }
    };
}

pub fn run(args: &[&str]) -> String {
    let cap = args[0];
    let mut scripts = std::collections::HashMap::new();
    for sc in args[2].split('+') {
        if sc.is_empty() || sc == "-" { continue; }
        let (id, rest) = sc.split_once(':').unwrap();
        let (e, q) = rest.split_once('/').unwrap();
        scripts.insert(id.parse::<u32>().unwrap(), (e.to_string(), q.to_string()));
    }
    let mut pos = 0;
    let spec = args[1].as_bytes();
    let sub: &'static [TNode] = Box::leak(parse_children(if args[1] == "-" { b"" } else { spec }, &mut pos, &scripts).into_boxed_slice());
    let root: TNode = Node::Branch { name: b"ROOT", default: false, sub };
    let mut d = TDev { log: Vec::with_capacity(4096), arena: Vec::with_capacity(1 << 16), hook: Vec::with_capacity(16) };
    let mut out = Vec::new();
    // ONE Context for all messages of the case, as an instrument keeps one per session: Node::run must not carry
    // anything from one message to the next in it
    let mut ctx = Context::new();
    for m in &args[3..] {
        let msg = unhex(m);
        if cap == "v" {
            let mut f: Vec<u8> = Vec::new();
            out.push(run_one(&root, &msg, &mut d, &mut ctx, &mut f, false));
        } else {
            let c: usize = cap.parse().unwrap();
            out.push(with_cap!(c, &root, &msg, &mut d, &mut ctx;
                0 1 2 3 4 5 6 7 8 9 10 11 12 13 14 15 16 17 18 19 20 21 22 23 24 25 26 27 28 29 30 31 32 33 34 35 36 37 38 39 40
                41 42 43 44 45 46 47 48 49 50 51 52 53 54 55 56 57 58 59 60 61 62 63 64 65 66 67 68 69 70 71 72 73 74 75 76 77 78 79 80
                96 128 256 1024));
        }
    }
    out.join(" | ")
}
