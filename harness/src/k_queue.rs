//! kind `queue <cap> <op,op,...>` — C12.  cap = 0 means Vec<Error>.
use crate::util::*;
use arrayvec::ArrayVec;
use scpi::error::{Error, ErrorQueue};

fn drive<Q: ErrorQueue>(q: &mut Q, ops: &str) -> String {
    let mut out: Vec<String> = Vec::new();
    for op in ops.split(',').filter(|s| !s.is_empty()) {
        match op.as_bytes()[0] {
            b'o' => match q.pop_front_error() {
                Some(e) => out.push(show_error(&e)),
                None => out.push("N".into()),
            },
            b'l' => out.push(format!("L{}{}", q.num_errors(), if q.is_empty() { "e" } else { "" })),
            b'k' => q.clear_errors(),
            _ => q.push_back_error(parse_error(op)),
        }
    }
    // drain to show final content
    out.push("|".into());
    while let Some(e) = q.pop_front_error() {
        out.push(show_error(&e));
    }
    out.join(" ")
}

macro_rules! caps {
    ($cap:expr, $ops:expr; $($n:literal),*) => {
        match $cap {
            0 => { let mut q: Vec<Error> = Vec::new(); drive(&mut q, $ops) }
            $( $n => { let mut q: ArrayVec<Error, $n> = ArrayVec::new(); drive(&mut q, $ops) } )*
            _ => "UNSUPPORTED-CAP".to_string(),
        }
    };
}

pub fn run(args: &[&str]) -> String {
    let cap: usize = args[0].parse().unwrap();
    let ops = if args.len() > 1 { args[1] } else { "" };
    caps!(cap, ops; 1,2,3,4,5,6,7,8,9,10,16,32)
}
