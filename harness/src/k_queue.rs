//! kind `queue <cap> <op,op,...>` — C12.  cap = 0 means Vec<Error>.
use crate::util::*;
use arrayvec::ArrayVec;
use scpi::error::{Error, ErrorQueue};

fn drive<Q: ErrorQueue + Rest>(q: &mut Q, ops: &str) -> String {
    let mut out: Vec<String> = Vec::new();
    for op in ops.split(',').filter(|s| !s.is_empty()) {
        match op.as_bytes()[0] {
            b'o' => match q.pop_front_error() {
                Some(e) => out.push(show_error(&e)),
                None => out.push("N".into()),
            },
            b'l' => out.push(format!("L{}{}", q.num_errors(), if q.is_empty() { "e" } else { "" })),
            b'k' => q.clear_errors(),
            _ => q.push_back_error(parse_error(op)),
        }
    }
    // show the final content: the first entries are drained through pop_front_error (the library's Vec queue removes at
    // the front in O(n), so draining a 200 000-entry queue entirely would take O(n^2) in THIS harness), the rest is read
    // in place; the reported length must agree with what is there
    out.push("|".into());
    let mut drained = 0;
    while drained < 2000 {
        match q.pop_front_error() { Some(e) => { out.push(show_error(&e)); drained += 1 } None => break }
    }
    let rest = q.rest();
    if q.num_errors() != rest.len() { out.push(format!("LENGTH-DIFFERS[{}/{}]", q.num_errors(), rest.len())); }
    for e in rest.iter() { out.push(show_error(e)); }
    out.join(" ")
}

/// read access to what a queue holds (both provided queues are slices underneath)
trait Rest { fn rest(&self) -> Vec<Error>; }
impl Rest for Vec<Error> { fn rest(&self) -> Vec<Error> { self.iter().cloned().collect() } }
impl<const N: usize> Rest for ArrayVec<Error, N> { fn rest(&self) -> Vec<Error> { self.iter().cloned().collect() } }

macro_rules! caps {
    ($cap:expr, $ops:expr; $($n:literal),*) => {
        match $cap {
            0 => { let mut q: Vec<Error> = Vec::new(); drive(&mut q, $ops) }
            $( $n => { let mut q: ArrayVec<Error, $n> = ArrayVec::new(); drive(&mut q, $ops) } )*
            _ => "UNSUPPORTED-CAP".to_string(),
        }
    };
}

pub fn run(args: &[&str]) -> String {
    let cap: usize = args[0].parse().unwrap();
    let ops = if args.len() > 1 { args[1] } else { "" };
    caps!(cap, ops; 1,2,3,4,5,6,7,8,9,10,16,32)
}
