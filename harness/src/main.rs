//! Correspondence harness: reads one case per line on stdin
//! (`<kind> <field> <field> ...`), prints one canonical result line per case.
//! Everything observed is public API of /repo's crates; panics are caught and
//! reported as `PANIC <message>`.
mod gen_enums;
mod k_conv;
mod k_dev;
mod k_enum;
mod k_errtab;
mod k_fmt;
mod k_lex;
mod k_list;
mod k_mm;
mod k_nv;
mod k_queue;
mod k_tree;
mod k_unit;
mod util;

use std::io::{self, BufRead, Write};

#[global_allocator]
static GLOBAL: k_tree::Counting = k_tree::Counting;

fn dispatch(kind: &str, args: &[&str]) -> String {
    match kind {
        "queue" => k_queue::run(args),
        "errtab" => k_errtab::run(args),
        "dumptab" => k_errtab::dump(args),
        "dev" => k_dev::run(args),
        "deva" => k_dev::run_alloc(args),
        "devtree" => k_dev::dump_tree(),
        "mm" => k_mm::run(args),
        "lex" => k_lex::run(args),
        "conv" => k_conv::run(args),
        "fmt" => k_fmt::run(args),
        "f32sweep" => k_fmt::sweep(args),
        "blockhdr" => k_fmt::blockhdr(args),
        "devrep" => k_dev::run_rep(args),
        "nv" => k_nv::run(args),
        "enum" | "enumv" => k_enum::run(kind, args),
        "nlist" | "clist" => k_list::run(kind, args),
        "unit" | "ampl" | "db" => k_unit::run(kind, args),
        "tree" => k_tree::run(args),
        _ => format!("UNKNOWN-KIND {}", kind),
    }
}

fn main() {
    // Silence the default panic message: outcomes are reported in-band.
    std::panic::set_hook(Box::new(|_| {}));
    let stdin = io::stdin();
    let stdout = io::stdout();
    let mut out = io::BufWriter::new(stdout.lock());
    let watchdog = std::time::Duration::from_secs(
        std::env::var("VERIF_CASE_TIMEOUT").ok().and_then(|s| s.parse().ok()).unwrap_or(20));
    for line in stdin.lock().lines() {
        let line = line.unwrap();
        if line.split(' ').all(|s| s.is_empty()) {
            writeln!(out).unwrap();
            continue;
        }
        // every case runs on its own thread under a watchdog: a case that does not return is
        // reported as HANG and the process exits (the driver restarts it on the remaining cases)
        let (tx, rx) = std::sync::mpsc::channel();
        let l2 = line.clone();
        std::thread::Builder::new().stack_size(64 << 20).spawn(move || {
            let fields: Vec<&str> = l2.split(' ').filter(|s| !s.is_empty()).collect();
            let r = util::guarded(|| dispatch(fields[0], &fields[1..]));
            let _ = tx.send(match r { Ok(s) => s, Err(p) => format!("PANIC {}", p.replace('\n', " ")) });
        }).unwrap();
        match rx.recv_timeout(watchdog) {
            Ok(s) => writeln!(out, "{}", s).unwrap(),
            Err(_) => {
                writeln!(out, "HANG no result within {} s", watchdog.as_secs()).unwrap();
                out.flush().unwrap();
                std::process::exit(3);
            }
        }
    }
    out.flush().unwrap();
}
