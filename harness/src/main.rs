//! Correspondence harness: reads one case per line on stdin
//! (`<kind> <field> <field> ...`), prints one canonical result line per case.
//! Everything observed is public API of /repo's crates; panics are caught and
//! reported as `PANIC <message>`.
mod k_dev;
mod k_errtab;
mod k_lex;
mod k_mm;
mod k_queue;
mod k_tree;
mod util;

use std::io::{self, BufRead, Write};

#[global_allocator]
static GLOBAL: k_tree::Counting = k_tree::Counting;

fn dispatch(kind: &str, args: &[&str]) -> String {
    match kind {
        "queue" => k_queue::run(args),
        "errtab" => k_errtab::run(args),
        "dev" => k_dev::run(args),
        "devtree" => k_dev::dump_tree(),
        "mm" => k_mm::run(args),
        "lex" => k_lex::run(args),
        "tree" => k_tree::run(args),
        _ => format!("UNKNOWN-KIND {}", kind),
    }
}

fn main() {
    // Silence the default panic message: outcomes are reported in-band.
    std::panic::set_hook(Box::new(|_| {}));
    let stdin = io::stdin();
    let stdout = io::stdout();
    let mut out = io::BufWriter::new(stdout.lock());
    for line in stdin.lock().lines() {
        let line = line.unwrap();
        let fields: Vec<&str> = line.split(' ').filter(|s| !s.is_empty()).collect();
        if fields.is_empty() {
            writeln!(out).unwrap();
            continue;
        }
        let r = util::guarded(|| dispatch(fields[0], &fields[1..]));
        match r {
            Ok(s) => writeln!(out, "{}", s).unwrap(),
            Err(p) => writeln!(out, "PANIC {}", p.replace('\n', " ")).unwrap(),
        }
    }
    out.flush().unwrap();
}
