//! kind `fmt <item>` — C09: format a value as response data into a Vec<u8>, then send the emitted text back
//! through the library's own parser (Tokenizer::new_params + TryFrom<Token>) where the type is also a parameter type.
//! Items:  <intty>:<v>   H|Q|B:<uintty>:<v>   bool:<0|1>   s:<hex>  (&[u8])   S:<hex> (&str)   a:<hex> (Arbitrary)
//!         c:<hex> (Character)   x:<hex> (Expression)   E:<errspec>   l:<intty>:<v,v,..|->   f32:<bits>   f64:<bits>
//! Output: `<hex text | E..> <round trip>` where round trip is the canonical value (as kind conv prints it), `-` if n/a.
use crate::k_conv::convert;
use crate::util::*;
use scpi::parser::format::{Arbitrary, Binary, Character, Expression, Hex, Octal};
use scpi::parser::response::ResponseData;
use scpi::parser::tokenizer::Tokenizer;

fn emit<T: ResponseData>(v: T) -> std::result::Result<Vec<u8>, String> {
    let mut out: Vec<u8> = Vec::new();
    let r = v.format_response_data(&mut out);
    // the same value written at a non-zero offset of the buffer (after an earlier unit) must give the same text
    let mut pre: Vec<u8> = b"7;".to_vec();
    let r2 = v.format_response_data(&mut pre);
    if r.is_ok() != r2.is_ok() || (r.is_ok() && pre[2..] != out[..]) {
        return Err(format!("OFFSET-DEPENDENT {} vs {}", hex(&out), hex(&pre[2.min(pre.len())..])));
    }
    match r { Ok(()) => Ok(out), Err(e) => Err(show_error(&e)) }
}

fn back(ty: &str, text: &[u8]) -> String {
    let mut toks = Tokenizer::new_params(text);
    let first = match toks.next() {
        None => return "-".into(),
        Some(Err(e)) => return format!("L{}", e.get_code()),
        Some(Ok(t)) => t,
    };
    let r = if first.is_data() { convert(ty, first) } else { "N".into() };
    match toks.next() { None => r, Some(_) => format!("{}+MORE", r) }
}

pub fn run(args: &[&str]) -> String {
    let (k, v) = args[0].split_once(':').expect("item");
    macro_rules! int { ($t:ty, $name:expr) => {{ let x: $t = v.parse().unwrap(); (emit(x), Some($name)) }}; }
    macro_rules! radix { ($w:ident) => {{
        let (t, n) = v.split_once(':').unwrap();
        match t { "u8" => (emit($w(n.parse::<u8>().unwrap())), Some("u8")), "u16" => (emit($w(n.parse::<u16>().unwrap())), Some("u16")),
                  "u32" => (emit($w(n.parse::<u32>().unwrap())), Some("u32")), "u64" => (emit($w(n.parse::<u64>().unwrap())), Some("u64")),
                  "i8" => (emit($w(n.parse::<i8>().unwrap())), Some("i8")), "i16" => (emit($w(n.parse::<i16>().unwrap())), Some("i16")),
                  "i32" => (emit($w(n.parse::<i32>().unwrap())), Some("i32")), "i64" => (emit($w(n.parse::<i64>().unwrap())), Some("i64")),
                  "usize" => (emit($w(n.parse::<usize>().unwrap())), Some("usize")), "isize" => (emit($w(n.parse::<isize>().unwrap())), Some("isize")),
                  _ => panic!("radix type") }
    }}; }
    let (text, ty): (std::result::Result<Vec<u8>, String>, Option<&str>) = match k {
        "i8" => int!(i8, "i8"), "u8" => int!(u8, "u8"), "i16" => int!(i16, "i16"), "u16" => int!(u16, "u16"), "i32" => int!(i32, "i32"),
        "u32" => int!(u32, "u32"), "i64" => int!(i64, "i64"), "u64" => int!(u64, "u64"), "isize" => int!(isize, "isize"), "usize" => int!(usize, "usize"),
        "H" => radix!(Hex), "Q" => radix!(Octal), "B" => radix!(Binary),
        "bool" => (emit(v == "1"), Some("bool")),
        "s" => { let b = leak(unhex(v)); (emit(b), Some("bytes")) }
        "S" => { let b = leak(unhex(v)); (emit(std::str::from_utf8(b).expect("utf8 item")), Some("str")) }
        "a" => { let b = leak(unhex(v)); (emit(Arbitrary(b)), Some("arb")) }
        "c" => { let b = leak(unhex(v)); (emit(Character(b)), Some("chr")) }
        "x" => { let b = leak(unhex(v)); (emit(Expression(b)), Some("expr")) }
        "E" => (emit(parse_error(v)), None),
        "l" => {
            let (t, n) = v.split_once(':').unwrap();
            let xs: Vec<i64> = if n == "-" { vec![] } else { n.split(',').map(|x| x.parse().unwrap()).collect() };
            match t { "i32" => (emit(xs.iter().map(|x| *x as i32).collect::<Vec<i32>>()), None),
                      "u8" => (emit(xs.iter().map(|x| *x as u8).collect::<arrayvec::ArrayVec<u8, 32>>()), None),
                      _ => (emit(xs), None) }
        }
        "f32" => (emit(f32::from_bits(u32::from_str_radix(v, 16).unwrap())), Some("f32")),
        "f64" => (emit(f64::from_bits(u64::from_str_radix(v, 16).unwrap())), Some("f64")),
        _ => panic!("bad item {}", args[0]),
    };
    match text {
        Err(e) => format!("{} -", e),
        Ok(t) => {
            let rt = match ty { Some(ty) => back(ty, &t), None => "-".into() };
            // floats: also decode with Rust's own parser (independent of lexical-core)
            let extra = match k {
                "f32" => std::str::from_utf8(&t).ok().and_then(|s| s.parse::<f32>().ok()).map(|x| format!(" P{:08x}", x.to_bits())).unwrap_or(" P?".into()),
                "f64" => std::str::from_utf8(&t).ok().and_then(|s| s.parse::<f64>().ok()).map(|x| format!(" P{:016x}", x.to_bits())).unwrap_or(" P?".into()),
                _ => String::new(),
            };
            format!("{} {}{}", hex(&t), rt, extra)
        }
    }
}

/// kind `f32sweep <start hex> <count>` — C09's own quantifier "all 2^32 f32 bit patterns": every pattern in the range is
/// formatted as response data and read back (a) through the library's parser and (b) through Rust's str::parse; finite
/// values must come back bit for bit, NaN and the infinities must be the SCPI sentinels 9.91E+37 / +-9.9E+37, and the
/// text must be NRf.  Release builds visit every pattern, debug builds every 61st (same verdict line).  `OK` or the
/// first failure.
pub fn sweep(args: &[&str]) -> String {
    let start = u64::from_str_radix(args[0], 16).unwrap();
    let count: u64 = args[1].parse().unwrap();
    let step: u64 = if cfg!(debug_assertions) { 61 } else { 1 };
    let mut b = start;
    let mut out: Vec<u8> = Vec::with_capacity(64);
    while b < start + count {
        let bits = b as u32;
        let v = f32::from_bits(bits);
        out.clear();
        if let Err(e) = v.format_response_data(&mut out) { return format!("FAIL {:08x} format error {}", bits, show_error(&e)); }
        let ok_syntax = !out.is_empty() && out.iter().all(|c| c.is_ascii_digit() || matches!(c, b'+' | b'-' | b'.' | b'e' | b'E'))
            && (out[0].is_ascii_digit() || ((out[0] == b'+' || out[0] == b'-') && out.len() > 1 && (out[1].is_ascii_digit() || out[1] == b'.')) || out[0] == b'.');
        if !ok_syntax { return format!("FAIL {:08x} {} not NRf", bits, hex(&out)); }
        let lib = { let mut t = Tokenizer::new_params(&out);
                    match t.next() { Some(Ok(tok)) => f32::try_from(tok).ok(), _ => None } };
        let rust = std::str::from_utf8(&out).ok().and_then(|s| s.parse::<f32>().ok());
        let want = if v.is_nan() { 9.91e37f32 } else if v == f32::INFINITY { 9.9e37 } else if v == f32::NEG_INFINITY { -9.9e37 } else { v };
        match (lib, rust) {
            (Some(a), Some(c)) if a.to_bits() == want.to_bits() && c.to_bits() == want.to_bits() => {}
            _ => return format!("FAIL {:08x} {} reads back as {:?} / {:?}", bits, hex(&out), lib.map(|x| x.to_bits()), rust.map(|x| x.to_bits())),
        }
        b += step;
    }
    "OK".into()
}

/// kind `blockhdr <n>` — a definite-length block of n payload bytes: the header must state the payload length
/// (`#<d><len>` with d = number of digits of len), the whole text must be header + payload, and the library's own
/// tokenizer must read it back as a block of n bytes.  Blocks of 10^9 bytes and more must be refused, not mangled.
pub fn blockhdr(args: &[&str]) -> String {
    let n: usize = args[0].parse().unwrap();
    let payload = vec![b'x'; n];
    let mut out: Vec<u8> = Vec::new();
    let r = Arbitrary(&payload).format_response_data(&mut out);
    if n >= 1_000_000_000 {
        return match r { Err(_) => "OK".into(), Ok(()) => format!("FAIL a block of {} bytes was written with header {}", n, hex(&out[..out.len().min(12)])) };
    }
    if let Err(e) = r { return format!("FAIL format error {}", show_error(&e)); }
    let len = n.to_string();
    let want_hdr = format!("#{}{}", len.len(), len);
    if out.len() != want_hdr.len() + n || &out[..want_hdr.len()] != want_hdr.as_bytes() {
        return format!("FAIL header {} for a payload of {} bytes (total {})", hex(&out[..out.len().min(14)]), n, out.len());
    }
    let mut t = Tokenizer::new_params(&out);
    match t.next() {
        Some(Ok(scpi::parser::tokenizer::Token::ArbitraryBlockData(p))) if p.len() == n => "OK".into(),
        other => format!("FAIL reads back as {:?}", other.map(|x| x.map(|_| "another token").map_err(|e| e.get_code()))),
    }
}
