//! kind `dev <step>|<step>|...` — C13, C15, C16: a device wired exactly as
//! examples/minimal_scpi.rs (plus a configurable tst() result and an `*ERR <code>`
//! command that raises an error from a handler), driven by a history of
//!   m<0|1>:<hexmsg>   run message (mav flag in the context), Vec<u8> formatter
//!   c<o|q>:<u16>      device side: set_condition on OPERation / QUEStionable
//!   t:<code|N>        device side: what IEEE4882::tst() returns
use crate::util::*;
use scpi::error::Result;
use scpi::tree::prelude::*;
use scpi::{Context, Root};
use scpi_contrib::ieee488::prelude::*;
use scpi_contrib::scpi1999::prelude::*;
use scpi_contrib::{
    ieee488_cls, ieee488_ese, ieee488_esr, ieee488_idn, ieee488_opc, ieee488_rst, ieee488_sre,
    ieee488_stb, ieee488_tst, ieee488_wai, scpi_status, scpi_system,
};
use scpi::error::ErrorQueue;

/// `DevG<false>` is the device of the example; `DevG<true>` (DevV) is a device with a THIRD, device-dependent register set
/// (`STATus:VOLTage`, built with the same generic commands through scpi_register!) that overrides the documented hooks
/// `ScpiDevice::preset()` and `IEEE4882::cls()` to cover it
pub struct DevG<const CUSTOM: bool> {
    pub voltage: EventRegister,
    pub esr: u8,
    pub ese: u8,
    pub sre: u8,
    pub operation: EventRegister,
    pub questionable: EventRegister,
    pub errors: scpi::error::VecErrorQueue,   // the library's own alloc queue
    pub bounded: Option<arrayvec::ArrayVec<Error, 4>>,   // shadow device: the library's fixed-capacity queue instead
    pub tst: Option<Error>,
    pub hook_calls: usize,
}

pub type Dev = DevG<false>;
pub type DevV = DevG<true>;
pub struct Voltage;
impl scpi_contrib::scpi1999::EventRegisterName for Voltage { type BitFlags = scpi_contrib::scpi1999::status::operation::OperationBits; }
impl<const C: bool> GetEventRegister<Voltage> for DevG<C> {
    fn register(&self) -> &EventRegister { &self.voltage }
    fn register_mut(&mut self) -> &mut EventRegister { &mut self.voltage }
}

impl<const C: bool> DevG<C> {
    pub fn new() -> Self {
        DevG { voltage: EventRegister::default(), esr: 0, ese: 0, sre: 0, operation: EventRegister::default(), questionable: EventRegister::default(),
              errors: Vec::new(), bounded: None, tst: None, hook_calls: 0 }
    }
}

impl<const C: bool> Device for DevG<C> where DevG<C>: ScpiDevice {
    fn handle_error(&mut self, err: Error) {
        self.hook_calls += 1;
        self.push_error(err)
    }
}

impl<const C: bool> IEEE4882 for DevG<C> where DevG<C>: ScpiDevice {
    fn stb(&self) -> u8 { self.scpi_stb() }
    fn sre(&self) -> u8 { self.sre }
    fn set_sre(&mut self, value: u8) { self.sre = value }
    fn esr(&self) -> u8 { self.esr }
    fn set_esr(&mut self, value: u8) { self.esr = value }
    fn ese(&self) -> u8 { self.ese }
    fn set_ese(&mut self, value: u8) { self.ese = value }
    fn tst(&mut self) -> Result<()> { match self.tst { None => Ok(()), Some(e) => Err(e) } }
    fn rst(&mut self) -> Result<()> { Ok(()) }
    fn cls(&mut self) -> Result<()> { if C { self.voltage.clear_event(); } self.scpi_cls() }
    fn opc(&mut self) -> Result<()> { self.scpi_opc() }
}

impl<const C: bool> GetEventRegister<Operation> for DevG<C> {
    fn register(&self) -> &EventRegister { &self.operation }
    fn register_mut(&mut self) -> &mut EventRegister { &mut self.operation }
}
impl<const C: bool> GetEventRegister<Questionable> for DevG<C> {
    fn register(&self) -> &EventRegister { &self.questionable }
    fn register_mut(&mut self) -> &mut EventRegister { &mut self.questionable }
}
impl<const C: bool> ErrorQueue for DevG<C> {
    fn push_back_error(&mut self, err: Error) { match &mut self.bounded { Some(q) => q.push_back_error(err), None => self.errors.push_back_error(err) } }
    fn pop_front_error(&mut self) -> Option<Error> { match &mut self.bounded { Some(q) => q.pop_front_error(), None => self.errors.pop_front_error() } }
    fn num_errors(&self) -> usize { match &self.bounded { Some(q) => q.num_errors(), None => self.errors.num_errors() } }
    fn clear_errors(&mut self) { match &mut self.bounded { Some(q) => q.clear_errors(), None => self.errors.clear_errors() } }
}
impl ScpiDevice for DevG<false> {}
impl ScpiDevice for DevG<true> {
    // the documented way to cover device-dependent register sets: STATus:PRESet must go through this hook
    fn preset(&mut self) -> Result<()> {
        self.preset_register::<Operation>();
        self.preset_register::<Questionable>();
        self.preset_register::<Voltage>();
        Ok(())
    }
}

/// `*ERR <code>[,<string ext>]`: handler-raised error of any class
struct ErrCommand;
impl<const C: bool> Command<DevG<C>> for ErrCommand where DevG<C>: ScpiDevice {
    fn event(&self, _d: &mut DevG<C>, _c: &mut Context, mut params: Parameters) -> Result<()> {
        let code: i16 = params.next_data()?;
        let ext: Option<&[u8]> = params.next_optional_data()?;
        let e = match ErrorCode::get_error(code) {
            Some(ec) => Error::new(ec),
            None => Error::custom(code, b"Custom error"),
        };
        Err(match ext { Some(x) => e.extended(leak(x.to_vec())), None => e })
    }
}

pub const TREE: Node<Dev> = Root![
    ieee488_cls!(),
    ieee488_ese!(),
    ieee488_esr!(),
    ieee488_idn!(b"Example Inc", b"T800-101", b"0", b"0"),
    ieee488_opc!(),
    ieee488_rst!(),
    ieee488_sre!(),
    ieee488_stb!(),
    ieee488_tst!(),
    ieee488_wai!(),
    scpi_status!(),
    scpi_system!(),
    Leaf { name: b"*ERR", default: false, handler: &ErrCommand }
];

/// the tree of the device with a third register set: STATus:VOLTage through scpi_register!, everything else as TREE
pub const TREE_V: Node<DevV> = Root![
    ieee488_cls!(), ieee488_ese!(), ieee488_esr!(), ieee488_idn!(b"Example Inc", b"T800-101", b"0", b"0"), ieee488_opc!(), ieee488_rst!(),
    ieee488_sre!(), ieee488_stb!(), ieee488_tst!(), ieee488_wai!(),
    scpi_status!(scpi_contrib::scpi_register!(b"VOLTage", Voltage)),
    scpi_system!(),
    Leaf { name: b"*ERR", default: false, handler: &ErrCommand }
];
/// rewrite OPERation -> VOLTage in a message (same length is not needed: only done for messages without block data or
/// strings); None when the message cannot be rewritten safely
fn oper_to_volt(msg: &[u8]) -> Option<Vec<u8>> {
    if msg.iter().any(|&b| b == b'#' || b == b'"' || b == b'\'' || b == b'(') { return None; }
    let up: Vec<u8> = msg.to_ascii_uppercase();
    let mut out = Vec::new(); let mut i = 0;
    while i < msg.len() {
        if up[i..].starts_with(b"OPERATION") { out.extend_from_slice(b"VOLTAGE"); i += 9; }
        else if up[i..].starts_with(b"OPER") && !up[i..].starts_with(b"OPERA") { out.extend_from_slice(b"VOLT"); i += 4; }
        else { out.push(msg[i]); i += 1; }
    }
    Some(out)
}

/// the same tree with the STATus branch built BY HAND from the documented command aliases (StatOper*Command /
/// StatQues*Command) instead of the scpi_status! macro: both must behave alike
pub const TREE_ALIAS: Node<Dev> = Root![
    ieee488_cls!(), ieee488_ese!(), ieee488_esr!(), ieee488_idn!(b"Example Inc", b"T800-101", b"0", b"0"), ieee488_opc!(), ieee488_rst!(),
    ieee488_sre!(), ieee488_stb!(), ieee488_tst!(), ieee488_wai!(),
    Branch { name: b"STATus", default: false, sub: &[
        Branch { name: b"OPERation", default: false, sub: &[
            Leaf { name: b"EVENt", default: true, handler: &scpi_contrib::scpi1999::status::operation::StatOperEventCommand::new() },
            Leaf { name: b"CONDition", default: false, handler: &scpi_contrib::scpi1999::status::operation::StatOperConditionCommand::new() },
            Leaf { name: b"ENABle", default: false, handler: &scpi_contrib::scpi1999::status::operation::StatOperEnableCommand::new() },
            Leaf { name: b"NTRansition", default: false, handler: &scpi_contrib::scpi1999::status::operation::StatOperNTransitionCommand::new() },
            Leaf { name: b"PTRansition", default: false, handler: &scpi_contrib::scpi1999::status::operation::StatOperPTransitionCommand::new() } ] },
        Branch { name: b"QUEStionable", default: false, sub: &[
            Leaf { name: b"EVENt", default: true, handler: &scpi_contrib::scpi1999::status::questionable::StatQuesEventCommand::new() },
            Leaf { name: b"CONDition", default: false, handler: &scpi_contrib::scpi1999::status::questionable::StatQuesConditionCommand::new() },
            Leaf { name: b"ENABle", default: false, handler: &scpi_contrib::scpi1999::status::questionable::StatQuesEnableCommand::new() },
            Leaf { name: b"NTRansition", default: false, handler: &scpi_contrib::scpi1999::status::questionable::StatQuesNTransitionCommand::new() },
            Leaf { name: b"PTRansition", default: false, handler: &scpi_contrib::scpi1999::status::questionable::StatQuesPTransitionCommand::new() } ] },
        Leaf { name: b"PRESet", default: false, handler: &scpi_contrib::scpi1999::status::StatPresetCommand } ] },
    scpi_system!(),
    Leaf { name: b"*ERR", default: false, handler: &ErrCommand }
];

/// a device that implements ONLY IEEE 488.2 (no SCPI layer): `IEEE4882::stb()` is the trait's DEFAULT method, the error
/// hook records the class bit of the error in ESR, `*CLS` clears ESR, `*OPC` sets the operation-complete bit
pub struct Dev488 { pub esr: u8, pub ese: u8, pub sre: u8 }
impl Device for Dev488 {
    fn handle_error(&mut self, err: Error) { self.esr |= err.esr_mask(); }
}
impl IEEE4882 for Dev488 {
    fn sre(&self) -> u8 { self.sre }
    fn set_sre(&mut self, value: u8) { self.sre = value }
    fn esr(&self) -> u8 { self.esr }
    fn set_esr(&mut self, value: u8) { self.esr = value }
    fn ese(&self) -> u8 { self.ese }
    fn set_ese(&mut self, value: u8) { self.ese = value }
    fn tst(&mut self) -> Result<()> { Ok(()) }
    fn rst(&mut self) -> Result<()> { Ok(()) }
    fn cls(&mut self) -> Result<()> { self.esr = 0; Ok(()) }
    fn opc(&mut self) -> Result<()> { self.esr |= 1; Ok(()) }
}
pub const TREE_488: Node<Dev488> = Root![
    ieee488_cls!(), ieee488_ese!(), ieee488_esr!(), ieee488_idn!(b"Example Inc", b"T800-101", b"0", b"0"), ieee488_opc!(), ieee488_rst!(),
    ieee488_sre!(), ieee488_stb!(), ieee488_tst!(), ieee488_wai!()
];
/// the status byte a 488.2-only device must report (488.2 11.2: ESB = some enabled ESR bit, MAV from the interface,
/// MSS = some reported bit enabled by SRE; no queue, no SCPI summaries): an independent reading of the property
fn stb488_expected(d: &Dev488, mav: bool) -> u8 {
    let mut stb = 0u8;
    if d.esr & d.ese != 0 { stb |= 32 }
    if mav { stb |= 16 }
    if stb & d.sre & !64 != 0 { stb |= 64 }
    stb
}
/// probe `*STB?`, `*ESE?`, `*SRE?` of the 488.2-only device (all three are pure) under both MAV values
fn probe488(d: &mut Dev488) -> Option<String> {
    for mav in [false, true] {
        let mut ctx = Context::new(); ctx.mav = mav;
        let (esr0, ese0, sre0) = (d.esr, d.ese, d.sre);
        let mut resp: Vec<u8> = Vec::new();
        let r = TREE_488.run(b"*STB?;*ESE?;*SRE?", d, &mut ctx, &mut resp);
        let exp = format!("{};{};{}\n", stb488_expected(d, mav), ese0, sre0);
        if r.is_err() || resp != exp.as_bytes() || (d.esr, d.ese, d.sre) != (esr0, ese0, sre0) {
            return Some(format!("mav={} got={} exp={}", mav as u8, hex(&resp), hex(exp.as_bytes())));
        }
    }
    None
}

fn regs_only<const C: bool>(d: &DevG<C>) -> String {
    format!("esr={};ese={};sre={};o={};u={}", d.esr, d.ese, d.sre, reg(&d.operation), reg(&d.questionable))
}

fn reg(r: &EventRegister) -> String {
    format!("{},{},{},{},{}", r.condition, r.event, r.enable, r.ntr_filter, r.ptr_filter)
}

fn state<const C: bool>(d: &DevG<C>) -> String {
    let q: Vec<String> = d.errors.iter().map(show_error).collect();
    format!("q={};esr={};ese={};sre={};o={};u={};h={}", if q.is_empty() { "-".to_string() } else { q.join(",") },
            d.esr, d.ese, d.sre, reg(&d.operation), reg(&d.questionable), d.hook_calls)
}

pub fn run(args: &[&str]) -> String { run_mode(args, false) }
/// kind `deva`: the same histories, but every message runs with a pre-reserved response buffer and error queue and the
/// heap allocations made during Node::run are counted (C11: the library's own handlers must not allocate)
pub fn run_alloc(args: &[&str]) -> String { run_mode(args, true) }

fn run_mode(args: &[&str], count_allocs: bool) -> String {
    // ONE Context per history, as an interface keeps one per session; `m0:`/`m1:` write its message-available flag,
    // `mk:` leaves it as it is (Node::run must not have touched it)
    let mut ctx = Context::new();
    let mut d = Dev::new();
    if count_allocs { d.errors.reserve(4096); }
    // shadow devices (not under the allocation counter): (a) the hand-built alias tree, which must behave exactly like
    // the macro-built one; (b) a device with the library's fixed-capacity queue (4 entries), whose ESR / ESE / SRE /
    // status registers must not depend on the capacity of the error queue
    let mut da = Dev::new(); let mut ctxa = Context::default();
    da.operation = EventRegister::new(); da.questionable = EventRegister::new();   // new() and default() must agree
    let mut db = Dev::new(); db.bounded = Some(arrayvec::ArrayVec::new()); let mut ctxb = Context::new();
    // (c) a device implementing only IEEE 488.2, whose `*STB?` goes through the DEFAULT `IEEE4882::stb()`: it gets every
    // message too (SCPI headers simply fail on it with -113 and set the command-error bit) and after each one its
    // status byte, ESE and SRE are probed against the 488.2 reading computed from its own registers
    let mut d488 = Dev488 { esr: 0, ese: 0, sre: 0 }; let mut ctx488 = Context::new();
    // (d) a device with a third register set STATus:VOLTage that overrides preset()/cls(): it gets every message with
    // OPERation rewritten to VOLTage (and every device-side OPERation condition change on its VOLTage register); its
    // VOLTage register must then evolve exactly like the main device's OPERation register
    let mut dv = DevV::new(); let mut ctxv = Context::new(); let mut dv_sync = true;
    let shadows = !count_allocs;
    let mut out = Vec::new();
    for step in args.get(0).unwrap_or(&"").split('|') {
        if step.is_empty() { continue; }
        let (head, val) = step.split_once(':').expect("step");
        match head.as_bytes()[0] {
            b'm' => {
                let msg = unhex(val);
                if head.as_bytes()[1] != b'k' { ctx.mav = head.as_bytes()[1] == b'1'; }
                let mut resp: Vec<u8> = if count_allocs { Vec::with_capacity(1 << 16) } else { Vec::new() };
                d.hook_calls = 0;
                let before = crate::k_tree::allocs();
                let r = TREE.run(&msg, &mut d, &mut ctx, &mut resp);
                let mut shadow_note = String::new();
                if shadows {
                    ctxa.mav = ctx.mav; ctxb.mav = ctx.mav;
                    let mut ra: Vec<u8> = Vec::new(); da.hook_calls = 0;
                    let xa = TREE_ALIAS.run(&msg, &mut da, &mut ctxa, &mut ra);
                    if xa != r || ra != resp || state(&da) != { let keep = d.hook_calls; let s = state(&d); d.hook_calls = keep; s } {
                        shadow_note.push_str(&format!(" ALIAS-TREE-DIFFERS[{}]", regs_only(&da)));
                    }
                    let mut rb: Vec<u8> = Vec::new();
                    let _ = TREE.run(&msg, &mut db, &mut ctxb, &mut rb);
                    if regs_only(&db) != regs_only(&d) { shadow_note.push_str(&format!(" BOUNDED-QUEUE-DEVICE-DIFFERS[{}]", regs_only(&db))); }
                    ctx488.mav = ctx.mav;
                    let mut r4: Vec<u8> = Vec::new();
                    let _ = TREE_488.run(&msg, &mut d488, &mut ctx488, &mut r4);
                    if dv_sync {
                        match oper_to_volt(&msg) {
                            Some(mv) => {
                                ctxv.mav = ctx.mav;
                                let mut rv: Vec<u8> = Vec::new();
                                let _ = TREE_V.run(&mv, &mut dv, &mut ctxv, &mut rv);
                                if reg(&dv.voltage) != reg(&d.operation) { shadow_note.push_str(&format!(" CUSTOM-REGISTER-DEVICE-DIFFERS[{}]", reg(&dv.voltage))); }
                            }
                            None => dv_sync = false,     // not rewritable: stop comparing for the rest of this history
                        }
                    }
                    if let Some(why) = probe488(&mut d488) { shadow_note.push_str(&format!(" IEEE488-ONLY-DEVICE-DIFFERS[{}]", why)); }
                }
                if count_allocs {
                    out.push(format!("a={}", crate::k_tree::allocs() - before));
                    continue;
                }
                match r {
                    Ok(()) => out.push(format!("OK {} {}{}", hex(&resp), state(&d), shadow_note)),
                    Err(e) => out.push(format!("{} - {}{}", show_error(&e), state(&d), shadow_note)),
                }
            }
            b'c' => {
                let v: u16 = val.parse().unwrap();
                d.hook_calls = 0;
                if head.as_bytes()[1] == b'o' { d.operation.set_condition(v); da.operation.set_condition(v); db.operation.set_condition(v); dv.voltage.set_condition(v) }
                else { d.questionable.set_condition(v); da.questionable.set_condition(v); db.questionable.set_condition(v) }
                // get_condition_bit reads the condition register bit by bit
                let mut note = String::new();
                for r in [&d.operation, &d.questionable] {
                    for k in 0..16 { if r.get_condition_bit(1 << k) != ((r.condition >> k) & 1 == 1) { note = format!(" CONDITION-BIT-DIFFERS[{}]", k); } }
                }
                out.push(format!("- - {}{}", state(&d), note));
            }
            b'b' | b'x' => {
                // b<o|q>:<mask> set_condition_bits, x<o|q>:<mask> clear_condition_bits
                let v: u16 = val.parse().unwrap();
                d.hook_calls = 0;
                for dev in [&mut d, &mut da, &mut db] {
                    let r = if head.as_bytes()[1] == b'o' { &mut dev.operation } else { &mut dev.questionable };
                    if head.as_bytes()[0] == b'b' { r.set_condition_bits(v) } else { r.clear_condition_bits(v) }
                }
                if head.as_bytes()[1] == b'o' { if head.as_bytes()[0] == b'b' { dv.voltage.set_condition_bits(v) } else { dv.voltage.clear_condition_bits(v) } }
                out.push(format!("- - {}", state(&d)));
            }
            b't' => {
                d.hook_calls = 0;
                d.tst = if val == "N" { None } else { Some(parse_error(val)) };
                da.tst = d.tst; db.tst = d.tst;
                out.push(format!("- - {}", state(&d)));
            }
            _ => panic!("bad step"),
        }
    }
    out.join(" | ")
}

/// kind `devtree`: dump the live contrib tree (names, defaults, shape) — compared with the
/// hand-written Coq tree.
pub fn dump_tree() -> String {
    fn go(n: &Node<Dev>, out: &mut String) {
        match n {
            Node::Leaf { name, default, .. } => {
                out.push_str(&format!("L{}{};", if *default { "d" } else { "" }, hex(name)));
            }
            Node::Branch { name, default, sub } => {
                out.push_str(&format!("B{}{}(", if *default { "d" } else { "" }, hex(name)));
                for c in sub.iter() { go(c, out); }
                out.push_str(");");
            }
        }
    }
    let mut s = String::new();
    go(&TREE, &mut s);
    s
}

/// kind `devrep <n> <hex failing message> <hex query message>` — a LONG session: the first message is run n times on the
/// device (its errors queue up, nobody reads them), then the query message once; output is the query's response.
pub fn run_rep(args: &[&str]) -> String {
    let n: usize = args[0].parse().unwrap();
    let fail = unhex(args[1]);
    let query = unhex(args[2]);
    let mut d = Dev::new();
    let mut ctx = Context::new();
    for _ in 0..n {
        let mut resp: Vec<u8> = Vec::new();
        let _ = TREE.run(&fail, &mut d, &mut ctx, &mut resp);
    }
    let mut resp: Vec<u8> = Vec::new();
    match TREE.run(&query, &mut d, &mut ctx, &mut resp) {
        Ok(()) => format!("OK {} qlen={} esr={}", hex(&resp), d.errors.len(), d.esr),
        Err(e) => format!("{} {} qlen={} esr={}", show_error(&e), hex(&resp), d.errors.len(), d.esr),
    }
}
