//! Shared helpers: hex coding, canonical error printing, panic capture.
use scpi::error::{Error, ErrorCode};
use std::panic::{catch_unwind, AssertUnwindSafe};

pub fn unhex(s: &str) -> Vec<u8> {
    if s == "-" {
        return Vec::new();
    }
    let b = s.as_bytes();
    assert!(b.len() % 2 == 0, "odd hex field {:?}", s);
    (0..b.len() / 2)
        .map(|i| {
            let h = (b[2 * i] as char).to_digit(16).expect("hex");
            let l = (b[2 * i + 1] as char).to_digit(16).expect("hex");
            (h * 16 + l) as u8
        })
        .collect()
}

pub fn hex(b: &[u8]) -> String {
    if b.is_empty() {
        return "-".to_string();
    }
    let mut s = String::with_capacity(b.len() * 2);
    for x in b {
        s.push_str(&format!("{:02x}", x));
    }
    s
}

pub fn leak(v: Vec<u8>) -> &'static [u8] {
    Box::leak(v.into_boxed_slice())
}

/// Canonical error text: E<code>[c<hexmsg>][x<hexext>]
pub fn show_error(e: &Error) -> String {
    let code = e.get_code();
    let mut s = format!("E{}", code);
    let std = ErrorCode::get_error(code);
    let is_std = match std {
        Some(ec) => *e == Error::new(ec) || Some(*e) == e.get_extended().map(|x| Error::new(ec).extended(x)),
        None => false,
    };
    if !is_std {
        s.push('c');
        s.push_str(&hex(e.get_message()));
    }
    if let Some(x) = e.get_extended() {
        s.push('x');
        s.push_str(&hex(x));
    }
    s
}

/// Parse an error spec: p<code> | c<code>:<hexmsg>, optionally followed by x<hexext>
pub fn parse_error(spec: &str) -> Error {
    let (main, ext) = match spec.find('x') {
        Some(i) => (&spec[..i], Some(&spec[i + 1..])),
        None => (spec, None),
    };
    let e = if let Some(rest) = main.strip_prefix('p') {
        let code: i16 = rest.parse().expect("code");
        match ErrorCode::get_error(code) {
            Some(ec) => Error::new(ec),
            None => panic!("p-spec with non-standard code {}", code),
        }
    } else if let Some(rest) = main.strip_prefix('c') {
        let (c, m) = rest.split_once(':').expect("c<code>:<msg>");
        Error::custom(c.parse().expect("code"), leak(unhex(m)))
    } else {
        panic!("bad error spec {:?}", spec)
    };
    match ext {
        Some(x) => e.extended(leak(unhex(x))),
        None => e,
    }
}

/// Run f, mapping a panic to Err(message).
pub fn guarded<T>(f: impl FnOnce() -> T) -> Result<T, String> {
    catch_unwind(AssertUnwindSafe(f)).map_err(|p| {
        if let Some(s) = p.downcast_ref::<&str>() {
            s.to_string()
        } else if let Some(s) = p.downcast_ref::<String>() {
            s.clone()
        } else {
            "panic".to_string()
        }
    })
}
