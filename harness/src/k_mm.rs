//! kind `mm <defhex> <candhex,candhex,...>` — C03: mnemonic_match / mnemonic_compare /
//! Token::match_program_header on ProgramMnemonic and CharacterProgramData.
use crate::util::*;
use scpi::parser::tokenizer::Token;
use scpi::parser::{mnemonic_compare, mnemonic_match};

fn tf(b: bool) -> char {
    if b { 'T' } else { 'F' }
}

pub fn run(args: &[&str]) -> String {
    let def = leak(unhex(args[0]));
    let mut out = Vec::new();
    for c in args.get(1).unwrap_or(&"").split(',') {
        if c.is_empty() { continue; }
        let cand = unhex(c);
        let m = mnemonic_match(def, &cand);
        let cmp = mnemonic_compare(def, &cand);
        let h = Token::ProgramMnemonic(&cand).match_program_header(def);
        let d = Token::CharacterProgramData(&cand).match_program_header(def);
        let o = Token::StringProgramData(&cand).match_program_header(def);
        out.push(format!("{}{}{}{}{}", tf(m), tf(cmp), tf(h), tf(d), tf(o)));
    }
    out.join(" ")
}
