//! kind `conv <type> <hexbytes>` — C07, C08: the bytes are lexed with Tokenizer::new_params, the FIRST
//! token is converted with <T as TryFrom<Token>>::try_from.  Output: I<int> | F<ieee bits hex> | B<0|1> |
//! Y<hex payload> | E<error> | L<lexer error code> | - (no token).
use crate::util::*;
use scpi::error::Error;
use scpi::parser::format::{Arbitrary, Character, Expression};
use scpi::parser::tokenizer::{Token, Tokenizer};

fn res<T>(r: Result<T, Error>, f: impl Fn(T) -> String) -> String {
    match r { Ok(v) => f(v), Err(e) => show_error(&e) }
}

pub fn convert(ty: &str, tok: Token) -> String {
    macro_rules! int { ($t:ty) => { res(<$t>::try_from(tok), |v| format!("I{}", v)) }; }
    match ty {
        "i8" => int!(i8), "u8" => int!(u8), "i16" => int!(i16), "u16" => int!(u16), "i32" => int!(i32), "u32" => int!(u32),
        "i64" => int!(i64), "u64" => int!(u64), "isize" => int!(isize), "usize" => int!(usize),
        "f32" => res(<f32>::try_from(tok), |v| format!("F{:08x}", v.to_bits())),
        "f64" => res(<f64>::try_from(tok), |v| format!("F{:016x}", v.to_bits())),
        "bool" => res(<bool>::try_from(tok), |v| format!("B{}", v as u8)),
        "bytes" => res(<&[u8]>::try_from(tok), |v| format!("Y{}", hex(v))),
        "str" => res(<&str>::try_from(tok), |v| format!("Y{}", hex(v.as_bytes()))),
        "arb" => res(Arbitrary::try_from(tok), |v| format!("Y{}", hex(v.0))),
        "chr" => res(Character::try_from(tok), |v| format!("Y{}", hex(v.0))),
        "expr" => res(Expression::try_from(tok), |v| format!("Y{}", hex(v.0))),
        _ => panic!("bad type {}", ty),
    }
}

pub fn run(args: &[&str]) -> String {
    let input = unhex(args.get(1).unwrap_or(&"-"));
    let mut toks = Tokenizer::new_params(&input);
    match toks.next() {
        None => "-".into(),
        Some(Err(e)) => format!("L{}", e.get_code()),
        Some(Ok(t)) => if t.is_data() { convert(args[0], t) } else { "N".into() },
    }
}
